"""Concolic execution of generated model code.

`Sym` carries (term tree, concrete float).  `RecArray` replaces a model's NumPy series: every
index used by the generated code is logged raw (so a negative, wrapping index is seen), reads
return fresh leaves ('cell', name, position, version) and writes store the value and bump the
cell's version.  The reference interpreter evaluates a Script.tla tree with the same Python
operators over the same leaves, so equality of trees means equality for *all* data, and the
concrete values are a second, independent comparison.
"""
from __future__ import annotations

import math
import operator
from typing import Any, Dict, List, Tuple

import numpy as np

from .script_render import NAMED, num_value


class Sym:
    """Term tree + concrete value; `ev` is the shared event list (branch decisions are logged there)."""
    __slots__ = ('tree', 'val', 'ev')
    __array_priority__ = 1000
    __hash__ = None

    def __init__(self, tree, val, ev=None):
        self.tree, self.val, self.ev = tree, val, ev

    def _mk(self, tree, val, other=None):
        ev = self.ev if self.ev is not None else (other.ev if isinstance(other, Sym) else None)
        return Sym(tree, val, ev)

    @staticmethod
    def _num(v):
        return v if isinstance(v, (bool, np.bool_)) else np.float64(v)

    def _bin(self, op, fn, other, swap=False):
        a, b = (other, self) if swap else (self, other)
        with np.errstate(all='ignore'):
            try:
                v = fn(self._num(valof(a)), self._num(valof(b)))
            except (ZeroDivisionError, OverflowError):
                v = math.nan
        return self._mk(('bin', op, treeof(a), treeof(b)), v, other)

    def __add__(self, o): return self._bin('+', operator.add, o)
    def __radd__(self, o): return self._bin('+', operator.add, o, True)
    def __sub__(self, o): return self._bin('-', operator.sub, o)
    def __rsub__(self, o): return self._bin('-', operator.sub, o, True)
    def __mul__(self, o): return self._bin('*', operator.mul, o)
    def __rmul__(self, o): return self._bin('*', operator.mul, o, True)
    def __truediv__(self, o): return self._bin('/', operator.truediv, o)
    def __rtruediv__(self, o): return self._bin('/', operator.truediv, o, True)
    def __pow__(self, o): return self._bin('**', operator.pow, o)
    def __rpow__(self, o): return self._bin('**', operator.pow, o, True)
    def __neg__(self): return self._mk(('neg', self.tree), -self.val)
    def __pos__(self): return self._mk(('pos', self.tree), +self.val)
    def __abs__(self): return self._mk(('call', 'abs', (self.tree,)), abs(self.val))

    def _cmp(self, op, fn, other):
        return self._mk(('cmp', op, self.tree, treeof(other)), bool(fn(valof(self), valof(other))), other)

    def __lt__(self, o): return self._cmp('<', operator.lt, o)
    def __le__(self, o): return self._cmp('<=', operator.le, o)
    def __gt__(self, o): return self._cmp('>', operator.gt, o)
    def __ge__(self, o): return self._cmp('>=', operator.ge, o)
    def __eq__(self, o): return self._cmp('==', operator.eq, o)
    def __ne__(self, o): return self._cmp('!=', operator.ne, o)

    def __bool__(self):
        if self.ev is not None:
            self.ev.append(('branch', self.tree, bool(self.val)))
        return bool(self.val)

    def __float__(self):
        return float(self.val)

    def _fn(self, name, fn):
        with np.errstate(all='ignore'):
            v = fn(np.float64(self.val))
        return self._mk(('call', name, (self.tree,)), v)

    def exp(self): return self._fn('np.exp', np.exp)
    def log(self): return self._fn('np.log', np.log)
    def sqrt(self): return self._fn('np.sqrt', np.sqrt)

    def __repr__(self):
        return f'Sym({self.tree!r}, {self.val!r})'




def treeof(x):
    if isinstance(x, Sym):
        return x.tree
    if isinstance(x, (bool, np.bool_)):
        return ('numv', bool(x))
    if isinstance(x, (int, np.integer)):
        return ('numv', int(x))
    if isinstance(x, (float, np.floating)):
        return ('numv', float(x))
    return ('obj', repr(x))


def valof(x):
    return x.val if isinstance(x, Sym) else x


tree_of = treeof
val_of = valof


class RecArray:
    """Recording stand-in for one model series."""

    def __init__(self, name: str, values, events: List[Tuple]):
        self.name = name
        self.vals = [float(v) for v in values]
        self.vers = [0] * len(self.vals)
        self.events = events
        self.dtype = np.dtype(float)
        self.shape = (len(self.vals),)

    def __len__(self):
        return len(self.vals)

    def _pos(self, i):
        if isinstance(i, slice) or not isinstance(i, (int, np.integer)):
            raise TypeError(f'unsupported index {i!r} on series {self.name}')
        i = int(i)
        n = len(self.vals)
        if i < -n or i >= n:
            self.events.append(('oob', self.name, i))
            raise IndexError(f'index {i} is out of bounds for axis 0 with size {n}')
        return i if i >= 0 else i + n

    def __getitem__(self, i):
        p = self._pos(i)
        self.events.append(('r', self.name, int(i), p, self.vers[p]))
        return Sym(('cell', self.name, p, self.vers[p]), self.vals[p], self.events)

    def __setitem__(self, i, value):
        p = self._pos(i)
        self.vers[p] += 1
        v = val_of(value)
        self.events.append(('w', self.name, int(i), p, tree_of(value), v))
        try:
            self.vals[p] = float(v)
        except (TypeError, ValueError):
            self.vals[p] = math.nan

    def copy(self):
        return np.array(self.vals)

    def __array__(self, dtype=None, copy=None):
        return np.array(self.vals, dtype=dtype or float)


class vf:
    """A user namespace whose functions share their last name component with the functions fsic replaces (exp, log, max,
    min) but mean something else: they must reach the generated code untouched ("leaving namespaced functions ... untouched")."""

    @staticmethod
    def exp(x):
        return x * 2 + 100

    @staticmethod
    def max(a, b):
        return a - b * 3


FUNCS = {
    'exp': np.exp, 'log': np.log, 'np.sqrt': np.sqrt, 'abs': abs, 'max': max, 'min': min, 'np.exp': np.exp, 'np.log': np.log,
    'vf.exp': vf.exp, 'vf.max': vf.max,
}
BINOPS = {'+': operator.add, '-': operator.sub, '*': operator.mul, '/': operator.truediv, '**': operator.pow}
CMPOPS = {'<': operator.lt, '<=': operator.le, '>': operator.gt, '>=': operator.ge, '==': operator.eq, '!=': operator.ne}


class RefStore:
    """The reference interpreter's view of the model data: name -> RecArray (its own copies)."""

    def __init__(self, arrays: Dict[str, RecArray], names: List[str], t: int, named_pos=None):
        self.arrays, self.names, self.t, self.named_pos = arrays, names, t, named_pos

    def read(self, name_id, idx):
        arr = self.arrays[self.names[name_id - 1]]
        if idx == NAMED:
            return arr[self.named_pos]
        return arr[self.t + idx]

    def write(self, name_id, idx, value):
        self.arrays[self.names[name_id - 1]][self.t + idx] = value


def ref_eval(tree, store: RefStore):
    """Evaluate a Script.tla tree with Python semantics (left to right, lazy conditional)."""
    k = tree[0]
    if k == 'var':
        return store.read(tree[2], tree[3])
    if k == 'num':
        return num_value(tree[1])
    if k == 'verb':
        return eval(tree[1])          # verbatim Python text, evaluated as it stands
    if k == 'paren':
        return ref_eval(tree[1], store)
    if k == 'neg':
        v = ref_eval(tree[1], store)
        with np.errstate(all='ignore'):
            return -v
    if k == 'bin':
        a = ref_eval(tree[2], store)
        b = ref_eval(tree[3], store)
        with np.errstate(all='ignore'):
            try:
                return BINOPS[tree[1]](a, b)
            except ZeroDivisionError:
                raise
    if k == 'bool':  # Python's short-circuit and / or: the result is one of the operands
        a = ref_eval(tree[2], store)
        if tree[1] == 'and':
            return a if not a else ref_eval(tree[3], store)
        return a if a else ref_eval(tree[3], store)
    if k == 'not':
        return not ref_eval(tree[1], store)
    if k == 'cmp':
        a = ref_eval(tree[2], store)
        b = ref_eval(tree[3], store)
        return CMPOPS[tree[1]](a, b)
    if k == 'call':
        args = [ref_eval(a, store) for a in tree[2]]
        with np.errstate(all='ignore'):
            return FUNCS[tree[1]](*args)
    if k == 'cond':
        c = ref_eval(tree[2], store)
        return ref_eval(tree[1], store) if c else ref_eval(tree[3], store)
    raise ValueError(k)
