"""Core of the verification harness: TLC driver, emission parsing, findings,
evidence, verdict lines.  Everything under /verif/harness runs with
/venv/bin/python and imports fsic from /repo's *working tree*.

Exit codes of every check:  0 held / 1 violation (VIOLATION line) / 2 machinery failure.
"""
from __future__ import annotations

import atexit
import json
import os
import re
import shutil
import subprocess
import sys
import tempfile
import time
import traceback
from concurrent.futures import ThreadPoolExecutor
from dataclasses import dataclass, field
from pathlib import Path
from typing import Any, Callable, Dict, Iterable, List, Optional, Sequence

VERIF = Path(__file__).resolve().parent.parent
REPO = Path(os.environ.get('FSIC_REPO', '/repo'))
SPEC = VERIF / 'spec'
EVIDENCE = Path(os.environ.get('FSIC_VERIF_EVIDENCE', VERIF / 'evidence'))
REPLAYS = Path(os.environ.get('FSIC_VERIF_REPLAYS', VERIF / 'replays'))
KNOWN = VERIF / 'KNOWN_FINDINGS.txt'
PY = '/venv/bin/python'
TLA_JAR = '/opt/veriftools/tla/tla2tools.jar'
TLA_DEPS = '/opt/veriftools/tla/CommunityModules-deps.jar'
NCPU = min(16, os.cpu_count() or 4)
GUARD = 'FSIC_VERIF'


class MachineryError(Exception):
    """The verification machinery itself failed (exit 2, never a verdict)."""


# --------------------------------------------------------------------------
# scratch space (outside /repo and /verif, removed at exit)

_scratch: Optional[Path] = None


def scratch() -> Path:
    global _scratch
    if _scratch is None:
        _scratch = Path(tempfile.mkdtemp(prefix='fsicverif-'))
        atexit.register(lambda: shutil.rmtree(_scratch, ignore_errors=True))
    return _scratch


def subdir(name: str) -> Path:
    d = scratch() / name
    d.mkdir(parents=True, exist_ok=True)
    return d


# --------------------------------------------------------------------------
# TLC


@dataclass
class TLCResult:
    rc: int
    generated: int = 0
    distinct: int = 0
    depth: int = 0
    coverage: Dict[str, List[int]] = field(default_factory=dict)  # action -> [distinct, total]
    records: List[Any] = field(default_factory=list)  # JSON records printed by the spec
    violated: Optional[str] = None  # name of violated invariant / property
    error: Optional[str] = None  # evaluation error etc.
    log: str = ''
    wall: float = 0.0
    cmd: str = ''
    postcondition_failed: bool = False

    @property
    def ok(self) -> bool:
        return self.rc == 0 and self.violated is None and self.error is None and not self.postcondition_failed


_RE_STATES = re.compile(r'(\d+) states generated, (\d+) distinct states found, (\d+) states left on queue')
_RE_DEPTH = re.compile(r'The depth of the complete state graph search is (\d+)')
_RE_COV = re.compile(r'^<(\w+) line \d+, col \d+ to line \d+, col \d+ of module (\w+)(?: \([\d ]+\))?>: (\d+):(\d+)')
_RE_INV = re.compile(r'Invariant (\S+) is violated')
_RE_PROP = re.compile(r'(?:Temporal properties were violated|Action property (\S+) is violated|property (\S+) (?:is|was) violated)')


def _stage_specs(dest: Path) -> None:
    for f in SPEC.glob('*.tla'):
        tgt = dest / f.name
        if not tgt.exists() or tgt.stat().st_mtime < f.stat().st_mtime:
            shutil.copy2(f, tgt)


def run_tlc(
    module: str,
    cfg_text: str,
    *,
    workers: int = NCPU,
    tag: str = 'run',
    simulate: Optional[str] = None,
    depth: Optional[int] = None,
    seed: Optional[int] = None,
    coverage: bool = False,
    extra: Sequence[str] = (),
    env: Optional[Dict[str, str]] = None,
    timeout: int = 3600,
    deque: bool = False,
    heap: str = '4g',
    keep_records: bool = True,
    record_sink: Optional[Callable[[Any], None]] = None,
) -> TLCResult:
    """Run TLC on spec/<module>.tla with the given cfg text in a private directory."""
    work = subdir(f'tlc-{tag}')
    _stage_specs(work)
    cfg = work / f'{module}-{tag}.cfg'
    cfg.write_text(cfg_text)
    meta = work / f'meta-{tag}'
    cmd = ['java', '-XX:+UseParallelGC', f'-Xmx{heap}', '-Xss32m', f'-Djava.io.tmpdir={work}']     # (SANY unpacks its library into java.io.tmpdir)
    if deque:
        cmd.append('-Dtlc2.tool.queue.IStateQueue=StateDeque')
    cmd += ['-cp', f'{TLA_JAR}:{TLA_DEPS}', 'tlc2.TLC', '-workers', str(workers), '-metadir', str(meta),
            '-noGenerateSpecTE', '-config', str(cfg)]
    if coverage:
        cmd += ['-coverage', '1']
    if simulate is not None:
        cmd += ['-simulate', simulate]
    if depth is not None:
        cmd += ['-depth', str(depth)]
    if seed is not None:
        cmd += ['-seed', str(seed)]
    cmd += list(extra)
    cmd.append(str(work / f'{module}.tla'))
    e = dict(os.environ)
    e.pop('JAVA_TOOL_OPTIONS', None)
    if env:
        e.update(env)
    t0 = time.time()
    logp = work / f'{module}-{tag}.log'
    res = TLCResult(rc=-1, cmd=' '.join(cmd))
    with open(logp, 'w') as logf:
        p = subprocess.Popen(cmd, cwd=work, env=e, stdout=subprocess.PIPE, stderr=subprocess.STDOUT, text=True, bufsize=1 << 20)
        try:
            deadline = t0 + timeout
            for line in p.stdout:
                if line.startswith('"{') or line.startswith('"['):
                    try:
                        rec = json.loads(json.loads(line))
                    except Exception as ex:  # interleaved or truncated line: machinery problem
                        raise MachineryError(f'unparseable record line from TLC ({ex}): {line[:200]}')
                    if record_sink is not None:
                        record_sink(rec)
                    if keep_records:
                        res.records.append(rec)
                    continue
                logf.write(line)
                m = _RE_STATES.search(line)
                if m:
                    res.generated, res.distinct = int(m.group(1)), int(m.group(2))
                m = _RE_DEPTH.search(line)
                if m:
                    res.depth = int(m.group(1))
                m = _RE_COV.match(line)
                if m:
                    res.coverage[m.group(1)] = [int(m.group(3)), int(m.group(4))]
                m = _RE_INV.search(line)
                if m:
                    res.violated = m.group(1)
                m = _RE_PROP.search(line)
                if m:
                    res.violated = m.group(1) or m.group(2) or 'temporal'
                if 'Error: ' in line and res.error is None and 'violated' not in line:
                    res.error = line.strip()
                if 'The postcondition' in line and 'violated' in line or 'Postcondition' in line and 'false' in line.lower():
                    res.postcondition_failed = True
                if time.time() > deadline:
                    p.kill()
                    raise MachineryError(f'TLC timeout after {timeout}s: {module} {tag}')
            p.wait()
        finally:
            if p.poll() is None:
                p.kill()
    res.rc = p.returncode
    res.wall = time.time() - t0
    res.log = str(logp)
    shutil.rmtree(meta, ignore_errors=True)
    return res


def tlc_log_tail(res: TLCResult, n: int = 40) -> str:
    try:
        return ''.join(open(res.log).readlines()[-n:])
    except Exception:
        return '<no log>'


def require_ok(res: TLCResult, what: str) -> None:
    """A design-level TLC run must pass; an invariant violated on the *spec* is a
    machinery (specification) failure, not a verdict about the code."""
    if not res.ok:
        raise MachineryError(
            f'TLC run failed for {what}: rc={res.rc} violated={res.violated} error={res.error}\n' + tlc_log_tail(res)
        )


def require_coverage(res: TLCResult, actions: Iterable[str], what: str) -> None:
    missing = [a for a in actions if res.coverage.get(a, [0, 0])[1] == 0]
    if missing:
        raise MachineryError(f'vacuous run ({what}): actions never taken: {missing}')


def run_sharded(module: str, cfg_template: str, nshards: int, *, tag: str, timeout: int = 3600, heap: str = '2g',
                extra: Sequence[str] = (), env: Optional[Dict[str, str]] = None) -> List[TLCResult]:
    """Run `nshards` single-worker TLC processes; cfg_template contains {shard} and {nshards}."""
    def one(i: int) -> TLCResult:
        return run_tlc(module, cfg_template.format(shard=i, nshards=nshards), workers=1, tag=f'{tag}-s{i}',
                       timeout=timeout, heap=heap, extra=extra, env=env)
    with ThreadPoolExecutor(max_workers=min(nshards, NCPU)) as ex:
        return list(ex.map(one, range(nshards)))


def sany(module: str) -> None:
    work = subdir('sany')
    _stage_specs(work)
    p = subprocess.run(['java', f'-Djava.io.tmpdir={work}', '-cp', f'{TLA_JAR}:{TLA_DEPS}', 'tla2sany.SANY', str(work / f'{module}.tla')],
                       cwd=work, capture_output=True, text=True)
    if p.returncode != 0 or 'error' in p.stdout.lower() and 'Semantic errors' in p.stdout:
        raise MachineryError(f'SANY failed for {module}:\n{p.stdout[-3000:]}')


def run_apalache(module: str, args: Sequence[str], tag: str, timeout: int = 600) -> Dict[str, Any]:
    """One `apalache-mc check` run on a staged copy of spec/; returns outcome ('NoError' / 'Error' / ...), wall time."""
    work = subdir(f'apalache-{tag}')
    _stage_specs(work)
    t0 = time.time()
    env = dict(os.environ)
    env['TMPDIR'] = str(work)      # the apalache-mc wrapper makes a SANYxxxx directory with mktemp -t and never removes it: keep it in the scratch directory
    p = subprocess.run(['apalache-mc', 'check', *args, f'--out-dir={work}/out', f'{module}.tla'], cwd=work, capture_output=True, text=True,
                       timeout=timeout, env=env)
    m = re.search(r'The outcome is: (\w+)', p.stdout)
    out = {'outcome': m.group(1) if m else f'rc={p.returncode}', 'wall': round(time.time() - t0, 1), 'args': list(args), 'tail': p.stdout[-1500:]}
    shutil.rmtree(work / 'out', ignore_errors=True)
    return out


# --------------------------------------------------------------------------
# findings


@dataclass
class Finding:
    property: str
    key: str
    text: str


def load_known() -> Dict[str, Dict[str, str]]:
    """property -> key -> text, from the committed file (never written at run time)."""
    out: Dict[str, Dict[str, str]] = {}
    if KNOWN.exists():
        for line in KNOWN.read_text().splitlines():
            m = re.match(r'known: property=(\S+) key=(\S+) :: (.*)', line)
            if m:
                out.setdefault(m.group(1), {})[m.group(2)] = m.group(3)
    return out


@dataclass
class Ctx:
    prop: str
    tier: str
    seed: int
    level: str = 'model_checking'
    t0: float = field(default_factory=time.time)
    tlc_runs: List[Dict[str, Any]] = field(default_factory=list)
    states: int = 0
    transitions: int = 0
    evaluations: int = 0
    nontrivial: int = 0
    traces_validated: int = 0
    samples: List[Any] = field(default_factory=list)
    violations: List[Dict[str, Any]] = field(default_factory=list)
    known_seen: Dict[str, int] = field(default_factory=dict)
    assumptions: List[str] = field(default_factory=list)
    extra: Dict[str, Any] = field(default_factory=dict)
    rule: str = ''
    exhaustive: Optional[bool] = None
    _known: Dict[str, str] = field(default_factory=dict)
    _violation_keys: Dict[str, int] = field(default_factory=dict)

    def __post_init__(self) -> None:
        self._known = load_known().get(self.prop, {})

    # -- bookkeeping -------------------------------------------------------
    def add_tlc(self, res: TLCResult, what: str, constants: str = '') -> None:
        self.tlc_runs.append({'what': what, 'generated': res.generated, 'distinct': res.distinct, 'depth': res.depth,
                              'wall_s': round(res.wall, 2), 'constants': constants,
                              'coverage': res.coverage or None})
        self.states += res.distinct
        self.transitions += res.generated

    def sample(self, s: Any, limit: int = 6) -> None:
        if len(self.samples) < limit:
            self.samples.append(s)

    def mismatch(self, key: str, detail: Dict[str, Any]) -> None:
        """Record a code/spec disagreement under a finding key computed from the
        failing case's features.  Listed keys become KNOWN-FINDING lines."""
        nk = re.sub(r'\s+', '_', key)  # keys in KNOWN_FINDINGS.txt are written without spaces
        if nk in self._known:
            self.known_seen[nk] = self.known_seen.get(nk, 0) + 1
            return
        n = self._violation_keys.get(key, 0)
        self._violation_keys[key] = n + 1
        if n == 0:
            REPLAYS.mkdir(exist_ok=True)
            path = REPLAYS / f'{self.prop}-{re.sub(r"[^A-Za-z0-9_.-]+", "_", key)[:80]}.json'
            path.write_text(json.dumps({'property': self.prop, 'key': key, **detail}, indent=1, default=str))
            self.violations.append({'key': key, 'replay': str(path)})

    # -- verdict -----------------------------------------------------------
    def finish(self) -> int:
        for key, n in sorted(self.known_seen.items()):
            print(f'KNOWN-FINDING: property={self.prop} {key} :: {self._known[key]} (seen {n}x)')
        for v in self.violations[:12]:
            print(f'VIOLATION property={self.prop} replay={v["replay"]}')
        if len(self.violations) > 12:
            print(f'... and {len(self.violations) - 12} more violation keys (all listed in the evidence file, replays under {REPLAYS})')
        write_evidence(self)
        return 1 if self.violations else 0


def write_evidence(ctx: Ctx) -> None:
    EVIDENCE.mkdir(exist_ok=True)
    cov: Dict[str, Any] = {
        'evaluations': int(ctx.evaluations),
        'distinct_nontrivial': int(ctx.nontrivial),
        'rule': ctx.rule,
        'samples': ctx.samples[:8] or ['<none>'],
        'states': int(ctx.states),
        'transitions': int(ctx.transitions),
        'traces_validated_against_impl': int(ctx.traces_validated),
        'tlc_runs': ctx.tlc_runs,
        'known_findings_seen': ctx.known_seen,
        'violation_keys': ctx._violation_keys,
    }
    if ctx.exhaustive is not None:
        cov['exhaustive'] = bool(ctx.exhaustive)
    cov.update(ctx.extra)
    ev = {
        'property_id': ctx.prop,
        'tier': ctx.tier,
        'seed': int(ctx.seed),
        'level': ctx.level,
        'coverage': cov,
        'assumptions': ctx.assumptions,
        'wall_s': round(time.time() - ctx.t0, 2),
        'violations': len(ctx.violations),
    }
    (EVIDENCE / f'{ctx.prop}.json').write_text(json.dumps(ev, indent=1, default=str))


# --------------------------------------------------------------------------
# running code under test in worker processes


def worker_env(hooks: bool = False, trace_file: Optional[str] = None) -> Dict[str, str]:
    e = dict(os.environ)
    e['PYTHONPATH'] = f'{REPO}:{VERIF}'
    e['PYTHONHASHSEED'] = '0'
    e['PYTHONDONTWRITEBYTECODE'] = '1'
    if hooks:
        e[GUARD] = '1'
        if trace_file:
            e['FSIC_VERIF_TRACE'] = trace_file
    else:
        e.pop(GUARD, None)
        e.pop('FSIC_VERIF_TRACE', None)
    return e


def run_workers(module: str, payloads: List[Any], *, hooks: bool = False, timeout: int = 3600,
                trace_files: Optional[List[str]] = None) -> List[Any]:
    """Run `python -m <module>` once per payload (JSON on stdin, JSON on stdout), in parallel.
    Each worker imports /repo/fsic afresh from the working tree."""
    def one(i: int) -> Any:
        inp = subdir('workers') / f'{module.split(".")[-1]}-{os.getpid()}-{i}-{time.time_ns()}.in.json'
        inp.write_text(json.dumps(payloads[i]))
        tf = trace_files[i] if trace_files else None
        p = subprocess.run([PY, '-m', module, str(inp)], cwd=VERIF, env=worker_env(hooks, tf), capture_output=True,
                           text=True, timeout=timeout)
        inp.unlink(missing_ok=True)
        if p.returncode != 0:
            raise MachineryError(f'worker {module}[{i}] failed rc={p.returncode}:\n{p.stderr[-4000:]}')
        try:
            return json.loads(p.stdout)
        except Exception:
            raise MachineryError(f'worker {module}[{i}] produced unparseable output:\n{p.stdout[-2000:]}\n{p.stderr[-2000:]}')
    with ThreadPoolExecutor(max_workers=NCPU) as ex:
        return list(ex.map(one, range(len(payloads))))


def chunks(xs: List[Any], n: int) -> List[List[Any]]:
    n = max(1, n)
    k = (len(xs) + n - 1) // n if xs else 1
    return [xs[i:i + k] for i in range(0, len(xs), k)] or [[]]


def main_wrapper(fn: Callable[[], int]) -> None:
    try:
        rc = fn()
    except MachineryError as e:
        print(f'MACHINERY-FAILURE: {e}', file=sys.stderr)
        sys.exit(2)
    except Exception:
        traceback.print_exc()
        print('MACHINERY-FAILURE: unexpected exception in harness', file=sys.stderr)
        sys.exit(2)
    sys.exit(rc)
