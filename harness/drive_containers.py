"""Random public-API traffic on containers and models with the container hooks on (code -> spec, ContainerTrace.tla).
Worker: python -m harness.drive_containers payload.json   (payload: seed, runs)"""
import json
import os
import sys

os.environ['FSIC_VERIF_OPS'] = '1'   # before fsic is imported: the hooks are installed at import time

import copy
import random
import warnings

import numpy as np

import fsic

DTYPES = [None, float, int, bool, str, '<U3', np.float32, np.int16, object]


def operand(rng, L):
    k = rng.randrange(12)
    n = rng.choice([L, L, L, L - 1, L + 1, 1, 0, 2 * L])
    vals = [rng.choice([0, 1, -2, 2.5, float('nan'), True, 'ab', 7]) for _ in range(max(n, 0))]
    if k < 3:
        return rng.choice([0, 1.5, -3, True, 'x', float('nan'), None, 2 + 0j])
    if k == 3:
        return vals
    if k == 4:
        return tuple(vals)
    if k == 5:
        return range(n)
    if k == 6:
        return np.array([float(i) for i in range(n)])
    if k == 7:
        return np.arange(n)
    if k == 8:
        return [[1, 2]] * max(n, 1)
    if k == 9:
        return np.ones((2, max(n, 1)))
    if k == 10:
        return np.array(['p', 'qq', 'rrr'] * n)[:n]
    return np.array([True, False] * n)[:n]


def one_run(rng, stats):
    L = rng.randrange(1, 6)
    span = rng.choice([range(L), [f'p{i}' for i in range(L)], np.arange(10, 10 + L)])
    if rng.random() < 0.4:
        M = fsic.build_model(fsic.parse_model('Y = X + Z[-1]\nZ = {a} * Y' if rng.random() < 0.5 else 'Y = 0.5 * X'))
        if len(span) < 2:
            span = range(3)
            L = 3
        o = M(span, strict=rng.random() < 0.3)
    else:
        o = fsic.core.VectorContainer(span, strict=rng.random() < 0.3)
    objs = [o]
    names = ['A', 'B', 'X', 'Y', 'Q', 'values', 'note', 'lags']
    for _ in range(rng.randrange(4, 14)):
        o = rng.choice(objs)
        L = len(o.span)
        name = rng.choice(names + list(o.index))
        act = rng.randrange(11)
        stats['ops'] += 1
        try:
            with warnings.catch_warnings():
                warnings.simplefilter('ignore')
                if act == 0:
                    o.add_variable(name, operand(rng, L), dtype=rng.choice(DTYPES))
                elif act in (1, 2):
                    setattr(o, name, operand(rng, L))
                elif act == 3:
                    o[name] = operand(rng, L)
                elif act == 4:
                    o[name, o.span[rng.randrange(L)]] = operand(rng, L)
                elif act == 5:
                    a, b = sorted([rng.randrange(L), rng.randrange(L)])
                    o[name, o.span[a]:o.span[b]] = operand(rng, b - a + 1)
                elif act == 6:
                    o.replace_values(**{name: operand(rng, L), rng.choice(list(o.index) or ['A']): operand(rng, L)})
                elif act == 7:
                    o.values = rng.choice([0, 1.5, np.zeros((len(o.index), L)), np.zeros((1, L))])
                elif act == 8:
                    objs.append(rng.choice([o.copy, lambda: copy.copy(o), lambda: copy.deepcopy(o)])())
                elif act == 9:
                    lo = rng.randrange(-2, 3)
                    new = [o.span[i] if 0 <= i < L else f'new{i}' if isinstance(o.span, list) else (1000 + i) for i in range(lo, lo + rng.randrange(1, 7))]
                    objs.append(o.reindex(new, **({'fill_value': 0} if rng.random() < 0.3 else {})))
                else:
                    o.strict = not o.strict
        except Exception:
            stats['raised'] += 1


def main():
    payload = json.load(open(sys.argv[1]))
    rng = random.Random(payload['seed'])
    stats = {'runs': 0, 'ops': 0, 'raised': 0}
    for _ in range(payload['runs']):
        one_run(rng, stats)
        stats['runs'] += 1
    print(json.dumps(stats))


if __name__ == '__main__':
    main()
