"""Worker: drive real linkers (parser-built submodels with differing lags/leads, cross-links in the linker hooks)
through random option sets and selections with the hooks on; the trace is validated against LinkerTrace.tla.

python -m harness.drive_linkers payload.json   payload: {"seed": int, "runs": int}
"""
from __future__ import annotations

import json
import random
import sys
import warnings

import fsic

SCRIPTS = [
    'Y = C + G + X - M\nC = {a} * Y[-1] + 1\nM = {m} * Y',
    'Y = C + G + X - M\nC = {a} * Y\nM = {m} * Y[-1]\nK = K[-1] + 0.1 * Y[1]',
    'Y = {a} * Y + G + X - M\nM = {m} * Y',
    'Y = 0.5 * Y[-2] + G + X\nM = {m} * Y',
]


def main():
    payload = json.load(open(sys.argv[1]))
    rng = random.Random(payload['seed'])
    classes = {}
    outcomes = {}
    for _ in range(payload['runs']):
        n = rng.choice([1, 2, 2, 3, 4])
        L = rng.choice([5, 6, 8])
        subs = {}
        for i in range(n):
            text = rng.choice(SCRIPTS).format(a=rng.choice([0.5, 0.6, 0.25]), m=rng.choice([0.1, 0.2, 0.3]))
            if text not in classes:
                classes[text] = fsic.build_model(fsic.parse_model(text))
            subs[rng.choice(['A', 'B', 'C', 'D', 'E', 1, 2, 3, ('x', 1)]) if rng.random() < 0.3 else f'R{i}'] = classes[text](range(2000, 2000 + L), G=rng.choice([1.0, 5.0]))
        if len(subs) < 1:
            continue

        class Link(fsic.BaseLinker):
            ENDOGENOUS = ['WT'] if rng.random() < 0.6 else []
            NAMES = ENDOGENOUS
            CHECK = ENDOGENOUS

            def evaluate_t_before(self, t, *, submodels=None, **kwargs):
                total = sum(m.M[t] for m in self.submodels.values())
                if 'WT' in self.names:
                    self.WT[t] = total
                for m in self.submodels.values():
                    m.X[t] = total / max(len(self.submodels), 1)

        linker = Link(subs)
        keys = list(subs)
        sel = None
        r = rng.random()
        if r < 0.35:
            sel = rng.sample(keys, rng.randint(0, len(keys)))
        elif r < 0.45:
            sel = keys[::-1]
        elif r < 0.5:
            sel = keys[:1] + ['nope']
        opts = dict(min_iter=rng.choice([0, 0, 2, 4]), max_iter=rng.choice([0, 1, 3, 10, 60]), tol=rng.choice([1e-10, 1e-4, 0.5, 2.0]),
                    offset=rng.choice([0, 0, -1, 1]), failures=rng.choice(['raise', 'ignore']))
        if sel is not None:
            opts['submodels'] = sel
        with warnings.catch_warnings():
            warnings.simplefilter('ignore')
            try:
                if rng.random() < 0.5:
                    linker.solve(**opts)
                else:
                    linker.solve_t(rng.randint(linker.lags, L - 1 - linker.leads) - rng.choice([0, L]), **opts)
                key = 'returned'
            except Exception as e:
                key = type(e).__name__
        outcomes[key] = outcomes.get(key, 0) + 1
    print(json.dumps({'runs': payload['runs'], 'outcomes': outcomes}))


if __name__ == '__main__':
    main()
