"""Worker: drive parser-built models through random option sets with the hooks on, so that
the recorded trace (FSIC_VERIF_TRACE) can be validated against SolverTrace.tla.

`python -m harness.drive_models <payload.json>`; payload: {"seed": int, "runs": int, "fault_bias": bool}
"""
from __future__ import annotations

import json
import random
import sys
import warnings

import numpy as np

import fsic

SCRIPTS = {
    # contractive systems
    'contractive1': ('Y = {a} * Y[-1] + {b} * X\nC = {c} * Y', dict(X=1.0)),
    'contractive2': ('C = {a} * YD + {b} * H[-1]\nYD = Y - T\nY = C + G\nT = {c} * Y\nH = H[-1] + YD - C', dict(G=20.0)),
    'lead': ('Y = {a} * Y[1] + X\nZ = {b} * Y + {c} * Z[-1]', dict(X=2.0)),
    # divergent / oscillating
    'divergent': ('Y = 2 * Y + 1', dict()),
    'oscillating': ('Y = 1 - Y', dict(Y=0.25)),
    'slow': ('Y = 0.999 * Y + 0.001', dict()),
    'blowup': ('Y = Y * Y + 2', dict(Y=3.0)),
    # natural faults
    'divzero': ('Y = X / Z\nW = {a} * W + Y', dict(X=1.0)),
    'zerozero': ('Y = (X - X) / Z', dict(X=1.0)),
    'logzero': ('Y = log(X) + {a} * Y', dict()),
    'overflow': ('Y = exp(X)\nV = {a} * V + 1', dict(X=1000.0)),
    'late_fault': ('Y = {a} * Y + 1\nV = 1 / (Y - 2)', dict()),
    'params': ('Y = {{alpha}} * Y[-1] + <e> + X', dict(alpha=0.5, e=0.125, X=1.0)),
}


def main():
    payload = json.load(open(sys.argv[1]))
    rng = random.Random(payload['seed'])
    n_runs = payload['runs']
    names = list(SCRIPTS)
    done = 0
    outcomes = {}
    classes = {}
    while done < n_runs:
        name = rng.choice(names if not payload.get('fault_bias') else
                          ['divzero', 'zerozero', 'logzero', 'overflow', 'late_fault', 'blowup', 'contractive1'])
        text, init = SCRIPTS[name]
        coef = dict(a=rng.choice([0.5, 0.25, 0.9, -0.5]), b=rng.choice([0.5, 0.125, 1.0]), c=rng.choice([0.2, 0.5, -0.25]))
        script = text.format(**coef)
        if script not in classes:
            classes[script] = fsic.build_model(fsic.parse_model(script))
        M = classes[script]
        L = rng.choice([3, 4, 6])
        span = rng.choice([range(2000, 2000 + L), [f'p{i}' for i in range(L)]])
        m = M(span, **init)
        if rng.random() < 0.3:  # pre-existing non-finite or odd values somewhere
            v = rng.choice(M.ENDOGENOUS)
            m[v][rng.randrange(L)] = rng.choice([np.nan, np.inf, -np.inf, 5.0])
        opts = dict(min_iter=rng.choice([0, 0, 1, 2, 3, 5]), max_iter=rng.choice([0, 1, 2, 3, 5, 8, 12, 40]),
                    tol=rng.choice([1e-10, 1e-3, 0.5, 0, 2.0]), offset=rng.choice([0, 0, 0, -1, 1, 2]),
                    failures=rng.choice(['raise', 'ignore']),
                    errors=rng.choice(['raise', 'raise', 'skip', 'ignore', 'replace', 'nonsense']),
                    catch_first_error=rng.choice([True, False]))
        entry = rng.choice(['solve', 'solve_t', 'solve_t', 'solve_period'])
        lo, hi = m.lags, L - 1 - m.leads
        with warnings.catch_warnings():
            warnings.simplefilter('ignore')
            try:
                if entry == 'solve':
                    r = m.solve(**opts)
                elif entry == 'solve_t':
                    t = rng.randint(lo, hi)
                    if rng.random() < 0.4:
                        t -= L
                    r = m.solve_t(t, **opts)
                else:
                    r = m.solve_period(list(span)[rng.randint(lo, hi)], **opts)
                key = 'returned'
            except Exception as e:  # outcomes are judged by the trace specification, not here
                key = type(e).__name__
        outcomes[key] = outcomes.get(key, 0) + 1
        done += 1
    print(json.dumps({'runs': done, 'outcomes': outcomes}))


if __name__ == '__main__':
    main()
