"""gfortran + ctypes stand-in for the F2PY module that fsic.fortran.FortranEngine expects as ENGINE.

F2PY/Meson are not usable in this sandbox; this shim compiles the text produced by
build_fortran_definition() with gfortran into a shared object and exposes evaluate / solve_t /
solve with the calling convention F2PY derives from the generated source (intent(in) arguments in
order, hidden dimensions, intent(out) results returned as a tuple).  F2PY's own marshalling is
therefore not exercised (stated limitation).
"""
from __future__ import annotations

import ctypes
import os
import subprocess
import tempfile
from typing import Sequence

import numpy as np

c_int_p = ctypes.POINTER(ctypes.c_int)
c_dbl_p = ctypes.POINTER(ctypes.c_double)


class CompileError(Exception):
    pass


class Engine:
    def __init__(self, lib_path: str):
        self._lib = ctypes.CDLL(lib_path)
        self._path = lib_path

    @staticmethod
    def _f(a):
        return np.asfortranarray(np.array(a, dtype=np.float64))

    @staticmethod
    def _i(x):
        return ctypes.byref(ctypes.c_int(int(x)))

    def evaluate(self, initial_values, t):
        v = self._f(initial_values)
        nrows, ncols = v.shape
        out = np.zeros((nrows, ncols), dtype=np.float64, order='F')
        err = ctypes.c_int(-99)
        self._lib.evaluate_(v.ctypes.data_as(c_dbl_p), self._i(t), out.ctypes.data_as(c_dbl_p), ctypes.byref(err),
                            self._i(nrows), self._i(ncols))
        return out, err.value

    def solve_t(self, initial_values, t, min_iter, max_iter, tol, offset, convergence_variables, error_control):
        v = self._f(initial_values)
        nrows, ncols = v.shape
        cvars = np.array(list(convergence_variables), dtype=np.int32)
        out = np.zeros((nrows, ncols), dtype=np.float64, order='F')
        conv, it, err = ctypes.c_int(0), ctypes.c_int(-99), ctypes.c_int(-99)
        self._lib.solve_t_(v.ctypes.data_as(c_dbl_p), self._i(t), self._i(min_iter), self._i(max_iter),
                           ctypes.byref(ctypes.c_double(float(tol))), self._i(offset), cvars.ctypes.data_as(c_int_p),
                           self._i(error_control), out.ctypes.data_as(c_dbl_p), ctypes.byref(conv), ctypes.byref(it),
                           ctypes.byref(err), self._i(nrows), self._i(ncols), self._i(len(cvars)))
        return out, bool(conv.value), it.value, err.value

    def solve(self, initial_values, indexes, min_iter, max_iter, tol, offset, convergence_variables, failure_control, error_control):
        v = self._f(initial_values)
        nrows, ncols = v.shape
        idx = np.array(list(indexes), dtype=np.int32)
        cvars = np.array(list(convergence_variables), dtype=np.int32)
        n = len(idx)
        out = np.zeros((nrows, ncols), dtype=np.float64, order='F')
        conv = np.zeros(max(n, 1), dtype=np.int32)
        its = np.zeros(max(n, 1), dtype=np.int32)
        errs = np.zeros(max(n, 1), dtype=np.int32)
        self._lib.solve_(v.ctypes.data_as(c_dbl_p), idx.ctypes.data_as(c_int_p), self._i(min_iter), self._i(max_iter),
                         ctypes.byref(ctypes.c_double(float(tol))), self._i(offset), cvars.ctypes.data_as(c_int_p),
                         self._i(failure_control), self._i(error_control), out.ctypes.data_as(c_dbl_p),
                         conv.ctypes.data_as(c_int_p), its.ctypes.data_as(c_int_p), errs.ctypes.data_as(c_int_p),
                         self._i(nrows), self._i(ncols), self._i(len(cvars)), self._i(n))
        return out, [bool(x) for x in conv[:n]], [int(x) for x in its[:n]], [int(x) for x in errs[:n]]


def compile_fortran(source: str, workdir: str, tag: str, extra_flags: Sequence[str] = ()) -> Engine:
    """Compile in `workdir` (gfortran drops .mod files there thanks to -J)."""
    d = tempfile.mkdtemp(prefix=f'f-{tag}-', dir=workdir)
    src = os.path.join(d, 'model.f95')
    lib = os.path.join(d, 'model.so')
    with open(src, 'w') as f:
        f.write(source)
    p = subprocess.run(['gfortran', '-shared', '-fPIC', '-O0', '-J', d, *extra_flags, '-o', lib, src], capture_output=True, text=True, cwd=d)
    if p.returncode != 0:
        raise CompileError(p.stderr[-3000:])
    return Engine(lib)
