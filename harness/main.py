"""Entry point: ./check <Cxx> [--tier quick|thorough] [--replay <file>]"""
from __future__ import annotations

import argparse
import importlib
import json
import os
import sys

from . import core


def main() -> int:
    ap = argparse.ArgumentParser()
    ap.add_argument('prop')
    ap.add_argument('--tier', default=os.environ.get('VERIF_TIER', 'quick'), choices=['quick', 'thorough'])
    ap.add_argument('--replay', default=None)
    a = ap.parse_args()
    seed = int(os.environ.get('VERIF_SEED', '0') or 0)
    mod = importlib.import_module(f'harness.props.{a.prop.lower()}')
    if a.replay:
        data = json.load(open(a.replay))
        return mod.replay(data)
    ctx = core.Ctx(prop=a.prop.upper(), tier=a.tier, seed=seed)
    mod.run(ctx)
    rc = ctx.finish()
    print(f'{ctx.prop} {a.tier}: evaluations={ctx.evaluations} states={ctx.states} traces={ctx.traces_validated} '
          f'violations={len(ctx.violations)} known={sum(ctx.known_seen.values())} wall={round(__import__("time").time() - ctx.t0, 1)}s')
    return rc


if __name__ == '__main__':
    core.main_wrapper(main)
