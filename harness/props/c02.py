"""C02 - per-period solve: status, iteration count, result flag and convergence agree."""
from __future__ import annotations

from .. import core
from . import solver_common as sc


def run(ctx: core.Ctx) -> None:
    quick = ctx.tier == 'quick'
    ctx.level = 'model_checking'
    ctx.rule = ('Behaviours = (option set, initial cells, hook outcomes, sequence of per-pass statement outcomes) enumerated by TLC '
                'from Solver.tla slices core/guard/vec/hook (exhaustive) and long (-simulate); each terminal behaviour is replayed '
                'through solve_t / solve_period / solve on a scripted model and every observable compared with the spec state. '
                'Non-trivial = at least one evaluation pass. Traces = solve_t episodes recorded by the hooks from the repo test-suite '
                'and from random parser-built systems, validated by SolverTrace.tla with all invariants on.')
    core.sany('SolverMC')
    core.sany('SolverTrace')
    maxi = 2 if quick else 3
    inv = sc.ALL_INV
    recs = []
    for name, m in (('core', maxi), ('guard', 1), ('vec', 2 if quick else 3), ('hook', 2), ('empty', 2)):
        r = sc.check_and_emit(ctx, name, m, inv)
        sc.replay(ctx, r, all_variants=(name in ('hook', 'empty') or not quick), what=name,
                  variants=sc.VARIANTS + [sc.TINY, sc.SIGNED, sc.HISTORY, sc.HISTORY2, sc.WNAN] + ([sc.HUGE] if name == 'vec' else []))
        recs.append(len(r))
    sim = sc.simulate_and_emit(ctx, 'long', 6 if quick else 12, inv, num=2000 if quick else 60000)
    sc.replay(ctx, sim, all_variants=False, what='long-sim')
    ctx.exhaustive = False
    ctx.extra['exhaustive_slices'] = {'core': f'MaxI={maxi}', 'guard': 'MaxI=1', 'vec': 'MaxI=2/3', 'hook': 'MaxI=2'}
    # liveness: every call terminates (no state constraint)
    live = core.run_tlc('SolverMC', sc.slice_cfg('core', 1 if quick else 2, [], emit=False, spec='FairSpec', properties=['Termination']).format(shard=0, nshards=1),
                        tag='C02-live')
    core.require_ok(live, 'Termination under weak fairness')
    ctx.add_tlc(live, 'Solver core FairSpec => <>Done', constants=f'MaxI={1 if quick else 2}')
    # unbounded min_iter / max_iter: the loop skeleton's inductive invariant (SolverInd.tla, Apalache)
    for what, args in (('Init => IndInv', ['--cinit=ConstInit', '--init=Init', '--inv=IndInv', '--length=0']),
                       ('IndInv /\\ Next => IndInv\'', ['--cinit=ConstInit', '--init=IndInv', '--inv=IndInv', '--length=1']),
                       ('IndInv => C02 claims', ['--cinit=ConstInit', '--init=IndInv', '--inv=Claims', '--length=0'])):
        r = core.run_apalache('SolverInd', args, tag='C02')
        if r['outcome'] != 'NoError':
            raise core.MachineryError(f'SolverInd.tla: {what} not established by Apalache: {r["outcome"]}\n{r["tail"]}')
        ctx.tlc_runs.append({'what': f'Apalache SolverInd.tla: {what} (every min_iter, max_iter >= 0)', 'mode': 'apalache inductive', 'wall_s': r['wall'],
                             'constants': 'MinIter, MaxIter unconstrained naturals'})
    # code -> spec
    suite = sc.record_suite(ctx, ['tests/test_core.py', '-k', 'Solve or solve or Convergence'] if quick
                            else ['tests/test_core.py', 'tests/test_extensions.py'], 'suite')
    sc.validate_files(ctx, [suite], 'suite')
    files = sc.record_driver(ctx, 'harness.drive_models',
                             [{'seed': ctx.seed * 100 + i, 'runs': 120 if quick else 1500} for i in range(core.NCPU)], 'models')
    sc.validate_files(ctx, files, 'models')
    ctx.assumptions += ['scripted _evaluate realises each abstract statement outcome exactly (exactly representable floats)',
                        'float->integer abstraction of recorded check vectors (harness/trace_solver.py) preserves |d|<tol',
                        'TLC explores the stated slices completely; -simulate samples beyond them']


def replay(data) -> int:
    return sc_replay(data)


def sc_replay(data) -> int:
    import json
    import subprocess
    if data.get('direction') == 'spec->code':
        payload = {'records': [data['record']], 'variants': [data['variant']], 'all_variants': True, 'seed': 0}
        out = core.run_workers('harness.replay_solver', [payload])[0]
        if out['mismatches']:
            print(json.dumps(out['mismatches'][0]['diffs']))
            print(f"VIOLATION property={data['property']} replay=<given file>")
            return 1
        print('replay: behaviour now agrees with the specification')
        return 0
    from .. import trace_solver as ts
    acc, rej, stats, tot = ts.validate_episodes([data['raw_episode']], tag='replay')
    if rej:
        print(f"VIOLATION property={data['property']} replay=<given file> (recorded episode is not a behaviour of Solver.tla)")
        return 1
    print('replay: recorded episode accepted')
    return 0
