"""C05 - solve() equals the ordered sequence of single-period solves; failures contained."""
from __future__ import annotations

import json

from .. import core

INV = ['TypeOK', 'C05_Visits', 'C05_Triple', 'C05_Contain', 'C05_Early', 'C05_SkipMovesOn']
ACTIONS = ['CheckMinMax', 'CheckLabels', 'IterPeriods', 'DoVisit', 'Return']

CFG = '''INIT MCInit
NEXT Next
CONSTANTS
  Cfgs = {{{{}}}}
  Shard = {{shard}}
  NShards = {{nshards}}
  MaxL = {maxl}
  MaxFaults = {maxf}
{inv}
INVARIANT EmitInv
CHECK_DEADLOCK FALSE
'''


def run(ctx: core.Ctx) -> None:
    quick = ctx.tier == 'quick'
    ctx.level = 'model_checking'
    maxl, maxf = (3, 1) if quick else (5, 2)
    ctx.rule = ('Behaviours of MultiSolve.tla: span length 0..MaxL x lags/leads 0..1 x every (start, end) label pair incl. None, absent and '
                'ambiguous labels x min/max_iter cases x errors x failures x a fault kind (NaN, divergence, exception) at every period position '
                '(<= MaxFaults faulty periods); exhaustive. Each behaviour is replayed through solve() on a scripted model over nine span types, '
                'compared with the spec (visited periods, triple, per-period status/iterations, exception) and with a twin driven by the explicit '
                'loop of solve_t; solve_period(label) is compared with solve_t(position) for every position. Non-trivial = at least one period visited.')
    core.sany('MultiSolveMC')
    tmpl = CFG.format(maxl=maxl, maxf=maxf, inv='\n'.join(f'INVARIANT {i}' for i in INV))
    results = core.run_sharded('MultiSolveMC', tmpl, core.NCPU, tag='C05-ms', extra=['-coverage', '1'])
    recs = []
    cov = {}
    for r in results:
        core.require_ok(r, 'MultiSolve exhaustive')
        recs += r.records
        for a, (d, t) in r.coverage.items():
            c = cov.setdefault(a, [0, 0]); c[0] += d; c[1] += t
    agg = core.TLCResult(rc=0, generated=sum(r.generated for r in results), distinct=sum(r.distinct for r in results),
                         depth=max(r.depth for r in results), coverage={a: cov.get(a, [0, 0]) for a in ACTIONS}, wall=max(r.wall for r in results))
    ctx.add_tlc(agg, 'MultiSolve exhaustive (16 shards)', constants=f'MaxL={maxl} MaxFaults={maxf}')
    core.require_coverage(agg, ACTIONS, 'MultiSolve')
    ctx.exhaustive = True
    payloads = [{'records': ch, 'all_kinds': not quick, 'seed': ctx.seed} for ch in core.chunks(recs, core.NCPU * 2)]
    if not quick:  # thorough: all span kinds on a sixteenth of the records, one kind (rotating) on the rest
        payloads = [{'records': ch, 'all_kinds': (i % 16 == 0), 'seed': ctx.seed + i} for i, ch in enumerate(core.chunks(recs, core.NCPU * 6))]
    outs = core.run_workers('harness.replay_multisolve', payloads)
    ctx.evaluations += sum(o['n'] for o in outs)
    ctx.nontrivial += sum(o['nontrivial'] for o in outs)
    ctx.extra['replayed'] = {'behaviours': len(recs), 'executions': sum(o['n'] for o in outs),
                             'label_class_not_expressible_on_span_type': sum(o['skipped'] for o in outs)}
    for o in outs:
        for mm in o['mismatches']:
            ctx.mismatch(mm['key'], {'module': 'MultiSolve', 'direction': 'spec->code', **mm})
    for rec in recs[:: max(1, len(recs) // 3)][:3]:
        ctx.sample(rec)
    # code -> spec: solve() calls of the repository's tests and of random parser-built models, validated by MultiSolveTrace.tla
    from . import solver_common as sc
    from .. import trace_multisolve as tm, trace_solver as ts
    core.sany('MultiSolveTrace')
    files = [sc.record_suite(ctx, ['tests/test_core.py', 'tests/test_extensions.py', '-k', 'olve'], 'suite')]
    files += sc.record_driver(ctx, 'harness.drive_models', [{'seed': 500 + ctx.seed * 100 + i, 'runs': 60 if quick else 800} for i in range(core.NCPU)], 'models')
    episodes = []
    for f in files:
        episodes += tm.split_episodes(ts.read_events(f))
    if not episodes:
        raise core.MachineryError('no solve() episodes recorded')
    acc, rej, stats, tot = tm.validate(episodes, 'C05-trace')
    ctx.traces_validated += acc
    ctx.states += tot['states']
    ctx.transitions += tot['generated']
    ctx.extra['traces'] = {'episodes': len(episodes), 'accepted': acc, 'rejected': len(rej), 'stats': stats}
    for r in rej:
        ex = r['abstract'][-1]
        ctx.mismatch(f"solve-trace-rejected exit={ex.get('kind')} violated={r['result'].get('violated')}",
                     {'module': 'MultiSolveTrace', 'direction': 'code->spec', 'result': r['result'], 'abstract_episode': r['abstract'], 'raw_episode': r['raw'][:40]})
    ctx.sample({'solve_trace_episode': [e for e in episodes[len(episodes) // 2][:6]]})
    ctx.assumptions += ['per-period outcomes are the terminal summaries of Solver.tla (checked separately under C02/C06)',
                        'spans carry distinct labels; spans shorter than LAGS+LEADS+1 are outside the quantifier']


def replay(data) -> int:
    out = core.run_workers('harness.replay_multisolve', [{'records': [data['record']], 'kinds': [data['span_kind']], 'all_kinds': True}])[0]
    if out['mismatches']:
        print(json.dumps(out['mismatches'][0]['diffs']))
        print(f"VIOLATION property={data['property']} replay=<given file>")
        return 1
    print('replay: behaviour now agrees with the specification')
    return 0
