"""C06 - numerical-error and failure policies follow the documented state machine."""
from __future__ import annotations

from .. import core
from . import solver_common as sc
from .c02 import sc_replay


def run(ctx: core.Ctx) -> None:
    quick = ctx.tier == 'quick'
    ctx.level = 'model_checking'
    ctx.rule = ('Fault sequences = placements of NaN/+inf/-inf (silent), warning-raising operations and Python exceptions at every '
                '(statement, pass) up to the bound, crossed with errors x failures x catch_first_error x min/max_iter x hook faults x '
                'pre-existing non-finite cells; enumerated by TLC (Solver.tla slices core, vec, hook; long by simulation), each replayed '
                'on the real solver. Non-trivial = at least one pass. Traces: parser-built models that fault naturally (x/0, 0/0, log 0, '
                'overflow) and the suite\'s error-handling tests, validated against SolverTrace.tla.')
    core.sany('SolverMC')
    maxi = 2 if quick else 3
    inv = sc.ALL_INV
    for name, m in (('core', maxi), ('vec', 2 if quick else 3), ('hook', 2)):
        r = sc.check_and_emit(ctx, name, m, inv)
        faulty = [x for x in r if any(s['kind'] != 'set' or s['v'] >= 100 for o in x['hist'] for s in o)
                  or any(v >= 100 for v in x['cfg']['c0']) or x['fin']['hb'] == 'exc' or x['fin']['ha'] == 'exc'
                  or x['cfg']['errors'] == 'bogus' or any(v >= 100 for v in (x['fin'].get('wb') or []))]
        ctx.extra.setdefault('fault_behaviours', {})[name] = len(faulty)
        sc.replay(ctx, faulty, all_variants=not quick, what=name, variants=sc.VARIANTS + [sc.TINY, sc.SIGNED, sc.HISTORY, sc.HISTORY2, sc.WNAN, sc.USERWARN] + ([sc.HUGE] if name == 'vec' else []))
    sim = sc.simulate_and_emit(ctx, 'long', 6 if quick else 12, inv, num=2000 if quick else 60000)
    sc.replay(ctx, sim, all_variants=False, what='long-sim')
    ctx.exhaustive = False
    suite = sc.record_suite(ctx, ['tests/test_core.py', '-k', 'ErrorHandling or NonConvergence or CustomModel or CustomOverrides'], 'suite')
    sc.validate_files(ctx, [suite], 'suite')
    files = sc.record_driver(ctx, 'harness.drive_models',
                             [{'seed': 7000 + ctx.seed * 100 + i, 'runs': 120 if quick else 1500, 'fault_bias': True} for i in range(core.NCPU)], 'faulting-models')
    sc.validate_files(ctx, files, 'faulting-models')
    ctx.assumptions += ['warning-raising operations are realised as NumPy float64 division by zero / inf-inf / log 0 / exp overflow',
                        'an invalid errors= value is modelled as the code treats it (ValueError only when a fresh fault is met)']


def replay(data) -> int:
    return sc_replay(data)
