"""C07 - the Fortran back-end computes what the Python back-end computes."""
from __future__ import annotations

import json
import random

from .. import core
from . import script_common as sc


def run(ctx: core.Ctx) -> None:
    quick = ctx.tier == 'quick'
    ctx.level = 'translation_validation'
    ctx.rule = ('Programs = Script.tla programs of the expression subset common to both back-ends (layer fortran_small exhaustively enumerated, a '
                'seeded sample of it compiled; larger programs from -simulate; three synthetic long programs with 12/25/40 variables for '
                'continuation lines). Each is translated by build_fortran_definition, compiled with gfortran, loaded through a ctypes stand-in '
                'for the F2PY module and compared with the pure-Python class on evaluate (every feasible period, both spellings; also against '
                'the reference interpretation of the spec tree), solve_t (every period incl. infeasible ones x random option sets incl. '
                'offsets in/out of span) and solve (default and explicit ranges), on finite data. Non-trivial = compiled and compared.')
    core.sany('ScriptMC')
    recs = sc.emit_layer(ctx, 'fortran_small' if quick else 'fortran')
    rng = random.Random(ctx.seed)
    accepted = [r for r in recs if r['reject'] == 'none']
    rng.shuffle(accepted)
    budget = 320 if quick else 6000
    chosen = accepted[:budget]
    chosen += [r for r in sc.emit_layer(ctx, 'fortran_pow') if r['reject'] == 'none']
    pow3 = [r for r in sc.emit_layer(ctx, 'fortran_pow3')
            if r['reject'] == 'none' and {'**', '/'} <= {tk['s'] for tk in r['stmts'][0]['rhs'] if tk['t'] == 'bin'}]
    rng.shuffle(pow3)
    chosen += pow3[: (400 if quick else 2000)]
    negpow = [r for r in sc.emit_layer(ctx, 'fortran_negpow')
              if r['reject'] == 'none' and any(tk['t'] == 'neg' for tk in r['stmts'][0]['rhs']) and any(tk['s'] == '**' for tk in r['stmts'][0]['rhs'])]
    rng.shuffle(negpow)
    chosen += negpow[: (400 if quick else 2000)]
    sim = [r for r in sc.simulate_layer(ctx, 'fortran_sim', 400 if quick else 6000) if r['reject'] == 'none']
    chosen += sim[: (80 if quick else 1500)]
    progs = sc.compose_long([r for r in accepted[:400]], ctx.seed, 40 if quick else 600)
    long_ = [r for r in sc.judge_programs(ctx, progs, 'long') if r['reject'] == 'none']
    chosen += long_
    workdir = str(core.subdir('fortran'))
    payloads = [{'records': ch, 'workdir': workdir, 'seed': ctx.seed, 'base': i * 100000, 'namemap': 'plain', 'option_sets': 4 if quick else 8}
                for i, ch in enumerate(core.chunks(chosen, core.NCPU * 2))]
    outs = core.run_workers('harness.replay_fortran', payloads)
    long_payload = {'records': '__LONG__', 'workdir': workdir, 'seed': ctx.seed, 'base': 9000000, 'namemap': 'vnames', 'option_sets': 4}
    outs += core.run_workers('harness.replay_fortran_long', [long_payload])
    ctx.evaluations += sum(o['n'] for o in outs)
    ctx.nontrivial += sum(o['nontrivial'] for o in outs)
    ctx.extra['programs'] = sum(o['distinct'] for o in outs)
    ctx.extra['compiled'] = sum(o['compiled'] for o in outs)
    ctx.extra['enumerated_programs'] = len(recs)
    for o in outs:
        for mm in o['mismatches']:
            ctx.mismatch(mm['key'], {'module': 'Script', 'direction': 'spec->code', **mm})
    ctx.extra['disagreements_checked'] = sum(ctx._violation_keys.values()) + sum(ctx.known_seen.values())
    for rec in chosen[:2]:
        ctx.sample({'stmts': rec['stmts']})
    ctx.exhaustive = False
    ctx.assumptions += ['F2PY is replaced by a ctypes shim with the same calling convention; F2PY\'s own marshalling is not exercised',
                        'exp/log results are compared to 1e-12 relative; the property allows floating-point rounding',
                        'only data for which values stay finite are compared (as the property states)']


def replay(data) -> int:
    payload = {'records': [data['record']], 'workdir': str(core.subdir('fortran')), 'seed': 0, 'base': 0,
               'namemap': 'vnames' if data['record'].get('synthetic') else 'plain', 'option_sets': 6}
    out = core.run_workers('harness.replay_fortran', [payload])[0]
    if out['mismatches']:
        print(json.dumps(out['mismatches'][0]['key']))
        print(f"VIOLATION property={data['property']} replay=<given file>")
        return 1
    print('replay: engines now agree')
    return 0
