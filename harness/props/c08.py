"""C08 - linker solves its submodels jointly and consistently."""
from __future__ import annotations

import json

from .. import core

INV = ['TypeOK', 'C08_Order', 'C08_Conv', 'C08_Fail', 'C08_Stamp', 'C08_Unselected', 'C08_Unknown', 'C08_Spans', 'C08_Offset']
ACTIONS = ['Construct', 'GuardOffset', 'Validate', 'Seed', 'Before', 'LoopHead', 'DoIterate', 'Judge', 'Stamp', 'Return']

CFG = '''INIT {init}
NEXT Next
CONSTANTS
  Vals = {{{{0, 1, 2}}}}
  LinkVals = {{{{0, 1}}}}
  Shard = {{shard}}
  NShards = {{nshards}}
  MaxN = {maxn}
  MaxI = {maxi}
{inv}
INVARIANT EmitInv
CHECK_DEADLOCK FALSE
'''

VARIANTS = [
    {'entry': 'solve_t', 'scale': 1.0, 'default_none': True},
    {'entry': 'solve_t', 'scale': 0.25, 'default_none': False},
    {'entry': 'solve', 'scale': 1.0, 'default_none': False},
    {'entry': 'solve', 'scale': 0.25, 'default_none': True},
]
# construction / offsets are additionally exercised over span types (the linker compares its submodels' spans)
SPAN_VARIANTS = [dict(v, span=k) for v, k in zip(VARIANTS, ('list', 'nparray', 'pdindex', 'pdperiod'))]


def run_slice(ctx, init, maxn, maxi, tag):
    tmpl = CFG.format(init=init, maxn=maxn, maxi=maxi, inv='\n'.join(f'INVARIANT {i}' for i in INV))
    results = core.run_sharded('LinkerMC', tmpl, core.NCPU, tag=f'C08-{tag}', extra=['-coverage', '1'])
    recs, cov = [], {}
    for r in results:
        core.require_ok(r, f'Linker slice {tag}')
        recs += r.records
        for a, (d, t) in r.coverage.items():
            c = cov.setdefault(a, [0, 0]); c[0] += d; c[1] += t
    agg = core.TLCResult(rc=0, generated=sum(r.generated for r in results), distinct=sum(r.distinct for r in results),
                         depth=max(r.depth for r in results), coverage={a: cov.get(a, [0, 0]) for a in ACTIONS}, wall=max(r.wall for r in results))
    ctx.add_tlc(agg, f'Linker slice {tag} exhaustive (16 shards)', constants=f'MaxN={maxn} MaxI={maxi} Vals={{0,1,2}}')
    if tag.startswith('core'):
        core.require_coverage(agg, ACTIONS, f'Linker slice {tag}')
    return recs


def run(ctx: core.Ctx) -> None:
    quick = ctx.tier == 'quick'
    ctx.level = 'model_checking'
    ctx.rule = ('Behaviours of Linker.tla: 0..MaxN scripted submodels x every ordered selection (incl. unknown ids, default) x min/max_iter/tol/failures '
                'x linker-owned variable x every sequence of per-iteration outcomes over {0,1,2} (slice core); construction with differing '
                'lags/leads/spans and offsets x period spellings (slice build); offsets with partial selections (slice offset). Each behaviour is '
                'replayed on a real BaseLinker (solve_t and solve, two value scalings that separate |d|<tol from d*d<tol) and, for single-submodel '
                'linkers, against the bare model solved directly. Non-trivial = at least one iteration.')
    core.sany('LinkerMC')
    # thorough: three submodels x two iterations and two submodels x three iterations (three x three emits several million
    # behaviours: more than the harness can hold)
    maxn = 2 if quick else 3
    slices = [('CoreInit', 'core', 2, 2)] if quick else [('CoreInit', 'core', 3, 2), ('CoreInit', 'core-deep', 2, 3)]
    slices += [('BuildInit', 'build', 3 if not quick else 2, 1), ('OffsetInit', 'offset', maxn, 2)]
    for init, tag, mn, mi in slices:
        recs = run_slice(ctx, init, mn, mi, tag)
        payloads = [{'records': ch, 'variants': VARIANTS + (SPAN_VARIANTS if tag == 'build' else []),
                     'all_variants': (not tag.startswith('core') or tag == 'core-deep'), 'seed': ctx.seed}
                    for ch in core.chunks(recs, core.NCPU * 2)]
        outs = core.run_workers('harness.replay_linker', payloads)
        ctx.evaluations += sum(o['n'] for o in outs)
        ctx.nontrivial += sum(o['nontrivial'] for o in outs)
        ctx.extra.setdefault('replayed', {})[tag] = {'behaviours': len(recs), 'executions': sum(o['n'] for o in outs)}
        for o in outs:
            for mm in o['mismatches']:
                ctx.mismatch(mm['key'], {'module': 'Linker', 'direction': 'spec->code', **mm})
        for rec in recs[:: max(1, len(recs) // 2)][:2]:
            ctx.sample(rec)
    ctx.exhaustive = True
    # code -> spec: the repository's linker tests and random real linkers, validated by LinkerTrace.tla
    from . import solver_common as sc
    from .. import trace_linker as tl, trace_solver as ts
    core.sany('LinkerTrace')
    suite = sc.record_suite(ctx, ['tests/test_core.py', '-k', 'Linker'], 'linker-suite')
    files = [suite] + sc.record_driver(ctx, 'harness.drive_linkers', [{'seed': ctx.seed * 100 + i, 'runs': 40 if quick else 600} for i in range(core.NCPU)], 'linkers')
    episodes = []
    for f in files:
        eps, _ = tl.split_episodes(ts.read_events(f))
        episodes += eps
    if not episodes:
        raise core.MachineryError('no linker episodes recorded')
    acc, rej, stats, tot = tl.validate(episodes, 'C08-trace')
    ctx.traces_validated += acc
    ctx.states += tot['states']
    ctx.transitions += tot['generated']
    ctx.extra['traces'] = {'episodes': len(episodes), 'accepted': acc, 'rejected': len(rej), 'stats': stats, 'events': sum(len(e) for e in episodes)}
    for r in rej:
        en, ex = r['raw'][0], r['abstract'][-1]
        ctx.mismatch(f"linker-trace-rejected exit={ex.get('kind')}/{ex.get('st')} {'offset ' if en.get('offset') else ''}{'max_iter=0 ' if en.get('max') == 0 else ''}violated={r['result'].get('violated')}",
                     {'module': 'LinkerTrace', 'direction': 'code->spec', 'result': r['result'], 'abstract_episode': r['abstract'], 'raw_episode': r['raw']})
    ctx.sample({'linker_trace_episode': episodes[len(episodes) // 2][:8]})
    ctx.assumptions += ['finite data only (the property is silent on non-finite values in linkers)',
                        'submodel passes are scripted; cross-links are realised by the linker post-hook writing the linker variable']


def replay(data) -> int:
    out = core.run_workers('harness.replay_linker', [{'records': [data['record']], 'variants': [data['variant']], 'all_variants': True}])[0]
    if out['mismatches']:
        print(json.dumps(out['mismatches'][0]['diffs']))
        print(f"VIOLATION property={data['property']} replay=<given file>")
        return 1
    print('replay: behaviour now agrees with the specification')
    return 0
