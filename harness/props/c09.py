"""C09 - container series keep their length and dtype under every assignment history.

Decided on spec/Container.tla: TLC checks the declarative layer (C09_Shape, C09_Atomic, C09_Strict; the C11 frame
invariants ride along) on every history of the slices K-ops, K-hist and on -simulate histories; each shard's
worker replays every emitted history on the real VectorContainer / parser-built BaseModel / BaseLinker and compares
the projection of all objects after every operation with the state TLC emitted (harness/replay_container.py).

This module also holds the driver shared with C11 (harness/props/c11.py).
"""
from __future__ import annotations

import json
from typing import Any, Dict, List, Optional, Sequence

from .. import core

INVARIANTS = ['TypeOK', 'C09_Shape', 'C09_Atomic', 'C09_Strict', 'C11_Frame', 'C11_ClassFixed']
C09_OPS = ['AddVariable', 'SetAttr', 'SetItem', 'SetLabel', 'SetSlice', 'SetPos', 'ReplaceValues', 'SetValues', 'AddAttribute', 'ToggleStrict']
C11_OPS = C09_OPS + ['Copy', 'NewSibling', 'MutateList', 'SetLagsLeads', 'Solve']
WORKER = 'harness.replay_container'


def cfg_text(*, slice_: str, kinds: Sequence[str], budget: int, maxobjs: int, shardat: int, extras: bool, span: int = 3,
             shard: int = 0, nshards: int = 1, action_property: bool = True) -> str:
    ks = '{' + ', '.join(f'"{k}"' for k in kinds) + '}'
    lines = ['SPECIFICATION MCSpec', 'CONSTANTS', '  Inits <- MCInits', '  Alphabet <- MCAlphabet', f'  Budget = {budget}',
             f'  MaxObjs = {maxobjs}', f'  Slice = "{slice_}"', f'  Kinds = {ks}', f'  SpanL = {span}', f'  Shard = {shard}',
             f'  NShards = {nshards}', f'  ShardAt = {shardat}', f'  Extras = {"TRUE" if extras else "FALSE"}']
    lines += [f'INVARIANT {i}' for i in INVARIANTS]
    lines.append('INVARIANT EmitInv')
    if action_property:
        lines.append('PROPERTY C11_Indep')
    lines.append('CHECK_DEADLOCK FALSE')
    return '\n'.join(lines) + '\n'


def run_slice(ctx: core.Ctx, what: str, *, slice_: str, kinds: Sequence[str], budget: int, maxobjs: int, shardat: int, extras: bool,
              expect_ops: Sequence[str], span: int = 3, variants: Sequence[str] = ('plain',), all_variants: bool = False,
              identity: bool = False, nshards: int = core.NCPU, simulate: Optional[int] = None, timeout: int = 3000) -> Dict[str, Any]:
    """One slice = `nshards` workers; each runs its own single-worker TLC shard (all invariants on) and replays every
    emitted history on the real code while TLC is still running.  Returns the aggregated worker statistics."""
    payloads = []
    for i in range(nshards):
        p: Dict[str, Any] = {'mode': 'tlc', 'module': 'ContainerMC', 'tag': f'{ctx.prop}-{what}-s{i}', 'variants': list(variants),
                             'all_variants': all_variants, 'identity': identity, 'seed': ctx.seed + i, 'timeout': timeout}
        if simulate is None:
            p['cfg'] = cfg_text(slice_=slice_, kinds=kinds, budget=budget, maxobjs=maxobjs, shardat=shardat, extras=extras, span=span,
                                shard=i, nshards=nshards)
        else:
            p['cfg'] = cfg_text(slice_=slice_, kinds=kinds, budget=budget, maxobjs=maxobjs, shardat=0, extras=extras, span=span)
            p['simulate'] = f'num={max(1, simulate // nshards)}'
            p['depth'] = budget + 1
            p['tlc_seed'] = ctx.seed * 1000 + i + 1
        payloads.append(p)
    outs = core.run_workers(WORKER, payloads, timeout=timeout + 600)
    agg: Dict[str, Any] = {'n': 0, 'steps': 0, 'nontrivial': 0, 'distinct': 0, 'diverged': 0, 'ops': {}, 'outs': {}, 'keys': {},
                           'by_kind': {}, 'by_variant': {}, 'per_shard': []}
    gen = dist = depth = 0
    wall = 0.0
    for o in outs:
        for f in ('n', 'steps', 'nontrivial', 'distinct', 'diverged'):
            agg[f] += o[f]
        for f in ('ops', 'outs', 'keys', 'by_kind', 'by_variant'):
            for k, v in o[f].items():
                agg[f][k] = agg[f].get(k, 0) + v
        agg['per_shard'].append(o['distinct'])
        t = o['tlc'] or {}
        gen += t.get('generated', 0)
        dist += t.get('distinct', 0)
        depth = max(depth, t.get('depth', 0))
        wall = max(wall, t.get('wall', 0.0))
    if simulate is not None:
        gen = dist = agg['steps']          # -simulate prints no state counts: one state per executed operation
        depth = budget
    cov = {op: [agg['ops'].get(op, 0), agg['ops'].get(op, 0)] for op in expect_ops}
    res = core.TLCResult(rc=0, generated=gen, distinct=dist, depth=depth, coverage=cov, wall=wall)
    mode = f'-simulate num={simulate} depth={budget}' if simulate is not None else f'exhaustive ({nshards} shards)'
    ctx.add_tlc(res, f'Container slice {what} {mode}; coverage = operations taken in emitted histories',
                constants=f'Slice={slice_} Kinds={list(kinds)} Budget={budget} SpanL={span} MaxObjs={maxobjs} Extras={extras}')
    if agg['distinct'] == 0:
        raise core.MachineryError(f'no histories emitted for {what}')
    core.require_coverage(res, expect_ops, f'Container slice {what}')
    ctx.evaluations += agg['n']
    ctx.nontrivial += agg['nontrivial']
    ctx.extra.setdefault('replayed', {})[what] = {k: agg[k] for k in ('n', 'steps', 'nontrivial', 'distinct', 'diverged', 'outs', 'by_kind', 'by_variant')}
    ctx.extra.setdefault('finding_counts', {})
    for k, v in agg['keys'].items():
        ctx.extra['finding_counts'][k] = ctx.extra['finding_counts'].get(k, 0) + v
    for o in outs:
        for mm in o['mismatches']:
            ctx.mismatch(mm['key'], {'module': 'Container', 'direction': 'spec->code', 'slice': what, 'record': mm['record'], 'variant': mm['variant'],
                                     'step': mm['step'], 'detail': mm['detail'], 'identity': identity,
                                     'replay_cmd': f'./check {ctx.prop} --replay <this file>'})
    return agg


def sample_histories(ctx: core.Ctx, *, slice_: str, kinds: Sequence[str], budget: int, extras: bool, maxobjs: int = 3) -> None:
    """A few actual histories for the evidence file (one small shard, records kept)."""
    res = core.run_tlc('ContainerMC', cfg_text(slice_=slice_, kinds=kinds, budget=budget, maxobjs=maxobjs, shardat=0, extras=extras, shard=5, nshards=97),
                       workers=1, tag=f'{ctx.prop}-sample', heap='1g')
    core.require_ok(res, 'sample histories')
    for rec in res.records[:: max(1, len(res.records) // 3)][:3]:
        ctx.sample({'history': [{'op': {k: v for k, v in s['op'].items() if v not in ('', 0, [], None) and k not in ('raw', 'raws')},
                                 'expected_outcome': s['out']} for s in rec['steps']]})


ASSUMPTIONS = [
    'operands are rendered from the raw value codes TLC emitted (finite small integers, Half = 2.5, two-character strings); '
    'NaN/inf are not assigned',
    'labels are positions + 100 on a range span (label access proper is C10)',
    'Solve is opaque: the cells TLC marks with a token adopt the code\'s values at that Solve and stay bound per (object lineage, variable, period)',
    'after a disagreement the history is abandoned (the spec cannot follow the code\'s state); the other histories cover the later operations',
    'an "unconstrained" outcome (length-1 array, str<->number casts, values= under strict, bulk replace with a bad name) only has the '
    'C09_Shape invariants checked on the real objects; the history continues when the code took one of the outcomes TLC enumerated',
    'which operations were taken is measured from the emitted histories (the specification has one Next disjunct over the whole alphabet)',
]


def run(ctx: core.Ctx) -> None:
    quick = ctx.tier == 'quick'
    ctx.level = 'model_checking'
    ctx.rule = ('Histories = sequences of public container operations with concrete operands enumerated by TLC from Container.tla: '
                'K-ops (span 3; container F:float I:int B:bool S:str, parser-built model, linker; one of ~10 structurally different first '
                'operations, then every (operation, operand class, value kind, target dtype) once), K-hist (all sequences of depth 3 / 4 over the '
                'reduced alphabet), spans 2 and 4 (thorough), and -simulate histories of depth 25 over the full alphabet. Every history is '
                'executed on real fsic objects and all objects are projected and compared with the TLC record after every operation. '
                'evaluations = histories executed; non-trivial = histories with at least one accepted mutation.')
    core.sany('ContainerMC')
    kinds3 = ['container', 'model', 'linker']
    run_slice(ctx, 'K-ops', slice_='ops', kinds=kinds3, budget=2, maxobjs=4, shardat=1, extras=False, expect_ops=C09_OPS)
    run_slice(ctx, 'K-hist', slice_='hist', kinds=['hist2', 'model'] if quick else ['hist2', 'model', 'linker'], budget=3, maxobjs=4,
              shardat=0, extras=False, expect_ops=C09_OPS)
    if not quick:
        run_slice(ctx, 'K-hist-4', slice_='hist', kinds=['hist2'], budget=4, maxobjs=4, shardat=0, extras=False, expect_ops=C09_OPS)
        for span in (2, 4):
            run_slice(ctx, f'K-ops-span{span}', slice_='ops', kinds=kinds3, budget=2, maxobjs=4, shardat=1, extras=False, span=span,
                      expect_ops=C09_OPS)
    run_slice(ctx, 'K-near', slice_='near', kinds=kinds3, budget=4, maxobjs=4, shardat=0, extras=False, nshards=2,
              expect_ops=['ToggleStrict', 'SetAttr', 'AddVariable'])
    run_slice(ctx, 'sim-25', slice_='sim', kinds=kinds3, budget=25, maxobjs=4, shardat=0, extras=False, expect_ops=C09_OPS,
              simulate=240 if quick else 3200)
    sample_histories(ctx, slice_='hist', kinds=['hist2'], budget=3, extras=False)
    container_traces(ctx)
    ctx.exhaustive = False
    ctx.extra['exhaustive_slices'] = {'K-ops': 'depth 2 (prefix alphabet x full alphabet), span 3' + ('' if quick else ', spans 2 and 4'),
                                      'K-hist': 'depth 3, reduced alphabet' + ('' if quick else '; depth 4 on the two-variable container')}
    ctx.assumptions += ASSUMPTIONS


def container_traces(ctx: core.Ctx) -> None:
    """code -> spec: container operations of the repository's own tests and of a random driver, judged by ContainerTrace.tla."""
    from .. import trace_container as tc
    quick = ctx.tier == 'quick'
    core.sany('ContainerTrace')
    suite = tc.record_suite(ctx, ['tests/test_core.py', 'tests/test_extensions.py', 'tests/test_tools.py', '--deselect',
                                  'tests/test_tools.py::TestPandasFunctions::test_dataframe_to_symbols'], 'suite-ops')
    tc.validate(ctx, [suite], 'suite-ops')
    files = tc.record_driver(ctx, [{'seed': ctx.seed * 100 + i, 'runs': 150 if quick else 1500} for i in range(core.NCPU)], 'driver-ops')
    tc.validate(ctx, files, 'driver-ops')


def replay(data) -> int:
    if data.get('direction') == 'code->spec':
        from .. import trace_container as tc
        return tc.replay(data)
    payload = {'mode': 'records', 'records': [data['record']], 'variants': [data.get('variant', 'plain')], 'all_variants': True,
               'identity': bool(data.get('identity')), 'seed': 0}
    out = core.run_workers(WORKER, [payload])[0]
    hit = [m for m in out['mismatches'] if m['key'] == data['key']]
    if hit:
        print(json.dumps({'key': hit[0]['key'], 'step': hit[0]['step'], 'detail': hit[0]['detail']}, default=str)[:3000])
        print(f"VIOLATION property={data['property']} replay=<given file>")
        return 1
    if out['mismatches']:
        print('replay: the recorded disagreement is gone; other keys seen: ' + ', '.join(sorted(out['keys'])))
    print('replay: history now agrees with the specification')
    return 0
