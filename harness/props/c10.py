"""C10 - label-based access addresses exactly the labelled periods.

Decided on spec/Span.tla + spec/LabelAccess.tla (slices in LabelAccessMC.tla): TLC checks the
declarative property layer (C10_Exact, C10_Absent, C10_ReadBack, C10_ReadsExact, C10_LocateIsPos)
against the machine transcribed from containers.py, and emits every terminal behaviour; each is
realised on real containers / models of every concrete span type by harness/replay_span.py.
"""
from __future__ import annotations

import json
import time
from typing import Any, Dict, List

from .. import core

INV = ['TypeOK', 'C10_Exact', 'C10_Absent', 'C10_ReadBack', 'C10_ReadsExact', 'C10_LocateIsPos']
ALL_OPS = ['setlabel', 'setslice', 'setpos', 'setattr', 'setitem']
ACTION_OF = {'setlabel': 'DoSetLabel', 'setslice': 'DoSetSlice', 'setpos': 'DoSetPos', 'setattr': 'DoSetAttr', 'setitem': 'DoSetItem'}


def tla_set(xs) -> str:
    return '{' + ', '.join(json.dumps(x) if isinstance(x, str) else str(x) for x in xs) + '}'


def slice_cfg(*, minlen: int, maxlen: int, maxw: int, first: str, wrops, wrsteps, rdsteps, fullreads: bool, wrsc=(True, False),
              slnames=(1, 2), emit: bool = True) -> str:
    lines = ['SPECIFICATION MCSpec', 'CONSTANTS', '  Cfgs <- MCCfgs', '  Names = {1, 2}', '  Labels = {1, 2, 3, 4, 5}',
             f'  RdSteps = {tla_set(rdsteps)}', f'  WrSteps = {tla_set(wrsteps)}', f'  WrOps = {tla_set(wrops)}', f'  WrSc = {tla_set("TRUE" if b else "FALSE" for b in wrsc)}'.replace('"', ''),
             f'  SlNames = {tla_set(slnames)}',
             f'  FullReads = {"TRUE" if fullreads else "FALSE"}', f'  MaxW = {maxw}', f'  First = "{first}"',
             '  Shard = {shard}', '  NShards = {nshards}', f'  MinLen = {minlen}', f'  MaxLen = {maxlen}']
    lines += [f'INVARIANT {i}' for i in INV]
    if emit:
        lines.append('INVARIANT EmitInv')
    lines.append('CHECK_DEADLOCK FALSE')
    # braces of the TLA sets must survive str.format
    text = '\n'.join(lines) + '\n'
    return text.replace('{', '{{').replace('}', '}}').replace('{{shard}}', '{shard}').replace('{{nshards}}', '{nshards}')


def slices(quick: bool) -> Dict[str, Dict[str, Any]]:
    n = 3 if quick else 4
    return {
        # every (start, stop, step) read and every label read on every span, from several stores
        'reads': dict(minlen=1, maxlen=n, maxw=1, first='full', wrops=['setattr', 'setitem'], wrsteps=[1], rdsteps=[0, 1, 2, 3],
                      fullreads=True),
        # every single write of the full alphabet on every span
        'write1': dict(minlen=1, maxlen=n, maxw=1, first='full', wrops=ALL_OPS, wrsteps=[0, 1, 2, 3], rdsteps=[1],
                       fullreads=False, slnames=[1] if quick else [1, 2]),
        # two writes: one representative per access path, then the full alphabet
        'write2': dict(minlen=2, maxlen=2 if quick else 3, maxw=2, first='small', wrops=ALL_OPS,
                       wrsteps=[1, 2] if quick else [1, 2, 3], rdsteps=[1], fullreads=False, slnames=[1],
                       wrsc=[True] if quick else [True, False]),
    }


def check_and_emit(ctx: core.Ctx, name: str, params: Dict[str, Any], nshards: int = core.NCPU) -> List[Dict[str, Any]]:
    tmpl = slice_cfg(**params)
    results = core.run_sharded('LabelAccessMC', tmpl, nshards, tag=f'C10-{name}', timeout=3000, extra=['-coverage', '1'])
    records: List[Dict[str, Any]] = []
    cov: Dict[str, List[int]] = {}
    gen = dist = depth = 0
    wall = 0.0
    for r in results:
        core.require_ok(r, f'LabelAccess slice {name}')
        records += r.records
        gen += r.generated
        dist += r.distinct
        depth = max(depth, r.depth)
        wall = max(wall, r.wall)
        for a, (d, t) in r.coverage.items():
            c = cov.setdefault(a, [0, 0])
            c[0] += d
            c[1] += t
    actions = [ACTION_OF[o] for o in params['wrops']] + ['ReadAll']
    agg = core.TLCResult(rc=0, generated=gen, distinct=dist, depth=depth, coverage={a: cov.get(a, [0, 0]) for a in actions}, wall=wall)
    ctx.add_tlc(agg, f'LabelAccess slice {name} exhaustive ({nshards} shards), invariants {" ".join(INV)}',
                constants=json.dumps({k: v for k, v in params.items()}))
    core.require_coverage(agg, actions, f'LabelAccess slice {name}')
    if not records:
        raise core.MachineryError(f'no behaviours emitted for LabelAccess slice {name}')
    return records


SOLVER_PREFIXES = ('solve_period', 'solve-', 'solve[')


def replay_records(ctx: core.Ctx, records: List[Dict[str, Any]], *, all_types: bool, what: str, all_classes: bool = True,
                   all_forms: bool = True) -> None:
    payloads = [{'records': ch, 'all_types': all_types, 'all_classes': all_classes, 'all_forms': all_forms, 'seed': ctx.seed}
                for ch in core.chunks(records, core.NCPU * 2)]
    outs = core.run_workers('harness.replay_span', payloads)
    n = sum(o['n'] for o in outs)
    ctx.evaluations += n
    ctx.nontrivial += sum(o['nontrivial'] for o in outs)
    by_type: Dict[str, int] = {}
    ops: Dict[str, int] = {}
    for o in outs:
        for k, v in o['by_type'].items():
            by_type[k] = by_type.get(k, 0) + v
        for k, v in o['ops'].items():
            ops[k] = ops.get(k, 0) + v
    ctx.extra.setdefault('replayed', {})[what] = {'executions': n, 'behaviours': sum(o['distinct'] for o in outs), 'by_span_type': by_type,
                                                  'operations': ops}
    side = ctx.extra.setdefault('observations_outside_C10', {})
    for o in outs:
        for key, cnt in o['keys'].items():
            if key.startswith(SOLVER_PREFIXES):
                side[key] = side.get(key, 0) + cnt
        for mm in o['mismatches']:
            if mm['key'].startswith(SOLVER_PREFIXES):
                # solve_period()/solve() refusing a label that obj[name, label] accepts: C05's statement, not C10's.
                # Recorded as evidence (with one reproducer), never a C10 verdict.
                ctx.extra.setdefault('observations_outside_C10_examples', {}).setdefault(
                    mm['key'], {'span_type': mm['type'], 'form': mm['form'], 'span': mm['record']['span'], 'detail': mm['detail']})
                continue
            ctx.mismatch(mm['key'], {'module': 'LabelAccess', 'direction': 'spec->code', 'record': mm['record'], 'type': mm['type'],
                                     'form': mm['form'], 'detail': mm['detail'],
                                     'replay_cmd': f'./check {ctx.prop} --replay <this file>'})
    for rec in records[:: max(1, len(records) // 2)][:2]:
        ctx.sample({'behaviour': {'span': rec['span'], 'kind': rec['kind'], 'log': rec['log'],
                                  'reads': {'labels': rec['reads']['labels'][:4], 'slices': rec['reads']['slices'][:4]}}})


def run(ctx: core.Ctx) -> None:
    quick = ctx.tier == 'quick'
    ctx.level = 'model_checking'
    n = 3 if quick else 4
    ctx.rule = (f'Behaviours enumerated by TLC from LabelAccess.tla: every span of length 1..{n} over label ids 1..5 without repeats x every '
                'lookup kind (get_loc / index / fallback). Slice reads: a whole-vector write, then EVERY label read on every variable and '
                'EVERY (start, stop, step) with ends in {open, 5 labels, 2 coarse labels where the span type has them} and step in '
                '{none,1,2,3}. Slice write1: every single write of the alphabet (label, label slice with scalar or sequence, position, '
                'attribute, name key; absent labels included), then every label read, the open slice, first:last and the slice just written. '
                f'Slice write2: one representative write per access path followed by every write of the alphabet (spans up to {2 if quick else 3}). '
                'Each behaviour is realised on real VectorContainer / BaseModel objects of every concrete span type of its kind (range with '
                'non-zero origin, list of str, list of mixed hashables, NumPy int / str arrays, pandas Index (str, int), annual and quarterly '
                'PeriodIndex, DatetimeIndex; Period/Timestamp objects and their string spellings); after every operation every variable is '
                'read through attribute, name key, position and each period\'s own label and compared with the store the spec demands; '
                'exception class compared. The first write is additionally realised by solve_period(label) / solve(start=, end=). '
                'Non-trivial = the behaviour locates at least one present label.')
    core.sany('LabelAccessMC')
    sl = slices(quick)
    for name in ('reads', 'write1', 'write2'):  # one after the other: each slice already uses every core
        t0 = time.time()
        recs = check_and_emit(ctx, name, sl[name])
        t1 = time.time()
        # reads: every concrete type x label spelling x {container, model}.  write1 / write2: quick replays each behaviour on one
        # (type, spelling, class) in rotation; thorough on every type of the behaviour's kind (write1: both spellings), classes in rotation
        replay_records(ctx, recs, all_types=(name == 'reads' or not quick), what=name, all_classes=(name == 'reads'),
                       all_forms=(name != 'write2'))
        ctx.extra.setdefault('phase_wall_s', {})[name] = {'tlc': round(t1 - t0, 1), 'replay': round(time.time() - t1, 1)}
    ctx.exhaustive = True
    ctx.extra['bound'] = {'span_length': n, 'label_ids': 5, 'steps': [0, 1, 2, 3], 'writes_per_history': 2,
                          'two_write_span_length': 2 if quick else 3}
    ctx.assumptions += [
        'label ids are mapped to concrete labels per span type by fixed tables in harness/replay_span.py; positions are never computed in Python',
        'coarse labels (a year against quarterly periods / dates) are used only as slice ends and only on sorted pandas spans (DESIGN 8, C10 note)',
        'range spans realise only the arithmetic-progression spans of the enumeration',
        'solve_period()/solve() disagreements are recorded under coverage.observations_outside_C10 (they belong to C05), not as C10 verdicts',
    ]


def replay(data) -> int:
    d = data['detail']
    only = {'type': data['type'], 'form': data['form'], 'cls': d.get('cls'), 'phase': d.get('phase')}
    out = core.run_workers('harness.replay_span', [{'records': [data['record']], 'all_types': True, 'seed': 0, 'only': only}])[0]
    hits = [m for m in out['mismatches'] if m['key'] == data['key']] or out['mismatches']
    if hits:
        print(json.dumps(hits[0]['detail'], default=str)[:2000])
        print(f"VIOLATION property={data['property']} replay=<given file>")
        return 1
    print('replay: behaviour now agrees with the specification')
    return 0
