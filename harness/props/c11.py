"""C11 - copies and sibling instances share no mutable state.

Decided on spec/Container.tla: the action property C11_Indep (every operation changes only its target object tree; Copy and
NewSibling only add objects; the class-level lists never change) and the state form C11_Frame are checked by TLC on the
slices K-copy (one copy()/copy.copy()/deepcopy()/sibling taken at every point of a mutation history, mutations then applied to
either side), K-ops with the copy/list/solve operations switched on, and -simulate histories.  Every history is replayed on
real objects - VectorContainer, parser-built model with no / Alias / Tracer / both mixins, linker with plain and with nested
submodels - projecting ALL objects and the class lists after every operation, plus an identity scan (no list/dict/Trace object
and no array memory shared between original, copy, sibling and class)."""
from __future__ import annotations

from .. import core
from . import c09 as base

VARIANTS = ['plain', 'alias', 'tracer', 'both']


def run(ctx: core.Ctx) -> None:
    quick = ctx.tier == 'quick'
    ctx.level = 'model_checking'
    ctx.rule = ('Histories enumerated by TLC from Container.tla: K-copy = every sequence of ' + ('2' if quick else '2 (linker) / 3 (container, model)') + ' mutations (whole-series / item / label / '
                'slice / positional / values / bulk assignment, add_variable, add_attribute, new attribute, strict toggle, names/check/endogenous '
                'list appends, lags/leads, solve; on a linker also mutations of its submodels) with exactly one copy (3 routes) or sibling '
                'instance inserted at every possible point and the later mutations applied to either side; K-ops = one of ~14 first operations '
                'then every mutation / copy / sibling on every object; -simulate depth 25 over the same alphabet. Each history runs on container, model '
                '(plain/Alias/Tracer/both mixins, rotated), linker, nested linker. evaluations = histories executed; non-trivial = histories '
                'with at least one accepted mutation.')
    core.sany('ContainerMC')
    b = 3 if quick else 4
    base.run_slice(ctx, 'K-copy', slice_='copy', kinds=['container', 'model', 'linker'], budget=3, maxobjs=6, shardat=0, extras=True,
                   expect_ops=base.C11_OPS, variants=VARIANTS, all_variants=False, identity=True)
    if not quick:
        base.run_slice(ctx, 'K-copy-depth3', slice_='copy', kinds=['container', 'model'], budget=4, maxobjs=6, shardat=0, extras=True,
                       expect_ops=base.C11_OPS, variants=VARIANTS, all_variants=False, identity=True)
    base.run_slice(ctx, 'K-copy-nested', slice_='copy', kinds=['nested'], budget=3, maxobjs=8, shardat=0, extras=True,
                   expect_ops=[o for o in base.C11_OPS if o != 'Solve'], variants=VARIANTS, all_variants=False, identity=True)
    if not quick:
        base.run_slice(ctx, 'K-copy-model-all-mixins', slice_='copy', kinds=['model'], budget=3, maxobjs=6, shardat=0, extras=True,
                       expect_ops=base.C11_OPS, variants=VARIANTS, all_variants=True, identity=True)
    base.run_slice(ctx, 'K-ops-indep', slice_='opsx', kinds=['container', 'model', 'linker', 'nested'], budget=3, maxobjs=8,
                   shardat=1, extras=True, expect_ops=base.C11_OPS, variants=VARIANTS, identity=True)
    base.run_slice(ctx, 'sim-25', slice_='simx', kinds=['container', 'model', 'linker'], budget=25, maxobjs=6, shardat=0, extras=True,
                   expect_ops=base.C11_OPS, variants=VARIANTS, identity=True, simulate=160 if quick else 2400)
    base.sample_histories(ctx, slice_='copy', kinds=['model'], budget=3, extras=True, maxobjs=6)
    base.container_traces(ctx)
    ctx.exhaustive = False
    ctx.extra['exhaustive_slices'] = {'K-copy': '2 mutations + one copy/sibling at every point: container, model, linker' + ('' if quick else '; 3 mutations: container, model'),
                                      'K-copy-nested': '2 mutations + copy, linker whose second submodel is itself a linker',
                                      'K-ops-indep': 'depth 2, full alphabet with copy/sibling/list/solve operations'}
    ctx.assumptions += base.ASSUMPTIONS + [
        'the span object is stored by reference from the caller and is excluded from the identity scan (DESIGN 8)',
        'trace contents and alias tables are compared as opaque extras: only the target tree of a Solve may change them; a copy must equal its source',
        'a nested linker cannot be solved by the code (no _evaluate on a linker submodel); Solve is only generated for linkers whose submodels are models']


def replay(data) -> int:
    return base.replay(data)
