"""C12 - reindex preserves overlapping periods and fills the rest, on a fresh object.

Decided on spec/Reindex.tla (+ Span.tla; slices in ReindexMC.tla): TLC checks C12_Reindex,
C12_Strict, C12_KindFree and C12_OrigUnchanged against the machine transcribed from
models.py:152-157 / containers.py:676-745 and emits every terminal behaviour with the expected
result table; harness/replay_reindex.py realises each on real containers, partly solved models
and (default arguments) a PandasIndexFeaturesMixin model, for every concrete span type.
"""
from __future__ import annotations

import json
import time
from typing import Any, Dict, List

from .. import core

INV = ['TypeOK', 'C12_Reindex', 'C12_Strict', 'C12_KindFree']
ACTIONS = ['ModelDefaults', 'StrictCheck', 'BuildPositions', 'CopyObj', 'FillVar']


def slice_cfg(name: str, maxold: int, maxnew: int) -> str:
    lines = ['SPECIFICATION MCSpec', 'CONSTANTS', '  Cases = {{}}', f'  Slice = "{name}"', f'  MaxOld = {maxold}', f'  MaxNew = {maxnew}',
             '  Shard = {shard}', '  NShards = {nshards}']
    lines += [f'INVARIANT {i}' for i in INV]
    lines += ['INVARIANT EmitInv', 'PROPERTY C12_OrigUnchanged', 'CHECK_DEADLOCK FALSE']
    return '\n'.join(lines) + '\n'


def check_and_emit(ctx: core.Ctx, name: str, maxold: int, maxnew: int, nshards: int = core.NCPU) -> List[Dict[str, Any]]:
    results = core.run_sharded('ReindexMC', slice_cfg(name, maxold, maxnew), nshards, tag=f'C12-{name}', timeout=3000,
                               extra=['-coverage', '1'])
    records: List[Dict[str, Any]] = []
    cov: Dict[str, List[int]] = {}
    gen = dist = depth = 0
    wall = 0.0
    for r in results:
        core.require_ok(r, f'Reindex slice {name}')
        records += r.records
        gen += r.generated
        dist += r.distinct
        depth = max(depth, r.depth)
        wall = max(wall, r.wall)
        for a, (d, t) in r.coverage.items():
            c = cov.setdefault(a, [0, 0])
            c[0] += d
            c[1] += t
    agg = core.TLCResult(rc=0, generated=gen, distinct=dist, depth=depth, coverage={a: cov.get(a, [0, 0]) for a in ACTIONS}, wall=wall)
    ctx.add_tlc(agg, f'Reindex slice {name} exhaustive ({nshards} shards), invariants {" ".join(INV)} + C12_OrigUnchanged',
                constants=f'MaxOld={maxold} MaxNew={maxnew}')
    core.require_coverage(agg, ACTIONS, f'Reindex slice {name}')
    if not records:
        raise core.MachineryError(f'no behaviours emitted for Reindex slice {name}')
    return records


def replay_records(ctx: core.Ctx, records: List[Dict[str, Any]], *, all_types: bool, what: str, pd_all: bool = True, ntypes: int = 2) -> None:
    payloads = [{'records': ch, 'all_types': all_types, 'seed': ctx.seed, 'pd_all': pd_all, 'ntypes': ntypes}
                for ch in core.chunks(records, core.NCPU * 2)]
    outs = core.run_workers('harness.replay_reindex', payloads)
    n = sum(o['n'] for o in outs)
    ctx.evaluations += n
    ctx.nontrivial += sum(o['nontrivial'] for o in outs)
    agg: Dict[str, Dict[str, int]] = {'by_class': {}, 'by_type': {}}
    for o in outs:
        for f in agg:
            for k, v in o[f].items():
                agg[f][k] = agg[f].get(k, 0) + v
    ctx.extra.setdefault('replayed', {})[what] = {'executions': n, 'behaviours': sum(o['distinct'] for o in outs), **agg}
    for o in outs:
        for mm in o['mismatches']:
            ctx.mismatch(mm['key'], {'module': 'Reindex', 'direction': 'spec->code', 'record': mm['record'], 'type': mm['type'],
                                     'cls': mm['cls'], 'detail': mm['detail'], 'replay_cmd': f'./check {ctx.prop} --replay <this file>'})
        for key, cnt in o['keys'].items():
            kc = ctx.extra.setdefault('mismatch_counts', {})
            kc[key] = kc.get(key, 0) + cnt
    for rec in records[:: max(1, len(records) // 2)][:2]:
        ctx.sample({'behaviour': rec})


def run(ctx: core.Ctx) -> None:
    quick = ctx.tier == 'quick'
    ctx.level = 'model_checking'
    n = 3 if quick else 4
    ctx.rule = (f'Behaviours enumerated by TLC from Reindex.tla. Slice spans: every old span of length 0..{n} over label ids 1..5 without '
                f'repeats x every new span of length 0..{n} over the same ids WITH repeats (overlapping, disjoint, permuted, shrunk, extended at '
                'either end, repeated) x {container, partly solved model} x {default arguments; fill_value + per-variable keywords}; objects hold '
                'one variable per dtype kind (float, int, bool, str) (+ status, iterations). Slice fills: 8 span pairs x fill_value {absent, '
                'given} x every subset of per-variable keywords x unknown keyword {no, yes} x strict argument {None, True, False} x object '
                'strict {False, True} x class. Each behaviour is realised on real objects of every concrete span type (C10 list), and for '
                'default arguments also on a PandasIndexFeaturesMixin model; compared: exception class, class, span, variable order, every '
                'series by position (NaN-aware, dtype and itemsize) and by label, attributes / lags / leads / strict, deep snapshot of the '
                'original before/after, np.shares_memory and list identity between result and original. Non-trivial = old span != new span.')
    core.sany('ReindexMC')
    for name, bound in (('fills', 3), ('spans', n)):
        t0 = time.time()
        recs = check_and_emit(ctx, name, bound, bound)
        t1 = time.time()
        replay_records(ctx, recs, all_types=(not quick and name == 'fills'), what=name, pd_all=(quick or name == 'fills'),
                       ntypes=2 if quick else 4)
        ctx.extra.setdefault('phase_wall_s', {})[name] = {'tlc': round(t1 - t0, 1), 'replay': round(time.time() - t1, 1)}
    from . import c09
    c09.container_traces(ctx)
    ctx.exhaustive = True
    ctx.extra['bound'] = {'old_span_length': n, 'new_span_length': n, 'label_ids': 5}
    ctx.assumptions += [
        'fill_value is realised as 7 (7.0 / 7 / True / "7" in the four dtype kinds), per-variable keywords in the variable\'s own dtype',
        "status / iterations defaults of models ('-', -1) take precedence over fill_value (models.py:152-153 and its docstring); only a "
        'per-variable keyword overrides them',
        'the new span is passed as the same concrete type as the old one (ranges that cannot express it: list of ints)',
        'quick replays each behaviour on 2 of the 10 concrete span types in rotation; thorough replays the fills slice on all of them and '
        'the spans slice on 4 in rotation (its pandas-mixin replays: one span type per family - python, numpy, pandas)',
    ]


def replay(data) -> int:
    if data.get('direction') == 'code->spec':
        from .. import trace_container as tc
        return tc.replay(data)
    only = {'type': data['type'], 'cls': data['cls']}
    out = core.run_workers('harness.replay_reindex', [{'records': [data['record']], 'all_types': True, 'seed': 0, 'only': only}])[0]
    hits = [m for m in out['mismatches'] if m['key'] == data['key']] or out['mismatches']
    if hits:
        print(json.dumps(hits[0]['detail'], default=str)[:2000])
        print(f"VIOLATION property={data['property']} replay=<given file>")
        return 1
    print('replay: behaviour now agrees with the specification')
    return 0
