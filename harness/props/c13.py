"""C13 - the parser is total, fails only with its own errors, and has no side effects.

Decided on spec/Splitter.tla (character-class-level machine of split_equations_iter plus the
statement rules the property states).  TLC enumerates every class string up to the bound
(SplitterMC: plain enumeration + context slices behind fixed heads), checks C13_NoSilentDrop,
C13_Outcome, C13_Extents, C14_Independent on the machine and emits, per complete input, what
must happen.  harness/replay_splitter.py expands each class string over the 27-character
alphabet, feeds every concrete string to the real parse_model / build_model under canaries and
compares with the emitted verdict.  Mutation fuzzing of valid scripts goes the same way: the
mutants are abstracted to class strings, Splitter.tla (generated module SplitterFuzz, fixed
heads = the mutants) says what must happen, the real parser is run on the concrete text.
"""
from __future__ import annotations

import json
import threading
from concurrent.futures import ThreadPoolExecutor
from typing import Any, Dict, List

from .. import core

INV = ['TypeOK', 'C13_NoSilentDrop', 'C13_Extents', 'C13_Outcome', 'C14_Independent', 'C14_Function']
ACTIONS = ['ReadChar', 'StartComment', 'SkipComment', 'SkipAfterError', 'OpenFence', 'CloseBeforeOpen', 'Continue',
           'SkipBlank', 'RejectIndent', 'RejectNoMatch', 'RejectNoLhs', 'Yield', 'LastLine', 'NoLastLine', 'EndError',
           'EndUnmatched', 'EndInFence', 'EndOk']      # EndInFenceSilent exists only with Faithful = TRUE
WORKER = 'harness.replay_splitter'
NB = core.NCPU            # record buckets per TLC shard = replay workers


def cfg(heads: str, alpha: str, n: int, *, faithful: bool = False, invariants=INV, emit: bool = True) -> str:
    lines = ['SPECIFICATION Spec', 'CONSTANTS', f'  Prefixes <- {heads}', f'  Alpha <- {alpha}', f'  N = {n}',
             f'  Faithful = {"TRUE" if faithful else "FALSE"}', '  Admit <- MCAdmit', '  AdmitEnd <- MCAdmitEnd',
             '  Shard = {shard}', '  NShards = {nshards}']
    lines += [f'INVARIANT {i}' for i in invariants]
    if emit:
        lines.append('INVARIANT EmitInv')
    lines.append('CHECK_DEADLOCK FALSE')
    return '\n'.join(lines) + '\n'


class Buckets:
    """Streams the records of one TLC shard into NB files, balanced by the number of concrete expansions."""
    WEIGHT = {'L': 4, '+': 4, 'x': 2}

    def __init__(self, tag: str, shard: int):
        d = core.subdir(f'c13-records-{tag}')
        self.paths = [str(d / f'b-{shard}-{j}.jsonl') for j in range(NB)]
        self.files = [open(p, 'w') for p in self.paths]
        self.load = [0] * NB
        self.n = 0
        self.k1 = 0
        self.concrete = 0

    def __call__(self, rec: Dict[str, Any]) -> None:
        w = 1
        for c in rec['s'][rec.get('h', 0):]:
            w *= self.WEIGHT.get(c, 1)
        j = min(range(NB), key=self.load.__getitem__)
        self.load[j] += w + 2
        self.files[j].write(json.dumps(rec, separators=(',', ':')) + '\n')
        self.n += 1
        self.concrete += w
        if rec['k'] >= 1:
            self.k1 += 1

    def close(self) -> None:
        for f in self.files:
            f.close()


def enumerate_slice(prop: str, name: str, heads: str, alpha: str, n: int, *, coverage: bool, nshards: int = core.NCPU,
                    timeout: int = 3000) -> Dict[str, Any]:
    """Sharded exhaustive TLC run of one slice (all invariants + emission); records are streamed into bucket files."""
    tmpl = cfg(heads, alpha, n)
    tag = f'{prop}-{name}'
    sinks = [Buckets(tag, i) for i in range(nshards)]

    def one(i: int) -> core.TLCResult:
        try:
            return core.run_tlc('SplitterMC', tmpl.format(shard=i, nshards=nshards), workers=1, tag=f'{tag}-s{i}', timeout=timeout,
                                heap='768m', extra=['-coverage', '1'] if coverage else [], keep_records=False, record_sink=sinks[i])
        finally:
            sinks[i].close()
    with ThreadPoolExecutor(max_workers=min(nshards, core.NCPU)) as ex:
        results = list(ex.map(one, range(nshards)))
    cov: Dict[str, List[int]] = {}
    for r in results:
        core.require_ok(r, f'Splitter slice {name}')
        for a, (d, t) in r.coverage.items():
            c = cov.setdefault(a, [0, 0])
            c[0] += d
            c[1] += t
    agg = core.TLCResult(rc=0, generated=sum(r.generated for r in results), distinct=sum(r.distinct for r in results),
                         depth=max(r.depth for r in results), wall=max(r.wall for r in results),
                         coverage={a: cov.get(a, [0, 0]) for a in ACTIONS} if coverage else {})
    stats = {'class_strings': sum(b.n for b in sinks), 'with_statement': sum(b.k1 for b in sinks),
             'concrete_expected': sum(b.concrete for b in sinks)}
    if stats['class_strings'] == 0:
        raise core.MachineryError(f'no records emitted for slice {name}')
    return {'files': [[b.paths[j] for b in sinks] for j in range(NB)], 'stats': stats, 'cov': cov, 'agg': agg,
            'what': f'Splitter slice {name}: exhaustive class strings ({nshards} shards), invariants {"+".join(INV)}'
                    + (' (with action coverage)' if coverage else ''),
            'constants': f'Prefixes={heads} Alpha={alpha} N={n} Faithful=FALSE'}


def witness(prop: str, invariant: str, n: int) -> Dict[str, Any]:
    """The code-faithful machine (Faithful = TRUE) must violate the property layer: spec-level witness of D13,
    and proof that the invariants are not vacuous."""
    r = core.run_tlc('SplitterMC', cfg('HeadEmpty', 'AllClasses', n, faithful=True, invariants=[invariant], emit=False)
                     .format(shard=0, nshards=1), workers=1, tag=f'{prop}-faithful-{invariant}', heap='512m', timeout=900)
    if r.violated != invariant:
        raise core.MachineryError(f'code-faithful Splitter (Faithful=TRUE) does not violate {invariant}: the property layer is vacuous\n'
                                  + core.tlc_log_tail(r))
    return {'agg': r, 'what': f'Splitter with Faithful=TRUE: {invariant} is violated as it must be (counterexample found)',
            'constants': f'N={n} Faithful=TRUE', 'invariant': invariant}


def absorb(ctx: core.Ctx, outs: List[Dict[str, Any]], what: str, direction: str = 'spec->code') -> Dict[str, int]:
    keys: Dict[str, int] = {}
    first: Dict[str, Dict[str, Any]] = {}
    outcomes: Dict[str, int] = {}
    for o in outs:
        for k, v in o['keys'].items():
            keys[k] = keys.get(k, 0) + v
        for k, v in o['outcomes'].items():
            outcomes[k] = outcomes.get(k, 0) + v
        for mm in o['mismatches']:      # keep the shortest example per key (stable and readable)
            old = first.get(mm['key'])
            if old is None or (len(mm['text']), mm['text']) < (len(old['text']), old['text']):
                first[mm['key']] = mm
        for smp in o.get('samples', []):
            ctx.sample({what: smp})
    n = sum(o['n'] for o in outs)
    ctx.evaluations += n
    ctx.nontrivial += sum(o['nontrivial'] for o in outs)
    ctx.extra.setdefault('replayed', {})[what] = {'concrete_strings': n, 'class_strings': sum(o['classes'] for o in outs),
                                                  'outcomes': outcomes, 'distinct_models_built': sum(o['builds'] for o in outs),
                                                  'finding_keys': keys}
    for key in sorted(keys):
        mm = first[key]
        detail = {'module': 'Splitter', 'direction': direction, 'slice': what, 'text': mm['text'], 'record': mm['record'],
                  'observed': mm['observed'], 'outcome': mm['outcome'], 'origin': mm.get('origin'), 'count_in_slice': keys[key],
                  'replay_cmd': f'./check {ctx.prop} --replay <this file>'}
        for _ in range(keys[key]):
            ctx.mismatch(key, detail)
    return keys


def replay_files(ctx: core.Ctx, sl: Dict[str, Any], what: str) -> None:
    stats = sl['stats']
    outs = core.run_workers(WORKER, [{'mode': 'enum', 'files': fs} for fs in sl['files']], timeout=3000)
    n = sum(o['n'] for o in outs)
    if n != stats['concrete_expected'] or sum(o['classes'] for o in outs) != stats['class_strings']:
        raise core.MachineryError(f'{what}: replayed {n} strings / {sum(o["classes"] for o in outs)} class strings, '
                                  f'expected {stats["concrete_expected"]} / {stats["class_strings"]}')
    absorb(ctx, outs, what)
    ctx.extra['replayed'][what].update(stats)


def tla_seq(s: str) -> str:
    return '<<' + ', '.join('"' + c + '"' for c in s) + '>>'


def fuzz_spec(prop: str, items: List[Dict[str, Any]], judged: int, nshards: int) -> Dict[str, Any]:
    """Splitter.tla on the class strings of the first `judged` fuzz inputs (generated module SplitterFuzz whose fixed
    heads are those class strings, no free tail): statement count and extents of the fuzz inputs come from the spec."""
    spec_items = items[:judged]
    by_class: Dict[str, Dict[str, Any]] = {}
    shards = core.chunks(sorted({it['s'] for it in spec_items}), nshards)
    lock = threading.Lock()

    def one(i: int) -> core.TLCResult:
        tag = f'{prop}-fuzz-s{i}'
        work = core.subdir(f'tlc-{tag}')
        heads = ',\n  '.join(tla_seq(s) for s in shards[i])
        (work / 'SplitterFuzz.tla').write_text(
            '---- MODULE SplitterFuzz ----\n(* generated: class strings of the fuzz inputs as fixed heads *)\n'
            f'EXTENDS SplitterMC\nFuzzHeads == {{\n  {heads} }}\n====\n')

        def sink(rec):
            with lock:
                by_class[rec['s']] = rec
        return core.run_tlc('SplitterFuzz', cfg('FuzzHeads', 'AllClasses', 0).format(shard=0, nshards=1), workers=1, tag=tag,
                            heap='768m', timeout=2400, keep_records=False, record_sink=sink)
    with ThreadPoolExecutor(max_workers=core.NCPU) as ex:
        results = list(ex.map(one, range(len(shards))))
    for r in results:
        core.require_ok(r, 'Splitter on fuzz inputs')
    missing = [it['s'] for it in spec_items if it['s'] not in by_class]
    if missing:
        raise core.MachineryError(f'no spec record for {len(missing)} fuzz inputs, e.g. {missing[0]!r}')
    agg = core.TLCResult(rc=0, generated=sum(r.generated for r in results), distinct=sum(r.distinct for r in results),
                         depth=max(r.depth for r in results), wall=max(r.wall for r in results))
    return {'by_class': by_class, 'agg': agg, 'constants': 'Prefixes=FuzzHeads N=0',
            'what': f'Splitter on {len(by_class)} class strings of fuzz inputs (generated module SplitterFuzz), invariants {"+".join(INV)}'}


def fuzz_replay(ctx: core.Ctx, items: List[Dict[str, Any]], judged: int, by_class: Dict[str, Dict[str, Any]]) -> None:
    """Mutation fuzzing.  The first `judged` inputs (all unmutated seeds first) are judged with the statement count of the
    spec; the rest are checked for the clauses that need no count (own errors only, terminates, no side effects, build
    succeeds when parse returns)."""
    payload_items = []
    for idx, it in enumerate(items):
        rec = by_class.get(it['s']) if idx < judged else None
        if rec is not None:
            rec = dict(rec, h=len(rec['s']))
        payload_items.append({'text': it['text'], 'origin': it['origin'], 'record': rec})
    parts = [payload_items[j::core.NCPU] for j in range(core.NCPU)]     # every worker gets judged and unjudged inputs
    outs = core.run_workers(WORKER, [{'mode': 'fuzz', 'items': p} for p in parts if p], timeout=3000)
    absorb(ctx, outs, 'mutation-fuzz')
    ctx.extra['replayed']['mutation-fuzz'].update({'seeds': sum(1 for it in items if '/' not in it['origin']),
                                                  'inputs': len(items), 'judged_with_spec_statement_count': min(judged, len(items)),
                                                  'mutations': 'token delete / duplicate / swap / bracket imbalance, 1-3 per mutant'})
    for it in items[:: max(1, len(items) // 2)][:2]:
        ctx.sample({'fuzz_input': it['text'], 'class_string': it['s'], 'origin': it['origin']})


def run(ctx: core.Ctx) -> None:
    quick = ctx.tier == 'quick'
    ctx.level = 'exploration'
    n_full = 4 if quick else 5
    n_ctx = 3 if quick else 4
    ctx.rule = (f'Inputs = every string over the 28-character alphabet (A b e t 1 _ space newline = ( ) [ ] {{ }} < > ` # \' + - * / . , é backslash) '
                f'of length <= {n_full}: TLC enumerates every class string over the 21 character classes (SplitterMC, plain slice) and the '
                f'adapter takes the full product over the members of each class. Context slices: 8 fixed heads (second statement, open '
                f'bracket, open/closable fence, fence inside brackets, indented statement) followed by every tail of length <= {n_ctx} over 12 classes. '
                'Plus mutation fuzzing (token delete/duplicate/swap, bracket imbalance; seed-driven) of 42 hand-written valid scripts '
                'covering the C01 grammar. Every concrete string goes through the real parse_model (and build_model + instantiation when '
                'it returns) under canaries; the legal outcome set, statement count and extents come from the Splitter.tla record. '
                'Non-trivial = concrete strings for which the spec finds at least one complete statement (enumeration) / '
                'for which the parser returned (fuzzing).')
    core.sany('SplitterMC')
    per_seed, judged = (40, 400) if quick else (1500, 4000)
    items = core.run_workers(WORKER, [{'mode': 'abstract', 'seed': ctx.seed, 'per_seed': per_seed}])[0]
    small = 4 if quick else 8
    with ThreadPoolExecutor(max_workers=6) as ex:     # all TLC work side by side; the code is replayed afterwards
        f_plain = ex.submit(enumerate_slice, ctx.prop, 'plain', 'HeadEmpty', 'AllClasses', n_full, coverage=False,
                            nshards=8 if quick else core.NCPU)
        f_ctx = ex.submit(enumerate_slice, ctx.prop, 'context', 'HeadAll', 'SplitAlpha', n_ctx, coverage=quick,
                          nshards=2 if quick else core.NCPU)
        f_cov = [ex.submit(enumerate_slice, ctx.prop, 'plain-cov', 'HeadEmpty', 'AllClasses', 3, coverage=True, nshards=1)]
        if not quick:   # action coverage is measured on the smaller bounds (the big runs contain them) without slowing the big runs down
            f_cov.append(ex.submit(enumerate_slice, ctx.prop, 'context-cov', 'HeadAll', 'SplitAlpha', 3, coverage=True, nshards=small))
        f_wit = [ex.submit(witness, ctx.prop, 'C13_NoSilentDrop', 3), ex.submit(witness, ctx.prop, 'C13_Outcome', 2)]
        f_fuzz = ex.submit(fuzz_spec, ctx.prop, items, judged, 2 if quick else core.NCPU)
        wit = [f.result() for f in f_wit]
        covs = [f.result() for f in f_cov]
        plain, context, fz = f_plain.result(), f_ctx.result(), f_fuzz.result()
    cov_total: Dict[str, List[int]] = {}
    for w in wit:
        ctx.add_tlc(w['agg'], w['what'], w['constants'])
        ctx.extra.setdefault('faithful_machine_refuted', []).append(w['invariant'])
    for sl in covs + [plain, context, fz]:
        ctx.add_tlc(sl['agg'], sl['what'], sl['constants'])
        for a, (d, t_) in sl.get('cov', {}).items():
            c = cov_total.setdefault(a, [0, 0])
            c[0] += d
            c[1] += t_
    core.require_coverage(core.TLCResult(rc=0, coverage=cov_total), ACTIONS, 'Splitter plain + context slices')
    ctx.extra['action_coverage'] = {a: cov_total.get(a) for a in ACTIONS}

    replay_files(ctx, plain, f'plain<={n_full}')
    replay_files(ctx, context, f'context-heads+<={n_ctx}')
    fuzz_replay(ctx, items, judged, fz['by_class'])

    # whole scripts with verbatim statements (a backticked line, a fenced block, the same text twice) between the equations:
    # Script.tla says which symbols and which code blocks they contribute ("each one contributes exactly one equation or
    # verbatim block"); the generated pass must run every block, in the specification's code order
    from . import script_common as scc
    core.sany('ScriptMC')
    vrecs = scc.emit_layer(ctx, 'vstmt')
    scc.replay(ctx, vrecs, checks=['c01'], namemaps=['plain', 'attrnames'], what='vstmt', layouts=['canon'])

    ctx.exhaustive = True
    ctx.extra['exhaustive_bound'] = (f'all {sum(28 ** i for i in range(n_full + 1))} strings of length <= {n_full} over the 28-character alphabet; '
                                     f'context slices exhaustive for tails <= {n_ctx}; fuzzing is sampled')
    ctx.assumptions += [
        'expansion table of harness/replay_splitter.py (class code -> members) is the alphabet the property names; fixed heads use the first member',
        'abstract() (character -> class) is the inverse of that table for the fuzz inputs; characters outside the table count as operators',
        'canaries observe print/open/input/exit, the sentinel `probe`, stdout/stderr, fsic.parser globals, np.geterr, warnings.filters, '
        'sys.modules, os.environ and the cwd; a side effect outside these is not seen',
        'the number of blocks of a built model is counted by the real build_model_definition through a recording converter',
        'a timeout (alarm after 2 s of CPU time of the call, 120 s wall-clock backstop) counts as non-termination only if it reproduces on a second call',
        'Splitter.tla constrains the outcome kind (own error / returns with k blocks); which own error class is raised is not constrained',
    ]


def replay(data: Dict[str, Any]) -> int:
    if data.get('module') == 'Script':
        from . import script_common as scc
        return scc.replay_one(data)
    rec = data.get('record')
    out = core.run_workers(WORKER, [{'mode': 'exact', 'items': [{'text': data['text'], 'record': rec, 'origin': data.get('origin')}]}])[0]
    if data['key'] in out['keys']:
        mm = [m for m in out['mismatches'] if m['key'] == data['key']][0]
        print(json.dumps({'text': data['text'], 'key': data['key'], 'observed': mm['observed'], 'spec': rec}, default=str))
        print(f"VIOLATION property={data['property']} replay=<given file>")
        return 1
    if out['keys']:
        print(json.dumps({'text': data['text'], 'other_keys_now': out['keys']}))
        print(f"VIOLATION property={data['property']} replay=<given file> (different disagreement than recorded)")
        return 1
    print('replay: the parser now behaves as the specification demands on this input')
    return 0
