"""C16 - eval() and the time-series helpers compute what their definitions say.

TimeSeries.tla is the oracle: TLC checks the C16_* invariants on every case of the slices below and
prints one record per case carrying the inputs and the result the specification expects; the worker
harness.replay_timeseries realises every record on fsic.functions.lag/lead/diff/dlog and on
VectorContainer.eval (five concrete span types) and compares."""
from __future__ import annotations

import json
from concurrent.futures import ThreadPoolExecutor
from typing import Any, Dict, List, Sequence

from .. import core

INVARIANTS = ['TypeOK', 'C16_Len', 'C16_InputUntouched', 'C16_LagLead', 'C16_DiffDef', 'C16_Positional', 'C16_LabelSlice',
              'C16_Undefined', 'C16_Pure']
TS_ACTIONS = ['TsEnter', 'TsFill', 'TsSub', 'TsHead', 'TsRet']
EV_ACTIONS = ['EvResolve', 'EvNamespace', 'EvEval']
ALL_ACTIONS = TS_ACTIONS + EV_ACTIONS


def slice_cfg(kind: str, *, maxn: int = 3, alpha: str = 'AlphaQuick', scens: str = 'ScensStd', spans: str = 'SpanAsc',
              maxops: int = 1, emit: bool = True, fair: bool = False) -> str:
    if fair:
        head = [f"SPECIFICATION {'FairSpec' if kind == 'ts' else 'EvFairSpec'}"]
    elif kind == 'ts':
        head = ['SPECIFICATION Spec']
    else:
        head = ['INIT EvInit', 'NEXT Next']
    lines = head + ['CONSTANTS', f"  Cases <- {'TsCasesS' if kind == 'ts' else 'NoCases'}", '  Shard = {shard}', '  NShards = {nshards}',
                    f'  MaxN = {maxn}', f'  Alpha <- {alpha}', f'  Scens <- {scens}', f'  SpanSet <- {spans}', f'  MaxOps = {maxops}']
    lines += [f'INVARIANT {i}' for i in INVARIANTS]
    if emit:
        lines.append('INVARIANT EmitInv')
    if fair:
        lines.append('PROPERTY Termination')
    lines.append('CHECK_DEADLOCK FALSE')
    return '\n'.join(lines) + '\n'


# many short single-worker TLC processes run side by side: keep each JVM's own thread count and JIT effort small
JVM_ENV = {'JAVA_TOOL_OPTIONS': '-XX:ParallelGCThreads=2 -XX:TieredStopAtLevel=1'}


def run_sharded(module: str, cfg_template: str, nshards: int, *, tag: str, timeout: int) -> List[core.TLCResult]:
    """core.run_sharded with the JVM settings above (one single-worker TLC per shard, lines never interleave)."""
    def one(i: int) -> core.TLCResult:
        return core.run_tlc(module, cfg_template.format(shard=i, nshards=nshards), workers=1, tag=f'{tag}-s{i}', timeout=timeout,
                            heap='2g', extra=['-coverage', '1'], env=JVM_ENV)
    with ThreadPoolExecutor(max_workers=min(nshards, core.NCPU)) as ex:
        return list(ex.map(one, range(nshards)))


def check_and_emit(ctx: core.Ctx, name: str, kind: str, nshards: int = core.NCPU, **kw: Any) -> List[Dict[str, Any]]:
    """Exhaustive model checking of one slice in NCPU disjoint shards (the case is constant along a behaviour, so
    sharding the initial states partitions the state graph); every terminal state prints its case record."""
    tmpl = slice_cfg(kind, **kw)
    results = run_sharded('TimeSeriesMC', tmpl, nshards, tag=f'{ctx.prop}-{name}', timeout=3000)
    records: List[Dict[str, Any]] = []
    cov: Dict[str, List[int]] = {}
    gen = dist = depth = 0
    wall = 0.0
    for r in results:
        core.require_ok(r, f'TimeSeries slice {name}')
        records += r.records
        r.records = []
        gen += r.generated
        dist += r.distinct
        depth = max(depth, r.depth)
        wall = max(wall, r.wall)
        for a, (d, t) in r.coverage.items():
            c = cov.setdefault(a, [0, 0])
            c[0] += d
            c[1] += t
    agg = core.TLCResult(rc=0, generated=gen, distinct=dist, depth=depth, coverage={a: cov.get(a, [0, 0]) for a in ALL_ACTIONS}, wall=wall)
    ctx.add_tlc(agg, f'TimeSeries slice {name} exhaustive ({nshards} shards)', constants=json.dumps(kw, sort_keys=True))
    ctx.extra.setdefault('slice_wall_s', {})[name] = {'tlc': round(wall, 1), 'records': len(records)}
    core.require_coverage(agg, TS_ACTIONS if kind == 'ts' else EV_ACTIONS, f'TimeSeries slice {name}')
    if not records:
        raise core.MachineryError(f'no case records emitted for slice {name}')
    return records


def replay_records(ctx: core.Ctx, records: List[Dict[str, Any]], what: str) -> None:
    nchunks = max(1, min(core.NCPU, (len(records) + 1499) // 1500))      # a worker start-up (NumPy, pandas) costs about 1 s
    payloads = [{'records': ch, 'kinds': None, 'seed': ctx.seed} for ch in core.chunks(records, nchunks)]
    outs = core.run_workers('harness.replay_timeseries', payloads)
    n = sum(o['n'] for o in outs)
    ctx.evaluations += n
    ctx.nontrivial += sum(o['nontrivial'] for o in outs)
    by_kind: Dict[str, int] = {}
    keys: Dict[str, int] = {}
    for o in outs:
        for k, v in o['by_kind'].items():
            by_kind[k] = by_kind.get(k, 0) + v
        for k, v in o['keys'].items():
            keys[k] = keys.get(k, 0) + v
        for mm in o['mismatches']:
            ctx.mismatch(mm['key'], {'module': 'TimeSeries', 'direction': 'spec->code', 'slice': what, 'record': mm['record'],
                                     'variant': mm['variant'], 'observed': mm['observed'], 'expected': mm['expected'],
                                     'repro': mm['repro'], 'replay_cmd': f'./check {ctx.prop} --replay <this file>'})
    ctx.extra.setdefault('replayed', {})[what] = {'records': len(records), 'executions': n, 'cases': by_kind, 'mismatching_executions': keys}
    for rec in records[:: max(1, len(records) // 2)][:2]:
        if rec['kind'] == 'ts':
            ctx.sample({'helper': {k: rec[k] for k in ('op', 'x', 'p', 'fill')}, 'expected': rec['out']['v'] or rec['out']['e']})
        else:
            ctx.sample({'eval': {'expr': rec['expr'], 'span': rec['span'], 'scen': rec['scen']}, 'expected': rec['out']})


def run(ctx: core.Ctx) -> None:
    quick = ctx.tier == 'quick'
    ctx.level = 'model_checking'
    ctx.rule = ('Cases are enumerated by TLC from TimeSeriesMC.tla. Helper cases: every array over {0,1,2} of length 0..MaxN x every '
                'shift p/d in -n-1..n+1 x fill in {NaN, 0, 7} x {lag, lead, diff}; each is executed on float64 input (and int64 input for '
                'integer fills), diff cases additionally through dlog on x+1, with positional / keyword / defaulted arguments. '
                'eval cases: every expression tree with at most MaxOps operator nodes over the slice alphabet (helper calls, positional '
                'index/slice, backticked label index/slice, + - *), statically well-typed, over namespace scenarios (std; undefined names; '
                'locals overriding variables; variables/locals shadowing helpers; empty container) and spans of distinct label ids; each '
                'record with a backtick is evaluated by VectorContainer.eval on every applicable concrete span type (range with non-zero origin, list '
                'of str, NumPy int array, pandas Index, annual PeriodIndex; permuted spans only on the unordered types), a record without one '
                '(eval never consults the span) on two of them in rotation, and compared with the '
                'value / exception the specification emitted, together with the container projection, the caller locals and '
                'fsic.functions.builtins before/after. Non-trivial = non-empty array with p != 0 (helpers) or at least one operator node (eval).')
    core.sany('TimeSeriesMC')

    slices: Sequence[Any]
    half = max(1, core.NCPU // 2)
    if quick:
        slices = [
            ('ts', 'ts', dict(maxn=3, nshards=2)),
            ('ev-core', 'ev', dict(alpha='AlphaQuick', scens='ScensStd', spans='SpanAsc', maxops=3, nshards=half)),
            ('ev-ns', 'ev', dict(alpha='AlphaQuick', scens='ScensNs', spans='SpanAsc', maxops=2, nshards=2)),
            ('ev-perm', 'ev', dict(alpha='AlphaQuick', scens='ScensStd', spans='SpanPerm', maxops=2, nshards=1)),
        ]
    else:
        slices = [
            ('ts', 'ts', dict(maxn=4, nshards=half)),
            ('ev-core', 'ev', dict(alpha='AlphaMid', scens='ScensStd', spans='SpanAsc', maxops=3)),
            ('ev-wide', 'ev', dict(alpha='AlphaFull', scens='ScensStd', spans='SpanAll', maxops=2, nshards=half)),
            ('ev-ns', 'ev', dict(alpha='AlphaMid', scens='ScensNs', spans='SpanTwo', maxops=2, nshards=half)),
            ('ev-perm', 'ev', dict(alpha='AlphaQuick', scens='ScensStd', spans='SpanPerm', maxops=3)),
        ]
    for name, kind, kw in slices:
        recs = check_and_emit(ctx, name, kind, **kw)
        replay_records(ctx, recs, name)
        del recs
    ctx.exhaustive = True
    ctx.extra['exhaustive_slices'] = {name: kw for name, _, kw in slices}

    # liveness: every call terminates
    for kind, kw in (('ts', dict(maxn=2)), ('ev', dict(alpha='AlphaQuick', scens='ScensNs', spans='SpanAsc', maxops=1))):
        live = core.run_tlc('TimeSeriesMC', slice_cfg(kind, emit=False, fair=True, **kw).format(shard=0, nshards=1), workers=2,
                            tag=f'{ctx.prop}-live-{kind}', env=JVM_ENV)
        core.require_ok(live, f'Termination under weak fairness ({kind})')
        ctx.add_tlc(live, f'TimeSeries {kind} FairSpec => <>Done', constants=json.dumps(kw, sort_keys=True))

    ctx.assumptions += [
        'integer value codes are realised as exactly representable float64 (and int64) values; NaN is the only non-finite value (no division)',
        'the renderer (spec tree -> expression text) is faithful: every rendered text is parsed back with ast.parse and must reproduce the tree',
        'label ids are mapped to concrete labels per span type by a fixed table; absent label id 19 is absent from every concrete span',
        'diff with d < 0 (NotImplementedError today) is outside the property and left unconstrained; shift 0 may return the input object itself',
        'dlog is compared at the fill positions given by the specification and, elsewhere, against np.log differences within 4 ulp',
        'TLC explores the stated slices completely; expressions beyond MaxOps operator nodes and alphabets beyond the listed ones are not covered',
    ]


def replay(data) -> int:
    rec = data['record']
    variant = data.get('variant', {})
    kinds = [variant['span_kind']] if 'span_kind' in variant else None
    payloads = [{'records': [rec], 'kinds': kinds, 'seed': s} for s in range(8)]
    outs = core.run_workers('harness.replay_timeseries', payloads)
    hits = [mm for o in outs for mm in o['mismatches']]
    if hits:
        print(json.dumps({'key': hits[0]['key'], 'observed': hits[0]['observed'], 'expected': hits[0]['expected']}))
        print(f"VIOLATION property={data['property']} replay=<given file>")
        return 1
    print('replay: case now agrees with the specification')
    return 0
