"""C17 - tracing never changes a solution and records it faithfully."""
from __future__ import annotations

import json

from .. import core
from . import solver_common as sc

INV = ['C17_Off', 'C17_Shape', 'C17_Unsolved'] + sc.ALL_INV
ACTIONS = ['TStart', 'TDoBefore', 'TDoPass', 'TDoAfter']


def cfg_text(name, maxi):
    cfgs, outs, hooks, writes = sc.SLICES[name]
    lines = ['SPECIFICATION TSpec', 'CONSTANTS', f'  Cfgs <- {cfgs}', f'  EqOuts <- {outs}', f'  HookOuts <- {hooks}',
             f'  HookWrites <- {writes}', '  Shard = {shard}', '  NShards = {nshards}', f'  MaxI = {maxi}']
    lines += [f'INVARIANT {i}' for i in INV]
    lines += ['INVARIANT TEmitInv', 'PROPERTY Spec', 'CHECK_DEADLOCK FALSE']
    return '\n'.join(lines) + '\n'


def variants(quick):
    vs = []
    for entry in ('solve_t', 'solve_period', 'solve'):
        for trace in ('true', 'list', 'single'):
            vs.append({'entry': entry, 'trace': trace, 'scale': 1.0 if trace != 'list' else 0.25, 'span': 'range' if entry != 'solve_period' else 'str',
                       'tolmode': 'eq' if trace != 'single' else 'ulp', 'flavour': 0, 'offmode': 'false' if trace == 'list' else 'absent',
                       'repeat': {'true': 'same', 'list': 'other', 'single': None}[trace]})
    return vs


def run(ctx: core.Ctx) -> None:
    quick = ctx.tier == 'quick'
    ctx.level = 'model_checking'
    ctx.rule = ('Tracer.tla = Solver.tla with the TracerMixin appends; behaviours = Solver behaviours (slices core, vec, hook) x tracing on/off. '
                'TLC checks C17_Off, C17_Shape, C17_Unsolved and that every Tracer behaviour projects to a Solver behaviour (PROPERTY Spec). '
                'Each behaviour is run on a TracerMixin model and an untraced twin through solve_t / solve_period / solve with trace=True / list / '
                'single name; twins and spec must agree on every observable, the Trace must equal the spec segment, repeated solves append. '
                'Non-trivial = tracing on and at least one pass.')
    core.sany('TracerMC')
    n_all = 0
    for name, maxi in (('core', 2 if quick else 3), ('vec', 2), ('hook', 2), ('deep', 2000 if quick else 4000)):
        results = core.run_sharded('TracerMC', cfg_text(name, maxi), core.NCPU if name != 'deep' else 1, tag=f'C17-{name}',
                                   extra=['-coverage', '1'] if name != 'deep' else [], heap='2g' if name != 'deep' else '8g')
        recs, cov = [], {}
        for r in results:
            core.require_ok(r, f'Tracer slice {name}')
            recs += r.records
            for a, (d, t) in r.coverage.items():
                c = cov.setdefault(a, [0, 0]); c[0] += d; c[1] += t
        agg = core.TLCResult(rc=0, generated=sum(r.generated for r in results), distinct=sum(r.distinct for r in results),
                             depth=max(r.depth for r in results), coverage={a: cov.get(a, [0, 0]) for a in ACTIONS}, wall=max(r.wall for r in results))
        ctx.add_tlc(agg, f'Tracer slice {name} exhaustive + refinement of Solver (16 shards)', constants=f'MaxI={maxi} {sc.SLICES[name]}')
        if name != 'deep':
            core.require_coverage(agg, ACTIONS, f'Tracer slice {name}')
        vs = variants(quick) if name != 'deep' else [v for v in variants(quick) if v['repeat'] == 'same' and v['entry'] != 'solve_period']
        payloads = [{'records': ch, 'variants': vs, 'all_variants': (name in ('hook', 'deep')), 'seed': ctx.seed} for ch in core.chunks(recs, core.NCPU * 2)]
        outs = core.run_workers('harness.replay_tracer', payloads)
        ctx.evaluations += sum(o['n'] for o in outs)
        ctx.nontrivial += sum(o['nontrivial'] for o in outs)
        ctx.extra.setdefault('replayed', {})[name] = {'behaviours': len(recs), 'executions': sum(o['n'] for o in outs)}
        n_all += len(recs)
        for o in outs:
            for mm in o['mismatches']:
                ctx.mismatch(mm['key'], {'module': 'Tracer', 'direction': 'spec->code', **mm})
        for rec in [r for r in recs if r['tracing'] and len(r['hist']) == 2][:2]:
            ctx.sample({'cfg': rec['cfg'], 'hist': rec['hist'], 'trace_segment': rec['tr'], 'fin': rec['fin']})
    ctx.exhaustive = True
    ctx.assumptions += ['traced variables compared snapshot-by-snapshot are the check variables; other traced names are checked for presence/shape',
                        'the untraced twin is the same scripted class without the mixin']


def replay(data) -> int:
    out = core.run_workers('harness.replay_tracer', [{'records': [data['record']], 'variants': [data['variant']], 'all_variants': True}])[0]
    if out['mismatches']:
        print(json.dumps(out['mismatches'][0]['diffs']))
        print(f"VIOLATION property={data['property']} replay=<given file>")
        return 1
    print('replay: behaviour now agrees with the specification')
    return 0
