"""C18 - an alias is indistinguishable from the variable it names.

TLC decides C18_Shorten / C18_Twin / C18_NoStorage / C18_Ambiguous / C18_Export on spec/Alias.tla over all
alias maps within the bound x PREFERRED_NAMES subsets x operation histories, and emits terminal behaviours;
harness/replay_alias.py realises each of them on the real AliasMixin next to a canonical twin.
"""
from __future__ import annotations

import json
from concurrent.futures import ThreadPoolExecutor
from typing import Any, Dict, List, Sequence

from .. import core

INVARIANTS = ['TypeOK', 'C18_Shorten', 'C18_Twin', 'C18_NoStorage', 'C18_Ambiguous', 'C18_Export']
BUILD_ACTIONS = ['AddEntry', 'Seal', 'ChoosePref', 'DoConstruct', 'Export']
OP_ACTIONS = ['DoAttr', 'DoItem', 'DoLabel', 'DoSlice', 'DoReplace', 'DoRead', 'DoSolve']

ALPHABETS = {
    # name: (OpdsFull, OpdsLabel, OpdsSlice, OpdsRepl, Labels, Slices, ReadPaths)
    'full': ('DFull', 'DScal', 'DSlice', 'DRepl', 'Labs', 'Slcs', 'Paths'),
    'reduced': ('DFullS', 'DScal1', 'DSlice', 'DRepl1', 'Labs1', 'Slcs2', 'Paths'),
    'narrow': ('DOneL', 'DScal1', 'DOneL', 'DRepl1', 'Labs1', 'Slcs1', 'Paths2'),
}


def slice_cfg(p: Dict[str, Any], emit: bool = True) -> str:
    a = ALPHABETS[p.get('alphabet', 'full')]
    lines = ['SPECIFICATION Spec', 'CONSTANTS',
             f"  MaxV = {p['V']}", f"  MaxA = {p['A']}", f"  MaxE = {p['E']}", f"  MaxChain = {p.get('chain', 3)}",
             f"  MaxOps = {p['ops']}", f"  MaxCtor = {p['ctor']}", '  L = 3', f"  PrefMode = \"{p['pref']}\"",
             '  Kinds <- AllKinds', f'  OpdsFull <- {a[0]}', f'  OpdsLabel <- {a[1]}', f'  OpdsSlice <- {a[2]}',
             f'  OpdsRepl <- {a[3]}', f"  OpdsCtor <- {p.get('ctoropds', 'DCtor')}", f'  Labels <- {a[4]}', f'  Slices <- {a[5]}',
             f'  ReadPaths <- {a[6]}',
             '  Admit <- ' + ('AdmitShard' if p['ops'] == 0 and not p.get('sim') else 'AdmitAll'),
             '  AdmitOp <- ' + ('AdmitOpShard' if p['ops'] > 0 and not p.get('sim') else 'AdmitOpAll'),
             '  Shard = {shard}', '  NShards = {nshards}',
             f"  EmitMod = {p.get('emitmod', 1)}"]
    lines += [f'INVARIANT {i}' for i in INVARIANTS]
    if emit:
        lines.append('INVARIANT EmitInv')
    lines.append('CHECK_DEADLOCK FALSE')
    return '\n'.join(lines) + '\n'


def describe(p: Dict[str, Any]) -> str:
    return (f"variables<={p['V']} aliases<={p['A']} entries<={p['E']} chain<={p.get('chain', 3)} preferred={p['pref']} "
            f"history={p['ops']} ctor_keywords<={p['ctor']} alphabet={p.get('alphabet', 'full')} emit=1/{p.get('emitmod', 1)}")


def check_and_emit(ctx: core.Ctx, name: str, p: Dict[str, Any], timeout: int = 1500) -> List[Dict[str, Any]]:
    nsh = p.get('shards', core.NCPU)
    results = core.run_sharded('AliasMC', slice_cfg(p), nsh, tag=f'C18-{name}', timeout=timeout, extra=['-coverage', '1'])
    records: List[Dict[str, Any]] = []
    cov: Dict[str, List[int]] = {}
    for r in results:
        core.require_ok(r, f'Alias slice {name}')
        records += r.records
        for a, (d, t) in r.coverage.items():
            c = cov.setdefault(a, [0, 0])
            c[0] += d
            c[1] += t
    acts = BUILD_ACTIONS + (OP_ACTIONS if p['ops'] > 0 else [])
    agg = core.TLCResult(rc=0, generated=sum(r.generated for r in results), distinct=sum(r.distinct for r in results),
                         depth=max(r.depth for r in results), coverage={a: cov.get(a, [0, 0]) for a in acts},
                         wall=max(r.wall for r in results))
    ctx.add_tlc(agg, f'Alias slice {name} exhaustive ({nsh} shards)', constants=describe(p))
    core.require_coverage(agg, acts, f'Alias slice {name}')
    if not records:
        raise core.MachineryError(f'no behaviours emitted for Alias slice {name}')
    return dedupe(records)


def signature(rec: Dict[str, Any]) -> str:
    return json.dumps([rec['nv'], rec['amap'], rec['pref'], rec['ctor'], [h['op'] for h in rec['hist']]], sort_keys=True)


def dedupe(records: List[Dict[str, Any]]) -> List[Dict[str, Any]]:
    seen, out = set(), []
    for rec in records:
        sig = signature(rec)
        if sig not in seen:
            seen.add(sig)
            out.append(rec)
    return out


def simulate_and_emit(ctx: core.Ctx, name: str, p: Dict[str, Any], num: int) -> List[Dict[str, Any]]:
    tmpl = slice_cfg(p)

    def one(i: int):
        return core.run_tlc('AliasMC', tmpl.format(shard=0, nshards=1), workers=1, tag=f'C18-{name}-sim{i}',
                            simulate=f'num={max(1, num // njvm)}', depth=30, seed=ctx.seed * 1000 + i + 1, heap='2g')
    njvm = core.NCPU if num >= 8000 else max(1, core.NCPU // 2)
    with ThreadPoolExecutor(max_workers=core.NCPU) as ex:
        results = list(ex.map(one, range(njvm)))
    records: List[Dict[str, Any]] = []
    for r in results:
        core.require_ok(r, f'Alias simulation {name}')
        records += r.records
    import re
    gen = 0
    for r in results:  # simulation mode reports "N states checked"
        mm = re.findall(r'(\d+) states checked', open(r.log).read())
        gen += int(mm[-1]) if mm else 0
    ctx.add_tlc(core.TLCResult(rc=0, generated=gen, distinct=gen, depth=30, wall=max(r.wall for r in results)),
                f'Alias slice {name} -simulate num={num}', constants=describe(p) + f' seed={ctx.seed}')
    out = dedupe(records)
    if not out:
        raise core.MachineryError(f'no behaviours emitted by Alias simulation {name}')
    return out


def has_selfmap(rec: Dict[str, Any]) -> bool:
    return any(k == t for k, t in rec['amap'])


def run_replay(records: List[Dict[str, Any]], seed: int, confirmed: bool) -> List[Dict[str, Any]]:
    """Worker processes only; no bookkeeping (may run in a helper thread while TLC explores the next slice)."""
    payloads, off = [], 0
    for ch in core.chunks(records, core.NCPU):
        payloads.append({'records': ch, 'seed': seed, 'confirmed_nonterm': confirmed, 'offset': off})
        off += len(ch)
    return core.run_workers('harness.replay_alias', payloads)


def account(ctx: core.Ctx, what: str, records: List[Dict[str, Any]], outs: List[Dict[str, Any]]) -> Dict[str, int]:
    n = sum(o['n'] for o in outs)
    ctx.evaluations += n
    ctx.nontrivial += sum(o['nontrivial'] for o in outs)
    keys: Dict[str, int] = {}
    for o in outs:
        for k, v in o['keys'].items():
            keys[k] = keys.get(k, 0) + v
    ctx.extra.setdefault('replayed', {})[what] = {
        'behaviours': len(records), 'executions': n, 'operations': sum(o['ops'] for o in outs),
        'abandoned_after_nontermination': sum(o['skipped_nonterm'] for o in outs),
        'flavours': {f: sum(o['flavours'].get(f, 0) for o in outs) for f in ('hand', 'parsed')}, 'finding_keys': keys}
    for o in outs:
        for mm in o['mismatches']:
            ctx.mismatch(mm['key'], {'module': 'Alias', 'direction': 'spec->code', 'record': mm['record'], 'variant': mm['variant'],
                                     'index': mm['index'], 'seed': ctx.seed, 'diffs': mm['diffs'],
                                     'replay_cmd': f'./check {ctx.prop} --replay <this file>'})
    for rec in records[:: max(1, len(records) // 2)][:2]:
        ctx.sample({'behaviour': {k: rec[k] for k in ('amap', 'pref', 'short', 'ctor', 'export')} | {'ops': [h['op'] for h in rec['hist']]}})
    return keys


def run(ctx: core.Ctx) -> None:
    quick = ctx.tier == 'quick'
    ctx.level = 'model_checking'
    ctx.rule = ('Configurations = (number of model variables, ALIASES as an ordered dict incl. many-to-one, chains, self-maps, '
                'alias-of-alias in either dict order, PREFERRED_NAMES subset, constructor keywords) built entry by entry by TLC from '
                'Alias.tla; histories = sequences over {attribute set, item set, (name,label) set, (name,label-slice) set, replace_values, '
                'read by 4 paths, solve_t of an equation written through names} each addressed through every name of its target; slices '
                'maps/ctor/hist are exhaustive (a deterministic 1/EmitMod of the terminal behaviours of hist is replayed, all are '
                'model-checked), slice sim samples the full bound with -simulate.  Each behaviour is realised on class A(AliasMixin, Base) '
                'and a canonical twin; after every step the full projected state of both is compared with the store the spec expects. '
                'Non-trivial = some keyword/operation/column goes through an alias, or the constructor must reject, or the map has a self-map.')
    core.sany('AliasMC')
    if quick:
        slices = [('maps', dict(V=2, A=3, E=3, pref='all', ops=0, ctor=1, shards=8, emitmod=2)),
                  ('ops1', dict(V=2, A=3, E=3, pref='none', ops=1, ctor=0, alphabet='full', shards=8)),
                  ('hist', dict(V=2, A=2, E=2, pref='none', ops=2, ctor=0, alphabet='reduced', emitmod=8))]
        sim = dict(V=3, A=4, E=4, pref='le1', ops=3, ctor=2, alphabet='full', ctoropds='DCtorN', sim=True)
        nsim = 1600
    else:
        slices = [('maps', dict(V=3, A=4, E=4, pref='all', ops=0, ctor=0)),
                  ('ctor', dict(V=3, A=3, E=3, pref='le1', ops=0, ctor=2, ctoropds='DCtorN', emitmod=4)),
                  ('ops1', dict(V=3, A=4, E=4, pref='none', ops=1, ctor=0, alphabet='full', emitmod=16)),
                  ('hist2', dict(V=2, A=3, E=3, pref='none', ops=2, ctor=0, alphabet='reduced', emitmod=16)),
                  ('hist3', dict(V=2, A=2, E=2, pref='none', ops=3, ctor=0, alphabet='narrow', emitmod=32))]
        sim = dict(V=3, A=4, E=4, pref='le1', ops=4, ctor=2, alphabet='full', ctoropds='DCtorN', sim=True)
        nsim = 30000
    # Replays run in one helper thread, in order, while TLC explores the next slice.  Non-termination of the
    # constructor is established once, on one behaviour, under the full alarm and a second run; afterwards the
    # workers use a short alarm on the first self-map they meet and abandon the rest of the self-maps.
    state = {'confirmed': False}
    pool = ThreadPoolExecutor(max_workers=1)
    jobs = []

    def probe(cand):
        outs = run_replay(cand, ctx.seed, False)
        state['confirmed'] = any('alias-self-map-nontermination' in o['keys'] for o in outs)
        return outs

    def later(recs):
        return run_replay(recs, ctx.seed, state['confirmed'])

    probed = False
    try:
        for name, p in slices:
            recs = check_and_emit(ctx, name, p)
            if not probed:
                cand = [r for r in recs if has_selfmap(r) and r['ctor']['res'] == 'ok'][:1]
                if cand:
                    jobs.append(('nontermination-probe', cand, pool.submit(probe, cand)))
                    probed = True
            jobs.append((name, recs, pool.submit(later, recs)))
        recs = simulate_and_emit(ctx, 'sim', sim, nsim)
        jobs.append(('sim', recs, pool.submit(later, recs)))
        for what, recs, fut in jobs:
            account(ctx, what, recs, fut.result())
    finally:
        pool.shutdown(wait=True, cancel_futures=True)
    ctx.extra['constructor_nontermination_confirmed_twice'] = state['confirmed']
    ctx.exhaustive = False
    ctx.extra['exhaustive_slices'] = {n: describe(p) for n, p in slices}
    ctx.assumptions += [
        'alias names are distinct from variable names except for self-maps; aliases do not dangle and do not form cycles other than self-maps',
        'PREFERRED_NAMES is drawn from the variables and aliases of the model; its order is immaterial (varied in replay)',
        'ambiguous preferences are rejected by the constructor, so the export-time ValueError branch is unreachable through class attributes',
        'operand values are exactly representable floats; series dtype is float (dtype behaviour is C09)',
        'a constructor that does not return within 5 s twice (normal duration: microseconds) is taken as non-terminating',
        'TLC explores the stated slices completely; -simulate samples beyond them',
    ]


def replay(data) -> int:
    payload = {'records': [data['record']], 'seed': data.get('seed', 0), 'confirmed_nonterm': False, 'offset': data.get('index', 0)}
    out = core.run_workers('harness.replay_alias', [payload])[0]
    if out['mismatches']:
        print(json.dumps(out['mismatches'][0]['diffs'])[:3000])
        print(f"VIOLATION property={data['property']} replay=<given file>")
        return 1
    print('replay: behaviour now agrees with the specification')
    return 0
