"""C19 - tabular export and import are faithful round trips.

TLC decides C19_Shape / C19_RoundTrip / C19_Linker / C19_Symbols on spec/Tabular.tla over the model, linker and
symbol-list slices of TabularMC.tla and emits, per terminal behaviour, the table the export must produce and the
model / symbol list the import must give back; harness/replay_tabular.py realises each on the real code.
pandas' own dtype coercions are observed, not modelled (level: exploration).
"""
from __future__ import annotations

import json
from typing import Any, Dict, List

from .. import core

INVARIANTS = ['TypeOK', 'C19_Shape', 'C19_RoundTrip', 'C19_Linker', 'C19_Symbols']
ACTIONS = ['Skip', 'Solve', 'Export', 'Import', 'ExportLinker', 'SymbolTrip']


def slice_cfg(maxvars: int) -> str:
    lines = ['SPECIFICATION Spec', 'CONSTANTS', '  Models <- ModelsS', '  Linkers <- LinkersS', '  SymLists <- SymListsS',
             '  InternalNames <- Internal', '  Shard = {shard}', '  NShards = {nshards}', f'  MaxVars = {maxvars}']
    lines += [f'INVARIANT {i}' for i in INVARIANTS]
    lines += ['INVARIANT EmitInv', 'CHECK_DEADLOCK FALSE']
    return '\n'.join(lines) + '\n'


def pattern(s: Dict[str, Any]) -> str:
    return f"{s['type']}:" + ''.join('N' if s[f] == 999 else 'v' for f in ('name', 'lags', 'leads', 'equation', 'code'))


def run(ctx: core.Ctx) -> None:
    quick = ctx.tier == 'quick'
    ctx.level = 'exploration'
    ctx.rule = ('Cases enumerated by TLC from TabularMC.tla: models = class variables {Y,X} / {Y,X,_P} / {_P,Y,X} (Y = X + 1 built by the '
                'parser) followed by every ordered choice of extra run-time variables from {I:int, B:bool, S:str, _U:int, F:float with NaN} '
                'up to MaxVars variables x 7 span kinds x 2 initial Y x 2 X (one with NaN) x solved/unsolved x the 8 flag sets; '
                'linkers = own variables {G,_H}(+1 extra) with one submodel (7 span kinds) or two (range/list), submodels solved or not, '
                'x 8 flag sets; symbol lists = all lists of length <= 3 over the 9 shapes the parser produces (+ the empty list) and, '
                'decided by TLC only, every None-pattern of every Type (catalogue).  Each case is realised on the real code and the '
                'DataFrame / re-imported model / round-tripped symbol list compared with the table / model / list the spec emitted; the '
                'symbol lists of a 42-script corpus parsed by fsic.parse_model are round-tripped and compared shape-by-shape with the '
                'catalogue.  Non-trivial = model with extra or internal variables or solved; any linker; symbol list with a None field.')
    core.sany('TabularMC')
    maxvars = 4 if quick else 5
    results = core.run_sharded('TabularMC', slice_cfg(maxvars), core.NCPU, tag='C19-all', timeout=1500, extra=['-coverage', '1'])
    records: List[Dict[str, Any]] = []
    cov: Dict[str, List[int]] = {}
    for r in results:
        core.require_ok(r, 'Tabular slices')
        records += r.records
        for a, (d, t) in r.coverage.items():
            c = cov.setdefault(a, [0, 0])
            c[0] += d
            c[1] += t
    agg = core.TLCResult(rc=0, generated=sum(r.generated for r in results), distinct=sum(r.distinct for r in results),
                         depth=max(r.depth for r in results), coverage={a: cov.get(a, [0, 0]) for a in ACTIONS},
                         wall=max(r.wall for r in results))
    ctx.add_tlc(agg, f'Tabular slices models+linkers+symbols exhaustive ({core.NCPU} shards)', constants=f'MaxVars={maxvars} span length 3')
    core.require_coverage(agg, ACTIONS, 'Tabular slices')
    if not records:
        raise core.MachineryError('no behaviours emitted for Tabular')
    by_mode: Dict[str, int] = {}
    for rec in records:
        by_mode[rec['mode']] = by_mode.get(rec['mode'], 0) + 1
    if quick:
        # the linker slice is replayed in full only in the thorough tier (every record is model-checked in both)
        records = [r for i, r in enumerate(records) if r['mode'] != 'linker' or i % 4 == ctx.seed % 4]
    catalogue = {pattern(r['syms'][0]): pattern(r['back'][0]) for r in records if r['mode'] == 'symbols' and len(r['syms']) == 1}
    if len(catalogue) != 9 * 32:
        raise core.MachineryError(f'symbol shape catalogue incomplete: {len(catalogue)} of 288 patterns')
    chunks = core.chunks(records, core.NCPU * 2)
    payloads, off = [], 0
    for ch in chunks:
        payloads.append({'records': ch, 'offset': off})
        off += len(ch)
    payloads.append({'catalogue': catalogue})
    outs = core.run_workers('harness.replay_tabular', payloads)
    scripts = outs.pop()
    n = sum(o['n'] for o in outs) + scripts['n']
    ctx.evaluations += n
    ctx.nontrivial += sum(o['nontrivial'] for o in outs) + scripts['nontrivial']
    keys: Dict[str, int] = {}
    modes: Dict[str, int] = {}
    for o in outs + [scripts]:
        for k, v in o['keys'].items():
            keys[k] = keys.get(k, 0) + v
        for k, v in o.get('modes', {}).items():
            modes[k] = modes.get(k, 0) + v
    ctx.extra['emitted'] = by_mode
    ctx.extra['replayed'] = {'by_mode': modes, 'finding_keys': keys,
                             'script_corpus': {'scripts': scripts['lists'], 'symbols': scripts['symbols'], 'unparsed': scripts['unparsed'],
                                               'shapes_seen': scripts['patterns']}}
    for o in outs + [scripts]:
        for mm in o['mismatches']:
            ctx.mismatch(mm['key'], {'module': 'Tabular', 'direction': 'spec->code', 'record': mm['record'], 'index': mm.get('index', 0),
                                     'diffs': mm['diffs'], 'catalogue': catalogue if mm['record'].get('mode') == 'script' else None,
                                     'replay_cmd': f'./check {ctx.prop} --replay <this file>'})
    for mode in ('model', 'linker', 'symbols'):
        rs = [r for r in records if r['mode'] == mode and r.get('producible', True)]
        if rs:
            r = rs[len(rs) // 2]
            ctx.sample({mode: {k: r[k] for k in r if k not in ('m0', 'data')}})
    ctx.exhaustive = True
    ctx.assumptions += [
        'pandas dtype coercions are observed, not modelled: a text column may come back with any text-capable dtype (kind s)',
        'from_dataframe is applied to the data columns (status/iterations dropped) and reproduces the class-level variables; '
        'variables added at run time are not part of the class and are ignored by the constructor',
        'round trip of the span = equal labels in order; pandas time indexes must remain that kind of index',
        'two submodels on NumPy/pandas spans cannot be linked at all (BaseLinker.__init__ compares spans with !=), so two-submodel linkers use range/list spans',
        'symbol payload strings are compared by identity with the input; the None-pattern expected after the round trip is the one TLC emitted',
        'span length 3; value alphabet {0..7, NaN}, text cells of 1-2 characters',
    ]


def replay(data) -> int:
    rec = data['record']
    if rec.get('mode') == 'script':
        payload = {'catalogue': data['catalogue'], 'only_script': rec['script']}
    else:
        payload = {'records': [rec], 'offset': data.get('index', 0)}
    out = core.run_workers('harness.replay_tabular', [payload])[0]
    if out['mismatches']:
        print(json.dumps(out['mismatches'][0]['diffs'])[:3000])
        print(f"VIOLATION property={data['property']} replay=<given file>")
        return 1
    print('replay: behaviour now agrees with the specification')
    return 0
