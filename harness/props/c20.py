"""C20 - decided on Script.tla (see script_props.PLAN / RULES)."""
from .script_props import run_prop as run  # noqa: F401
from .script_common import replay_one as replay  # noqa: F401
