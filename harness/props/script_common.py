"""Shared machinery of the checks decided on Script.tla (C01, C03, C04, C14, C15, C20; generator for C07)."""
from __future__ import annotations

import json
from typing import Any, Dict, List, Sequence

from .. import core

INV = ['TypeOK', 'C03_Partition', 'C03_FirstAppearance', 'C03_Extremes', 'C03_RangeIsFeasibleSet', 'C04_ReadsInside',
       'C01_GaussSeidel', 'C01_WritesOnlyLHS', 'C20_DepsAreReads', 'C13_OneBlockEach']
ACTIONS = ['DoPushVar', 'DoPushNum', 'DoUnary', 'DoBinary', 'Ternary', 'DoClose', 'DoVerbatim', 'Finish']

LAYERS: Dict[str, Dict[str, Any]] = {
    # index / kind rendering of a single term
    'term': dict(MaxStmts=1, MaxLeaves=1, MaxNodes=1, MaxNames=2, Kinds='AllKinds', Idxs='TermIdxs', LhsIdxs='Lhs01', Nums='NoStr',
                 BinOps='NoStr', CmpOps='NoStr', Funcs1='NoStr', Funcs2='NoStr', UseNeg='FALSE', UseParen='FALSE', UseCond='FALSE'),
    # every operator and call around every kind of leaf
    'pair': dict(MaxStmts=1, MaxLeaves=2, MaxNodes=4, MaxNames=3, Kinds='AllKinds', Idxs='PairIdxs', LhsIdxs='Lhs0', Nums='PairNums',
                 BinOps='ArithOps', CmpOps='PairCmps', Funcs1='PairF1', Funcs2='PairF2', UseNeg='TRUE', UseParen='FALSE', UseCond='FALSE'),
    'pair_small': dict(MaxStmts=1, MaxLeaves=2, MaxNodes=3, MaxNames=2, Kinds='AllKinds', Idxs='PairIdxs', LhsIdxs='Lhs0', Nums='PairNums',
                       BinOps='ArithOps', CmpOps='PairCmps', Funcs1='PairF1', Funcs2='PairF2', UseNeg='TRUE', UseParen='FALSE', UseCond='FALSE'),
    # precedence, associativity, parentheses, unary minus, ** chains, conditionals
    'shape3': dict(MaxStmts=1, MaxLeaves=3, MaxNodes=6, MaxNames=2, Kinds='VOnly', Idxs='ShapeIdxs', LhsIdxs='Lhs0', Nums='NoStr',
                   BinOps='ShapeOps', CmpOps='LtOnly', Funcs1='NoStr', Funcs2='MaxOnly', UseNeg='TRUE', UseParen='TRUE', UseCond='TRUE'),
    # verbatim fragments between backticks (copied into the code untouched, inner blanks and quotes included)
    'verb': dict(MaxStmts=1, MaxLeaves=2, MaxNodes=3, MaxNames=2, Kinds='VOnly', Idxs='ShapeIdxs', LhsIdxs='Lhs0', Nums='NoStr', Verbs='VerbSet',
                 BinOps='PlusOnly', CmpOps='NoStr', Funcs1='NoStr', Funcs2='MaxOnly', UseNeg='TRUE', UseParen='TRUE', UseCond='FALSE'),
    # verbatim statements (a backticked line, a fenced block) before, between and after the equations
    'vstmt': dict(MaxStmts=2, MaxLeaves=1, MaxNodes=1, MaxNames=3, Kinds='VOnly', Idxs='ShapeIdxs', LhsIdxs='Lhs0', Nums='NoStr',
                  BinOps='NoStr', CmpOps='NoStr', Funcs1='NoStr', Funcs2='NoStr', UseNeg='FALSE', UseParen='FALSE', UseCond='FALSE',
                  MaxVerbatim=2, VForms='SameForms', NoReject='TRUE'),
    # functions in a user namespace that share their last name component with the functions fsic replaces
    'nsfunc': dict(NoReject='TRUE', MaxStmts=1, MaxLeaves=2, MaxNodes=4, MaxNames=2, Kinds='VOnly', Idxs='ShapeIdxs', LhsIdxs='Lhs0', Nums='NoStr',
                   BinOps='PlusOnly', CmpOps='NoStr', Funcs1='NsF1', Funcs2='NsF2', UseNeg='FALSE', UseParen='FALSE', UseCond='FALSE'),
    # several verbatim fragments in one equation with ordinary terms between them
    'verb3': dict(NoReject='TRUE', MaxStmts=1, MaxLeaves=3, MaxNodes=5, MaxNames=2, Kinds='VOnly', Idxs='ShapeIdxs', LhsIdxs='Lhs0', Nums='NoStr', Verbs='VerbSet',
                  BinOps='PlusOnly', CmpOps='NoStr', Funcs1='NoStr', Funcs2='NoStr', UseNeg='FALSE', UseParen='FALSE', UseCond='FALSE'),
    # numeric literals in unusual but legal spellings (very small / very large, no digit before or after the point, leading zeros)
    'nums': dict(NoReject='TRUE', MaxStmts=1, MaxLeaves=2, MaxNodes=3, MaxNames=1, Kinds='VOnly', Idxs='Lhs0', LhsIdxs='Lhs0', Nums='OddNums',
                 BinOps='PlusOnly', CmpOps='NoStr', Funcs1='NoStr', Funcs2='NoStr', UseNeg='TRUE', UseParen='FALSE', UseCond='FALSE'),
    # boolean keywords (and / or / not) around comparisons
    'bool': dict(MaxStmts=1, MaxLeaves=3, MaxNodes=6, MaxNames=2, Kinds='VOnly', Idxs='Lhs0', LhsIdxs='Lhs0', Nums='NoStr',
                 BinOps='PlusOnly', CmpOps='LtOnly', Funcs1='NoStr', Funcs2='NoStr', UseNeg='FALSE', UseParen='FALSE', UseCond='TRUE',
                 BoolOps='AndOr', UseNot='TRUE'),
    'shape3_small': dict(MaxStmts=1, MaxLeaves=3, MaxNodes=5, MaxNames=1, Kinds='VOnly', Idxs='Lhs0', LhsIdxs='Lhs0', Nums='NoStr',
                         BinOps='ShapeOps', CmpOps='LtOnly', Funcs1='NoStr', Funcs2='MaxOnly', UseNeg='TRUE', UseParen='TRUE', UseCond='TRUE'),
    'shape4': dict(MaxStmts=1, MaxLeaves=4, MaxNodes=8, MaxNames=1, Kinds='VOnly', Idxs='Lhs0', LhsIdxs='Lhs0', Nums='NoStr',
                   BinOps='ShapeOps', CmpOps='NoStr', Funcs1='NoStr', Funcs2='NoStr', UseNeg='TRUE', UseParen='FALSE', UseCond='TRUE'),
    # symbol merging, first-appearance order, type promotion, lags then leads, double definitions, clashes
    'merge2': dict(MaxStmts=2, MaxLeaves=1, MaxNodes=1, MaxNames=3, Kinds='AllKinds', Idxs='MergeIdxs', LhsIdxs='Lhs0', Nums='NoStr',
                   BinOps='NoStr', CmpOps='NoStr', Funcs1='NoStr', Funcs2='NoStr', UseNeg='FALSE', UseParen='FALSE', UseCond='FALSE'),
    'merge2_small': dict(MaxStmts=2, MaxLeaves=1, MaxNodes=1, MaxNames=3, Kinds='AllKinds', Idxs='ShapeIdxs', LhsIdxs='Lhs0', Nums='NoStr',
                         BinOps='NoStr', CmpOps='NoStr', Funcs1='NoStr', Funcs2='NoStr', UseNeg='FALSE', UseParen='FALSE', UseCond='FALSE'),
    'merge3': dict(MaxStmts=3, MaxLeaves=1, MaxNodes=1, MaxNames=2, Kinds='AllKinds', Idxs='ShapeIdxs', LhsIdxs='Lhs0', Nums='NoStr',
                   BinOps='NoStr', CmpOps='NoStr', Funcs1='NoStr', Funcs2='NoStr', UseNeg='FALSE', UseParen='FALSE', UseCond='FALSE'),
    # long scripts (many statements / names / mentions), sampled
    'sim_long': dict(NoReject='TRUE', MaxStmts=8, MaxLeaves=8, MaxNodes=16, MaxNames=14, Kinds='AllKinds', Idxs='SimIdxs', LhsIdxs='Lhs01', Nums='SimNums',
                     BinOps='ArithOps', CmpOps='PairCmps', Funcs1='PairF1', Funcs2='PairF2', UseNeg='TRUE', UseParen='TRUE', UseCond='TRUE',
                     BoolOps='AndOr', UseNot='TRUE'),
    'sim_long_kinds': dict(NoReject='TRUE', MaxStmts=6, MaxLeaves=6, MaxNodes=12, MaxNames=14, Kinds='AllKinds', Idxs='SimIdxs', LhsIdxs='Lhs0', Nums='PairNums',
                           BinOps='ArithOps', CmpOps='NoStr', Funcs1='NoStr', Funcs2='NoStr', UseNeg='TRUE', UseParen='FALSE', UseCond='FALSE'),
    'fortran_sim_long': dict(NoReject='TRUE', MaxStmts=8, MaxLeaves=10, MaxNodes=20, MaxNames=14, Kinds='AllKinds', Idxs='FortIdxs', LhsIdxs='Lhs0', Nums='FortNums',
                             BinOps='ArithOps', CmpOps='NoStr', Funcs1='FortF1', Funcs2='PairF2', UseNeg='TRUE', UseParen='TRUE', UseCond='FALSE'),
    # the expression subset common to the Python and Fortran back-ends
    'fortran': dict(MaxStmts=1, MaxLeaves=2, MaxNodes=4, MaxNames=3, Kinds='AllKinds', Idxs='FortIdxs', LhsIdxs='Lhs0', Nums='FortNums',
                    BinOps='ArithOps', CmpOps='NoStr', Funcs1='FortF1', Funcs2='PairF2', UseNeg='TRUE', UseParen='TRUE', UseCond='FALSE'),
    # powers of signed, parenthesised literals and variables: (-0.5) ** 2, (-X) ** 3, -(X ** 2), X ** -2 ...
    'fortran_pow': dict(NoReject='TRUE', MaxStmts=1, MaxLeaves=2, MaxNodes=5, MaxNames=2, Kinds='VOnly', Idxs='Lhs0', LhsIdxs='Lhs0', Nums='PowNums',
                        BinOps='PowOnly', CmpOps='NoStr', Funcs1='NoStr', Funcs2='NoStr', UseNeg='TRUE', UseParen='TRUE', UseCond='FALSE'),
    # ... and exponents that are themselves quotients of literals: X ** (1 / 2), 2 ** (X / 2)
    'fortran_pow3': dict(NoReject='TRUE', MaxStmts=1, MaxLeaves=3, MaxNodes=6, MaxNames=2, Kinds='VOnly', Idxs='Lhs0', LhsIdxs='Lhs0', Nums='PowInts',
                         BinOps='PowDiv', CmpOps='NoStr', Funcs1='NoStr', Funcs2='NoStr', UseNeg='FALSE', UseParen='TRUE', UseCond='FALSE'),
    # a negated operand after another operator, with a power: A * -X ** 2, -X ** 2 * A, X ** -2 ...
    'fortran_negpow': dict(NoReject='TRUE', MaxStmts=1, MaxLeaves=3, MaxNodes=6, MaxNames=2, Kinds='VOnly', Idxs='Lhs0', LhsIdxs='Lhs0', Nums='TwoOnly',
                           BinOps='PowMul', CmpOps='NoStr', Funcs1='NoStr', Funcs2='NoStr', UseNeg='TRUE', UseParen='FALSE', UseCond='FALSE'),
    'fortran_small': dict(MaxStmts=1, MaxLeaves=2, MaxNodes=3, MaxNames=2, Kinds='AllKinds', Idxs='FortIdxs', LhsIdxs='Lhs0', Nums='FortNums',
                          BinOps='ArithOps', CmpOps='NoStr', Funcs1='FortF1', Funcs2='PairF2', UseNeg='TRUE', UseParen='FALSE', UseCond='FALSE'),
    'fortran_sim': dict(MaxStmts=4, MaxLeaves=5, MaxNodes=10, MaxNames=5, Kinds='AllKinds', Idxs='FortIdxs', LhsIdxs='Lhs0', Nums='FortNums',
                        BinOps='ArithOps', CmpOps='NoStr', Funcs1='FortF1', Funcs2='PairF2', UseNeg='TRUE', UseParen='TRUE', UseCond='FALSE'),
    # everything, sampled
    'sim': dict(MaxStmts=5, MaxLeaves=5, MaxNodes=10, MaxNames=5, Kinds='VOnly', Idxs='SimIdxs', LhsIdxs='Lhs01', Nums='SimNums',
                BinOps='ArithOps', CmpOps='AllCmps', Funcs1='PairF1', Funcs2='PairF2', UseNeg='TRUE', UseParen='TRUE', UseCond='TRUE',
                BoolOps='AndOr', UseNot='TRUE'),
}


def layer_cfg(layer: str, invariants: Sequence[str], emit: bool = True) -> str:
    c = LAYERS[layer]
    lines = ['SPECIFICATION Spec', 'CONSTANTS']
    for k in ('MaxStmts', 'MaxLeaves', 'MaxNodes', 'MaxNames'):
        lines.append(f'  {k} = {c[k]}')
    for k in ('Kinds', 'Idxs', 'LhsIdxs', 'Nums', 'BinOps', 'CmpOps', 'Funcs1', 'Funcs2'):
        lines.append(f'  {k} <- {c[k]}')
    lines.append(f"  BoolOps <- {c.get('BoolOps', 'NoStr')}")
    lines.append(f"  Verbs <- {c.get('Verbs', 'NoStr')}")
    lines.append(f"  MaxVerbatim = {c.get('MaxVerbatim', 0)}")
    lines.append(f"  VForms <- {c.get('VForms', 'NoForms')}")
    lines.append(f"  UseNot = {c.get('UseNot', 'FALSE')}")
    lines.append(f"  NoReject = {c.get('NoReject', 'FALSE')}")
    for k in ('UseNeg', 'UseParen', 'UseCond'):
        lines.append(f'  {k} = {c[k]}')
    lines += ['  Shard = {shard}', '  NShards = {nshards}', 'CONSTRAINT ShardC']
    lines += [f'INVARIANT {i}' for i in invariants]
    if emit:
        lines.append('INVARIANT EmitInv')
    lines.append('CHECK_DEADLOCK FALSE')
    return '\n'.join(lines) + '\n'


SMALL_LAYERS = {'nums': 2, 'fortran_negpow': 4, 'fortran_pow3': 4, 'nsfunc': 2, 'verb3': 4, 'fortran_pow': 2, 'vstmt': 4, 'verb': 2, 'bool': 8, 'term': 2, 'merge2_small': 4, 'shape3_small': 8, 'fortran_small': 8, 'pair_small': 8, 'merge3': 8, 'merge2': 8}


def emit_layer(ctx: core.Ctx, layer: str, *, timeout: int = 3600) -> List[Dict[str, Any]]:
    results = core.run_sharded('ScriptMC', layer_cfg(layer, INV), SMALL_LAYERS.get(layer, core.NCPU), tag=f'{ctx.prop}-{layer}', timeout=timeout,
                               heap='3g')
    recs, cov = [], {}
    for r in results:
        core.require_ok(r, f'Script layer {layer}')
        recs += r.records
        for a, (d, t) in r.coverage.items():
            c = cov.setdefault(a, [0, 0]); c[0] += d; c[1] += t
    agg = core.TLCResult(rc=0, generated=sum(r.generated for r in results), distinct=sum(r.distinct for r in results),
                         depth=max(r.depth for r in results), coverage={a: cov.get(a, [0, 0]) for a in ACTIONS}, wall=max(r.wall for r in results))
    ctx.add_tlc(agg, f'Script layer {layer} exhaustive (16 shards)', constants=json.dumps(LAYERS[layer]))
    if not recs:
        raise core.MachineryError(f'Script layer {layer} emitted no program (vacuous)')
    # programs whose first statement has a single-token right-hand side are seen by every shard: keep one copy
    seen, out = set(), []
    for rec in recs:
        sig = json.dumps([rec['stmts'], rec.get('verbat', [])], sort_keys=True)
        if sig not in seen:
            seen.add(sig)
            out.append(rec)
    return out


def simulate_layer(ctx: core.Ctx, layer: str, num: int, depth: int = 240, invariants: Sequence[str] = INV) -> List[Dict[str, Any]]:
    from concurrent.futures import ThreadPoolExecutor
    tmpl = layer_cfg(layer, invariants)

    def one(i: int):
        return core.run_tlc('ScriptMC', tmpl.format(shard=0, nshards=1), workers=1, tag=f'{ctx.prop}-{layer}-sim{i}',
                            simulate=f'num={max(1, num // core.NCPU)}', depth=depth, seed=ctx.seed * 1000 + i + 1, heap='2g')
    with ThreadPoolExecutor(max_workers=core.NCPU) as ex:
        results = list(ex.map(one, range(core.NCPU)))
    recs = []
    for r in results:
        core.require_ok(r, f'Script simulation {layer}')
        recs += r.records
    agg = core.TLCResult(rc=0, generated=sum(r.generated for r in results), distinct=sum(r.generated for r in results), depth=depth,
                         wall=max(r.wall for r in results))
    ctx.add_tlc(agg, f'Script layer {layer} -simulate num={num}', constants=f'seed={ctx.seed}')
    seen, out = set(), []
    for rec in recs:
        sig = json.dumps([rec['stmts'], rec.get('verbat', [])], sort_keys=True)
        if sig not in seen:
            seen.add(sig)
            out.append(rec)
    return out


def compose_long(pool: List[Dict[str, Any]], seed: int, count: int, max_names: int = 14) -> List[List[Dict[str, Any]]]:
    """Long scripts composed of statements the stack machine generated: 4-10 statements, names drawn from a pool of
    `max_names` ids so that variables are shared, repeated and defined after use.  Mostly acceptable programs (kinds are
    kept consistent, left-hand sides mostly distinct), a few deliberately not."""
    import random
    rng = random.Random(seed * 7919 + 13)
    stmts_pool = [st for r in pool for st in r['stmts']]
    out = []
    for _ in range(count):
        m = rng.randint(4, 10)
        kind_of: Dict[int, str] = {}
        defined = set()
        prog = []
        sloppy = rng.random() < 0.1          # now and then allow clashes / second definitions
        for _j in range(m):
            st = rng.choice(stmts_pool)
            local: Dict[int, int] = {}

            def g(n, kind):
                if n not in local:
                    cands = [x for x in range(1, max_names + 1) if sloppy or kind_of.get(x, kind) == kind]
                    local[n] = rng.choice(cands) if cands else rng.randint(1, max_names)
                    kind_of.setdefault(local[n], kind)
                return local[n]
            lhs_free = [x for x in range(1, max_names + 1) if (sloppy or (x not in defined and kind_of.get(x, 'v') == 'v'))]
            if not lhs_free:
                break
            lhs_id = rng.choice(lhs_free)
            local[st['lhs']['n']] = lhs_id
            kind_of.setdefault(lhs_id, 'v')
            defined.add(lhs_id)
            rhs = []
            for tk in st['rhs']:
                if tk['t'] == 'var':
                    if tk['n'] == st['lhs']['n'] and tk['s'] != 'v' and not sloppy:
                        tk = dict(tk, s='v')
                    rhs.append(dict(tk, n=g(tk['n'], tk['s'])))
                else:
                    rhs.append(dict(tk))
            prog.append({'lhs': dict(st['lhs'], n=lhs_id), 'rhs': rhs})
        if len(prog) >= 3:
            out.append(prog)
    return out


def judge_programs(ctx: core.Ctx, programs: List[List[Dict[str, Any]]], tag: str, invariants: Sequence[str] = INV) -> List[Dict[str, Any]]:
    """Reference semantics for harness-composed programs, computed and checked by TLC (ScriptJudge.tla)."""
    if not programs:
        return []
    path = core.subdir('judge') / f'{ctx.prop}-{tag}.json'
    # a program is a list of statements, or {'stmts': [...], 'verbat': [...]} when verbatim statements are interleaved
    programs = [p if isinstance(p, dict) else {'stmts': p, 'verbat': []} for p in programs]
    path.write_text(json.dumps(programs))
    cfg = ['INIT JInit', 'NEXT JNext', 'CONSTANTS', '  MaxStmts = 40', '  MaxLeaves = 40', '  MaxNodes = 200', '  MaxNames = 40',
           '  Kinds <- AllKinds', '  Idxs <- TermIdxs', '  LhsIdxs <- Lhs01', '  Nums <- NoStr', '  BinOps <- NoStr', '  CmpOps <- NoStr',
           '  BoolOps <- NoStr', '  Verbs <- NoStr', '  MaxVerbatim = 40', '  VForms <- BothForms', '  Funcs1 <- NoStr', '  Funcs2 <- NoStr', '  UseNeg = FALSE', '  UseParen = FALSE', '  UseCond = FALSE',
           '  UseNot = FALSE', '  NoReject = FALSE', '  Shard = {shard}', '  NShards = {nshards}']
    cfg += [f'INVARIANT {i}' for i in invariants if i != 'TypeOK'] + ['INVARIANT JTypeOK', 'INVARIANT EmitInv', 'CHECK_DEADLOCK FALSE']
    results = core.run_sharded('ScriptJudge', '\n'.join(cfg) + '\n', core.NCPU, tag=f'{ctx.prop}-judge-{tag}', heap='2g',
                               env={'PROGRAMS_FILE': str(path)})
    recs = []
    for i, r in enumerate(results):
        core.require_ok(r, f'ScriptJudge {tag}')
        recs += r.records
    agg = core.TLCResult(rc=0, generated=sum(r.generated for r in results), distinct=sum(r.distinct for r in results), depth=1,
                         wall=max(r.wall for r in results))
    ctx.add_tlc(agg, f'ScriptJudge: {len(programs)} composed long programs judged ({tag})', constants='4-10 statements, <= 14 names')
    if len(recs) != len({json.dumps(p, sort_keys=True) for p in programs}):
        raise core.MachineryError(f'ScriptJudge returned {len(recs)} records for {len(programs)} programs')
    return recs


def replay(ctx: core.Ctx, recs: List[Dict[str, Any]], *, checks: Sequence[str], namemaps: Sequence[str], what: str,
           layouts: Sequence[str] = ('canon',), key_prefix: str = '') -> None:
    if not recs:
        raise core.MachineryError(f'no programs emitted for {what}')
    semantic_layouts = ['wide', 'space_after_sign', 'plus', 'explicit0', 'compact'] if {'c01', 'c03'} & set(checks) else []
    payloads = [{'records': ch, 'checks': list(checks), 'namemaps': list(namemaps), 'layouts': list(layouts), 'seed': ctx.seed, 'tier': ctx.tier,
                 'semantic_layouts': semantic_layouts}
                for ch in core.chunks(recs, core.NCPU * 3)]
    outs = core.run_workers('harness.replay_script', payloads)
    ctx.evaluations += sum(o['n'] for o in outs)
    ctx.nontrivial += sum(o['nontrivial'] for o in outs)
    ctx.extra.setdefault('replayed', {})[what] = {'programs': sum(o['distinct'] for o in outs), 'accepted_programs': sum(o['nontrivial'] for o in outs),
                                                  'executions': sum(o['n'] for o in outs), 'namemaps': list(namemaps)}
    for o in outs:
        for mm in o['mismatches']:
            ctx.mismatch(mm['key'], {'module': 'Script', 'direction': 'spec->code', 'checks': list(checks), 'namemaps': list(namemaps),
                                     'layouts': list(layouts), **mm})
    for rec in recs[:: max(1, len(recs) // 2)][:2]:
        ctx.sample({'stmts': rec['stmts'], 'names': rec['names'], 'lags': rec['lags'], 'leads': rec['leads'], 'events': rec['events']})


def replay_one(data) -> int:
    if data.get('engine') == 'fortran':
        out = core.run_workers('harness.replay_fortran', [{'records': [data['record']], 'workdir': str(core.subdir('fortran-frame')), 'seed': 0, 'base': 0,
                                                           'namemap': 'plain', 'mode': 'frame'}])[0]
        if out['mismatches']:
            print(json.dumps(out['mismatches'][0]['key']))
            print(f"VIOLATION property={data['property']} replay=<given file>")
            return 1
        print('replay: the Fortran engine now leaves everything else untouched')
        return 0
    payload = {'records': [data['record']], 'checks': data['checks'], 'namemaps': data['namemaps'], 'layouts': data.get('layouts', ['canon']), 'seed': 0}
    out = core.run_workers('harness.replay_script', [payload])[0]
    if out['mismatches']:
        print(json.dumps(out['mismatches'][0]['key']))
        print(f"VIOLATION property={data['property']} replay=<given file>")
        return 1
    print('replay: program now agrees with the specification')
    return 0
