"""Thin per-property drivers over script_common (C01, C03, C04, C14, C15, C20)."""
from __future__ import annotations

from .. import core
from .. import script_render as R
from . import script_common as sc

PLAN = {
    # prop: (level, checks, quick layers, thorough layers, namemaps quick, namemaps thorough, layouts, sim quick, sim thorough)
    'C01': ('translation_validation', ['c01'], ['term', 'pair_small', 'shape3_small', 'bool', 'verb', 'verb3', 'nsfunc', 'nums', 'vstmt', 'merge2_small'], ['term', 'pair', 'shape3', 'shape4', 'bool', 'verb', 'verb3', 'nsfunc', 'nums', 'vstmt', 'merge2', 'merge3'],
            ['plain', 'adversarial', 'funcnames'], ['plain', 'adversarial', 'adversarial2', 'funcnames', 'long'], ['canon'], 600, 20000),
    'C03': ('model_checking', ['c03'], ['term', 'pair_small', 'vstmt', 'merge2'], ['term', 'pair', 'vstmt', 'merge2', 'merge3', 'shape3'],
            ['plain', 'adversarial2', 'funcnames', 'attrnames'], ['plain', 'adversarial', 'adversarial2', 'funcnames', 'attrnames', 'long'], ['canon'], 600, 20000),
    'C04': ('model_checking', ['c04'], ['term', 'pair_small', 'merge2_small'], ['term', 'pair', 'merge2', 'merge3'],
            ['plain'], ['plain', 'adversarial'], ['canon'], 300, 10000),
    'C14': ('translation_validation', ['c14'], ['term', 'pair_small', 'shape3_small', 'bool', 'verb', 'nums', 'vstmt', 'merge2_small'], ['term', 'pair', 'shape3', 'bool', 'verb', 'nums', 'vstmt', 'merge2', 'merge3'],
            ['plain', 'adversarial'], ['plain', 'adversarial', 'adversarial2'], R.C14_LAYOUTS, 300, 10000),
    'C15': ('translation_validation', ['c15'], ['term', 'pair_small', 'verb', 'nsfunc', 'vstmt', 'merge2_small'], ['term', 'pair', 'shape3', 'verb', 'nsfunc', 'vstmt', 'merge2'],
            ['plain'], ['plain', 'adversarial'], ['canon'], 200, 5000),
    'C20': ('model_checking', ['c20'], ['term', 'pair_small', 'shape3_small', 'bool', 'verb3', 'nsfunc', 'merge2_small'], ['term', 'pair', 'shape3', 'bool', 'verb3', 'nsfunc', 'merge2', 'merge3'],
            ['plain'], ['plain', 'adversarial'], ['canon'], 300, 10000),
}

RULES = {
    'C01': 'Programs = every script the Script.tla stack machine builds within each layer\'s bounds (exhaustive per layer; -simulate over the full alphabet beyond). Each accepted program is rendered under several name maps, parsed and built by fsic, and its generated _evaluate is executed on recording arrays for every feasible period and three data tables; the event sequence (reads with raw index and cell version, writes with term tree and value, branch decisions) must equal the reference interpretation of the spec tree, and the specification\'s own Gauss-Seidel event list (evaluation order, versions seen by each read) must match; the normalised equation text must parse to the spec tree. Non-trivial = accepted program.',
    'C03': 'Programs as C01. For each: parse_model symbol list (name, type, lags, leads) in order = spec NameSeq/TypeOf/LagOf/LeadOf; rejected programs must raise SymbolError/ParserError; class lists, NAMES, LAGS, LEADS = spec; eight lags/leads/min_lags/min_leads option sets = WithOpt; default range (iter_periods and solve) = DefaultRange(L), which TLC proves equal to the feasible set. Non-trivial = accepted program.',
    'C04': 'Programs as C01. For each accepted program, every span length LAGS+LEADS+1..+2, every period in both spellings, through solve_t and solve(start=end): feasible periods may change only the cells the equations assign plus status/iterations at t, and every array access made by the generated code addresses the intended in-span position; infeasible periods must be rejected with no change.',
    'C14': 'Programs as C01, each rendered under every layout of the catalogue (compact, wide, tabs, comments and blank lines, multi-line parenthesised, explicit [0], explicit +, full parentheses, space before [, space after the index sign): symbols and code AST must equal the canonical layout\'s; script = merge of single-statement parses; permutation only permutes; normal form is a fixed point.',
    'C15': 'Programs as C01 x four lags/leads option sets x with/without type hints x {build_model, exec of definition text, exec of CODE} x converters {default, identity, wrapping}: class attributes = spec, evaluation events pairwise equal, converter called once per equation-bearing symbol in order with its output inserted verbatim.',
    'C20': 'Programs as C01. Graph edges among variable-like nodes = spec Deps (which TLC proves equal to the right-hand-side reads); nodes carry their normalised equation; reads observed while evaluating each equation alone = its edges; perturbing any (series, offset) without an edge leaves the result unchanged.',
}


def run_prop(ctx: core.Ctx) -> None:
    level, checks, ql, tl, qn, tn, layouts, qs, ts_ = PLAN[ctx.prop]
    quick = ctx.tier == 'quick'
    ctx.level = level
    ctx.rule = RULES[ctx.prop]
    core.sany('ScriptMC')
    total = 0
    pool = []
    for layer in (ql if quick else tl):
        recs = sc.emit_layer(ctx, layer)
        total += len(recs)
        if layer.startswith(('pair', 'shape', 'bool', 'term')):
            pool += [r for r in recs if r['reject'] == 'none'][:: max(1, len(recs) // 400)]
        sc.replay(ctx, recs, checks=checks, namemaps=(qn if quick else tn), what=layer, layouts=layouts)
    sim = sc.simulate_layer(ctx, 'sim', qs if quick else ts_)
    total += len(sim)
    sc.replay(ctx, sim, checks=checks, namemaps=(qn if quick else tn)[:2], what='sim', layouts=layouts)
    # long scripts: 4-10 statements over up to 14 shared names, composed from the statements generated above and judged
    # by the specification itself (ScriptJudge.tla: semantics + theorems evaluated on every composed program)
    progs = sc.compose_long(pool, ctx.seed, 150 if quick else 4000)
    seen_p, uniq = set(), []
    for pr in progs:
        k_ = __import__('json').dumps(pr, sort_keys=True)
        if k_ not in seen_p:
            seen_p.add(k_)
            uniq.append(pr)
    uniq.append([])      # the empty script: a valid model with no variables at all
    long_ = sc.judge_programs(ctx, uniq, 'long')
    total += len(long_)
    sc.replay(ctx, long_, checks=checks, namemaps=(qn if quick else tn)[:2], what='composed-long', layouts=layouts)
    if ctx.prop == 'C04':
        # "both engines where available": the same frame condition on the Fortran engine (gfortran + the ctypes stand-in of C07),
        # with non-finite inputs and every errors= policy, on a sample of the programs of the common expression subset
        import random as _random
        frecs = [r for r in sc.emit_layer(ctx, 'fortran_small') if r['reject'] == 'none']
        _random.Random(ctx.seed).shuffle(frecs)
        frecs = frecs[: (96 if quick else 1200)]
        workdir = str(core.subdir('fortran-frame'))
        outs = core.run_workers('harness.replay_fortran', [{'records': ch, 'workdir': workdir, 'seed': ctx.seed, 'base': i * 100000, 'namemap': 'plain',
                                                            'mode': 'frame'} for i, ch in enumerate(core.chunks(frecs, core.NCPU))])
        ctx.evaluations += sum(o['n'] for o in outs)
        ctx.extra.setdefault('replayed', {})['fortran-engine-frame'] = {'programs': sum(o['distinct'] for o in outs), 'executions': sum(o['n'] for o in outs)}
        if sum(o['n'] for o in outs) == 0:
            raise core.MachineryError('no program was compiled for the Fortran-engine frame check (is gfortran available?)')
        for o in outs:
            for mm in o['mismatches']:
                ctx.mismatch(mm['key'], {'module': 'Script', 'direction': 'spec->code', 'engine': 'fortran', **mm})
    ctx.exhaustive = False
    ctx.extra['programs'] = total
    ctx.extra['disagreements_checked'] = sum(ctx._violation_keys.values()) + sum(ctx.known_seen.values())
    ctx.extra['exhaustive_layers'] = {l: sc.LAYERS[l] for l in (ql if quick else tl)}
    ctx.assumptions += ['the renderer (postfix -> text) is trusted; it is cross-checked on every program: Python\'s own ast of the plain rendering must equal the spec tree',
                        'the reference interpreter applies Python/NumPy operators to the spec tree (the property defines values as Python/NumPy float arithmetic)',
                        'named-period indexes are exercised with backticked integer labels only']
