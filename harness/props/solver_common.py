"""Shared machinery of the checks that are decided on Solver.tla (C02, C06, and the
solver part of C04/C17): sharded model checking + emission, replay into the real
code, trace recording and validation."""
from __future__ import annotations

import json
import os
import subprocess
from typing import Any, Dict, List, Optional, Sequence

from .. import core
from .. import trace_solver as ts

C02_INV = ['TypeOK', 'C02_FirstConv', 'C02_SolvedIffTrue', 'C02_Fail', 'C02_Rejected', 'C02_Complete', 'C02_Hooks', 'C04_OnlyT']
C06_INV = ['C06_Raise', 'C06_Skip', 'C06_KeepGoing', 'C06_Statuses', 'C06_Chained', 'C06_NoStoreOnCatch', 'C06_NeverJudged']
ALL_INV = C02_INV + C06_INV
ACTIONS = ['GuardMinMax', 'GuardFeasible', 'OffsetStep', 'PreCheck', 'DoBefore', 'LoopHead', 'DoPass', 'Judge', 'DoAfter', 'Stamp', 'Return']

SLICES = {
    # name: (Cfgs, EqOuts, HookOuts, HookWrites)
    'core': ('CoreCfgsS', 'CoreOuts', 'BothHooks', 'NoWrites'),
    'guard': ('GuardCfgsS', 'GuardOuts', 'OkHooks', 'NoWrites'),
    'vec': ('VecCfgsS', 'VecOuts', 'OkHooks', 'NoWrites'),
    'hook': ('HookCfgsS', 'HookOutsEq', 'BothHooks', 'SomeWrites'),
    'empty': ('EmptyCfgsS', 'EmptyOuts', 'BothHooks', 'NoWrites'),
    'long': ('LongCfgsS', 'LongOuts', 'BothHooks', 'NoWrites'),
    'deep': ('DeepCfgs', 'DeepOuts', 'OkHooks', 'NoWrites'),
}


def slice_cfg(name: str, maxi: int, invariants: Sequence[str], emit: bool = True, spec: str = 'Spec',
              properties: Sequence[str] = ()) -> str:
    cfgs, outs, hooks, writes = SLICES[name]
    lines = [f'SPECIFICATION {spec}', 'CONSTANTS', f'  Cfgs <- {cfgs}', f'  EqOuts <- {outs}', f'  HookOuts <- {hooks}',
             f'  HookWrites <- {writes}', '  Shard = {shard}', '  NShards = {nshards}', f'  MaxI = {maxi}']
    lines += [f'INVARIANT {i}' for i in invariants]
    if emit:
        lines.append('INVARIANT EmitInv')
    lines += [f'PROPERTY {p}' for p in properties]
    lines.append('CHECK_DEADLOCK FALSE')
    return '\n'.join(lines) + '\n'


def check_and_emit(ctx: core.Ctx, name: str, maxi: int, invariants: Sequence[str], *, nshards: int = core.NCPU,
                   timeout: int = 3600) -> List[Dict[str, Any]]:
    """Exhaustive model checking of one slice in `nshards` disjoint shards (the configuration is constant
    along a behaviour, so sharding the initial states partitions the state graph); every terminal state
    is emitted as a behaviour record."""
    tmpl = slice_cfg(name, maxi, invariants)
    results = core.run_sharded('SolverMC', tmpl, nshards, tag=f'{ctx.prop}-{name}', timeout=timeout,
                               extra=['-coverage', '1'])
    records: List[Dict[str, Any]] = []
    cov: Dict[str, List[int]] = {}
    gen = dist = depth = 0
    wall = 0.0
    for r in results:
        core.require_ok(r, f'Solver slice {name}')
        records += r.records
        gen += r.generated
        dist += r.distinct
        depth = max(depth, r.depth)
        wall = max(wall, r.wall)
        for a, (d, t) in r.coverage.items():
            c = cov.setdefault(a, [0, 0])
            c[0] += d
            c[1] += t
    agg = core.TLCResult(rc=0, generated=gen, distinct=dist, depth=depth, coverage={a: cov.get(a, [0, 0]) for a in ACTIONS}, wall=wall)
    ctx.add_tlc(agg, f'Solver slice {name} exhaustive ({nshards} shards)', constants=f'MaxI={maxi} {SLICES[name]}')
    core.require_coverage(agg, [a for a in ACTIONS if not (name == 'guard' and a in ())], f'Solver slice {name}')
    return records


def simulate_and_emit(ctx: core.Ctx, name: str, maxi: int, invariants: Sequence[str], *, num: int, depth: int = 400,
                      nshards: int = core.NCPU) -> List[Dict[str, Any]]:
    tmpl = slice_cfg(name, maxi, invariants)
    from concurrent.futures import ThreadPoolExecutor

    def one(i: int):
        return core.run_tlc('SolverMC', tmpl.format(shard=(ctx.seed * 16 + i) % 97, nshards=97), workers=1, tag=f'{ctx.prop}-{name}-sim{i}',
                            simulate=f'num={max(1, num // nshards)}', depth=depth, seed=ctx.seed * 1000 + i, heap='2g')
    with ThreadPoolExecutor(max_workers=core.NCPU) as ex:
        results = list(ex.map(one, range(nshards)))
    records: List[Dict[str, Any]] = []
    for r in results:
        core.require_ok(r, f'Solver simulation {name}')
        records += r.records
    agg = core.TLCResult(rc=0, generated=sum(r.generated for r in results), distinct=sum(r.generated for r in results),
                         depth=depth, wall=max(r.wall for r in results))
    ctx.add_tlc(agg, f'Solver slice {name} -simulate num={num} depth<={depth}', constants=f'MaxI={maxi} seed={ctx.seed}')
    # distinct behaviours only
    seen = set()
    out = []
    for rec in records:
        sig = json.dumps([rec['cfg'], rec['hist'], rec['fin']['hb'], rec['fin']['ha']], sort_keys=True)
        if sig not in seen:
            seen.add(sig)
            out.append(rec)
    return out


VARIANTS = [
    {'entry': 'solve_t', 'scale': 1.0, 'span': 'range', 'tolmode': 'eq', 'flavour': 0},
    {'entry': 'solve_t', 'scale': 0.25, 'span': 'str', 'tolmode': 'ulp', 'flavour': 1},
    {'entry': 'solve_period', 'scale': 1.0, 'span': 'str', 'tolmode': 'ulp', 'flavour': 0},
    {'entry': 'solve_period', 'scale': 0.25, 'span': 'range', 'tolmode': 'eq', 'flavour': 1},
    {'entry': 'solve', 'scale': 1.0, 'span': 'range', 'tolmode': 'ulp', 'flavour': 1},
    {'entry': 'solve', 'scale': 0.25, 'span': 'str', 'tolmode': 'eq', 'flavour': 0},
]
# values at the top of the float64 range: finite, but the sum of two of them is not (only for slices over {0, 1})
HUGE = {'entry': 'solve_t', 'scale': 2.0 ** 1023, 'span': 'range', 'tolmode': 'eq', 'flavour': 0}
# values of both signs at the top of the float64 range: the difference of two finite check values overflows
SIGNED = {'entry': 'solve_t', 'scale': 2.0 ** 1023, 'span': 'range', 'tolmode': 'eq', 'flavour': 0, 'shift': 1}
# an object with a history: solved before, every variable re-bound by a sequence assignment
HISTORY = {'entry': 'solve_t', 'scale': 1.0, 'span': 'str', 'tolmode': 'eq', 'flavour': 0, 'history': True}
HISTORY2 = {'entry': 'solve', 'scale': 0.25, 'span': 'range', 'tolmode': 'ulp', 'flavour': 1, 'history': True}
# the non-check endogenous variable becomes NaN in every pass (only check variables are the solver's business)
WNAN = {'entry': 'solve_period', 'scale': 1.0, 'span': 'range', 'tolmode': 'eq', 'flavour': 0, 'wnan': True}
# warnings raised by the equation's own helper (UserWarning) rather than by NumPy arithmetic
USERWARN = {'entry': 'solve_t', 'scale': 1.0, 'span': 'range', 'tolmode': 'eq', 'flavour': 2}
# values and tolerance so small that their squares underflow to zero
TINY = {'entry': 'solve_t', 'scale': 2.0 ** -600, 'span': 'str', 'tolmode': 'eq', 'flavour': 1}


def replay(ctx: core.Ctx, records: List[Dict[str, Any]], *, all_variants: bool, what: str, module: str = 'harness.replay_solver',
           variants=VARIANTS, extra_payload: Optional[Dict[str, Any]] = None) -> None:
    if not records:
        raise core.MachineryError(f'no behaviours emitted for {what}')
    payloads = [dict({'records': ch, 'variants': variants, 'all_variants': all_variants, 'seed': ctx.seed}, **(extra_payload or {}))
                for ch in core.chunks(records, core.NCPU)]
    outs = core.run_workers(module, payloads)
    n = sum(o['n'] for o in outs)
    ctx.evaluations += n
    ctx.nontrivial += sum(o['nontrivial'] for o in outs)
    ctx.extra.setdefault('replayed', {})[what] = {'executions': n, 'behaviours': sum(o['distinct'] for o in outs)}
    for o in outs:
        for mm in o['mismatches']:
            ctx.mismatch(mm['key'], {'module': 'Solver', 'direction': 'spec->code', 'record': mm['record'], 'variant': mm['variant'],
                                     'diffs': mm['diffs'], 'observed': mm['observed'], 'expected': mm['expected'],
                                     'replay_cmd': f'./check {ctx.prop} --replay <this file>'})
    for rec in records[:: max(1, len(records) // 3)][:3]:
        ctx.sample({'behaviour': {'cfg': rec['cfg'], 'hist': rec['hist'], 'fin': rec['fin']}})


# -- traces ------------------------------------------------------------------


def record_suite(ctx: core.Ctx, select: Sequence[str], tag: str) -> str:
    """Run (part of) the repository's own test-suite with the hooks on and return the trace file."""
    path = str(core.subdir('rec') / f'{tag}.ndjson')
    env = core.worker_env(True, path)
    env['PYTHONPATH'] = str(core.REPO)
    cmd = [core.PY, '-m', 'pytest', '-q', '-p', 'no:cacheprovider', '-x', '--timeout=600', '-q', *select]
    p = subprocess.run(cmd, cwd=core.REPO, env=env, capture_output=True, text=True, timeout=1200)
    if p.returncode not in (0, 1):
        raise core.MachineryError(f'pytest with hooks failed to run: rc={p.returncode}\n{p.stdout[-2000:]}{p.stderr[-2000:]}')
    ctx.extra.setdefault('trace_sources', {})[tag] = {'pytest_rc': p.returncode, 'tail': p.stdout.strip().splitlines()[-1:] }
    if not os.path.exists(path):
        raise core.MachineryError('hooks produced no trace (is the FSIC_VERIF guard wired in?)')
    return path


def record_driver(ctx: core.Ctx, module: str, payloads: List[Dict[str, Any]], tag: str) -> List[str]:
    files = [str(core.subdir('rec') / f'{tag}-{i}.ndjson') for i in range(len(payloads))]
    outs = core.run_workers(module, payloads, hooks=True, trace_files=files)
    ctx.extra.setdefault('trace_sources', {})[tag] = outs
    return files


def validate_files(ctx: core.Ctx, files: Sequence[str], tag: str, kind: str = 'model') -> None:
    episodes = []
    sstats: Dict[str, int] = {}
    for f in files:
        if not os.path.exists(f):
            continue
        eps, st = ts.split_episodes(ts.read_events(f), kind=kind)
        episodes += eps
        for k_, v in st.items():
            sstats[k_] = sstats.get(k_, 0) + v
    if not episodes:
        raise core.MachineryError(f'no solver episodes recorded for {tag}')
    acc, rej, stats, tot = ts.validate_episodes(episodes, tag=f'{ctx.prop}-{tag}')
    stats.update(sstats)
    ctx.traces_validated += acc
    ctx.states += tot['states']
    ctx.transitions += tot['generated']
    ctx.extra.setdefault('traces', {})[tag] = {'episodes': len(episodes), 'accepted': acc, 'rejected': len(rej), 'stats': stats,
                                                'events': sum(len(e) for e in episodes)}
    for r in rej:
        en = r['raw'][0]
        ex = r['abstract'][-1]
        key = (f"trace-rejected exit={ex.get('kind')}/{ex.get('st')} errors={en.get('errors')} "
               f"{'max_iter=0 ' if en.get('max') == 0 else ''}{'offset ' if en.get('offset') else ''}"
               f"violated={r['result'].get('violated')}")
        ctx.mismatch(key, {'module': 'SolverTrace', 'direction': 'code->spec', 'result': r['result'],
                           'abstract_episode': r['abstract'], 'raw_episode': r['raw']})
    if episodes:
        ep = episodes[len(episodes) // 2]
        ctx.sample({'trace_episode': [e for e in ep[:6]]})
