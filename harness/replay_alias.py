"""spec -> code: realise Alias.tla terminal behaviours on the real fsic.extensions.AliasMixin.

For every record emitted by TLC (alias map as an ordered dict, PREFERRED_NAMES, constructor
keywords, operation history with the name used and the canonical name, the store the spec
expects after each step, the expected export columns or the expected exception) this worker
builds `class A(AliasMixin, Base)` and a canonical twin `class C(Base)`, performs each
operation through the chosen name on A and through the variable's own name on C, and after
every step compares the full projected state of both with the spec's expected store.

Worker module: `python -m harness.replay_alias <payload.json>`; prints a JSON summary.
"""
from __future__ import annotations

import json
import signal
import sys
import warnings
from collections import OrderedDict

import numpy as np

import fsic
from fsic.extensions import AliasMixin

NAN = 100
ALARM_S = 5.0

NAME_MAPS = [
    {'V1': 'V1', 'V2': 'V2', 'V3': 'V3', 'a1': 'a1', 'a2': 'a2', 'a3': 'a3', 'a4': 'a4'},
    {'V1': 'Y', 'V2': 'y', 'V3': 'Y_1', 'a1': 'GDP', 'a2': 'Yy', 'a3': 'gdp', 'a4': 'income_2'},
    # aliases spelt like attributes of the class itself (a property, a class constant, two methods): Python's own
    # attribute lookup finds those before __getattr__, so attribute *reads* of them go by key below; every other path
    # (attribute writes, keys, labels, slices, constructor keywords, replace_values) is the alias path proper
    {'V1': 'Y', 'V2': 'C', 'V3': 'X', 'a1': 'size', 'a2': 'CODE', 'a3': 'values', 'a4': 'copy'},
]


class Timeout(Exception):
    pass


_armed = [False]


def _on_alarm(signum, frame):
    if _armed[0]:  # a timer that fires while the alarm is being taken down is not a timeout
        _armed[0] = False
        raise Timeout()


def with_alarm(seconds, fn):
    """Run fn() under an alarm; returns ('ok', value) | ('timeout', None) | ('exc', exception).
    The alarm counts the process's own CPU time (a loop that never ends burns it at wall-clock rate on an idle
    machine, and a loaded machine cannot fake a timeout); a wall-clock alarm at 60x is the backstop."""
    old_p = signal.signal(signal.SIGPROF, _on_alarm)
    old_r = signal.signal(signal.SIGALRM, _on_alarm)
    _armed[0] = True
    signal.setitimer(signal.ITIMER_PROF, seconds)
    signal.setitimer(signal.ITIMER_REAL, max(60.0, seconds * 60))
    try:
        return 'ok', fn()
    except Timeout:
        return 'timeout', None
    except Exception as e:  # an exception of the code under test is an outcome, compared with the spec
        return 'exc', e
    finally:
        _armed[0] = False
        signal.setitimer(signal.ITIMER_PROF, 0)
        signal.setitimer(signal.ITIMER_REAL, 0)
        signal.signal(signal.SIGPROF, old_p)
        signal.signal(signal.SIGALRM, old_r)


def real(v):
    return float('nan') if v == NAN else float(v)


def reals(vs):
    return [real(v) for v in vs]


def same(a, b):
    a = np.asarray(a)
    b = np.asarray(b)
    if a.shape != b.shape:
        return False
    if a.dtype.kind == 'f' or b.dtype.kind == 'f':
        af, bf = a.astype(float), b.astype(float)
        return bool(np.all((af == bf) | (np.isnan(af) & np.isnan(bf))))
    return bool(np.all(a == b))


def span_for(kind, L):
    if kind == 'range':
        return range(10, 10 + L)
    if kind == 'str':
        return [f'p{i + 1}' for i in range(L)]
    if kind == 'names':
        # period labels that spell the model's own alias and variable names: a label is never a name
        return [a for a in _LABEL_NAMES[:L]] + [f'p{i + 1}' for i in range(len(_LABEL_NAMES), L)]
    if kind == 'period':
        import pandas as pd
        return pd.period_range('2001', periods=L, freq='Y')
    raise ValueError(kind)


SPAN_KINDS = ['range', 'str', 'period', 'names']
_LABEL_NAMES = []   # set per record by the replayer: the concrete alias / variable names in use

_fn_cache = {}


def equation_fn(wname, rname):
    """Solution code as text: the equation  w[t] = r[t] + 1  written through the given names."""
    key = (wname, rname)
    if key not in _fn_cache:
        # (a name the class already defines is read by key: see NAME_MAPS)
        ref = lambda n: f'self[{n!r}]' if hasattr(fsic.BaseModel, n) else f'self.{n}'
        src = f'def _eq(self, t):\n    {ref(wname)}[t] = {ref(rname)}[t] + 1\n'
        ns = {}
        exec(compile(src, f'<equation {wname}={rname}+1>', 'exec'), ns)
        _fn_cache[key] = ns['_eq']
    return _fn_cache[key]


_base_cache = {}


def base_class(names, flavour, eq):
    """Model class without aliases.  flavour 'hand': _evaluate runs the equation text installed per solve
    (reads and writes go through whatever names that text uses).  flavour 'parsed': the class is generated
    by fsic's own parser/builder for  w = r + 1  (its code addresses self._w directly)."""
    key = (tuple(names), flavour, eq)
    if key in _base_cache:
        return _base_cache[key]
    if flavour == 'hand':
        class Base(fsic.BaseModel):
            ENDOGENOUS = list(names)
            EXOGENOUS = []
            NAMES = list(names)
            CHECK = list(names)
            LAGS = 0
            LEADS = 0

            def _evaluate(self, t, **kwargs):
                self.__dict__['_v_fn'](self, t)
    else:
        w, r = eq
        Gen = fsic.build_model(fsic.parse_model(f'{w} = {r} + 1'))

        class Base(Gen):
            NAMES = list(names)
    _base_cache[key] = Base
    return Base


def project(m):
    d = m.__dict__
    out = {'index': list(d['index']), 'names': list(d['names']), 'series': {}}
    for n in d['index']:
        arr = d['_' + n]
        out['series'][n] = {'dtype': arr.dtype.str, 'shape': list(arr.shape), 'v': arr.tolist()}
    out['extra_arrays'] = sorted(k for k, v in d.items() if isinstance(v, np.ndarray) and (not k.startswith('_') or k[1:] not in d['index']))
    out['attributes'] = list(d['_attributes'])
    return out


def same_proj(a, b):
    if a['index'] != b['index'] or a['names'] != b['names']:
        return False
    for n in a['index']:
        x, y = a['series'][n], b['series'][n]
        if x['dtype'] != y['dtype'] or x['shape'] != y['shape'] or not same(x['v'], y['v']):
            return False
    return a['extra_arrays'] == b['extra_arrays']


def expected_proj(names_real, vals, st, it, nm):
    series = {'status': {'dtype': '<U1', 'shape': [len(st)], 'v': list(st)},
              'iterations': {'dtype': '<i8', 'shape': [len(it)], 'v': list(it)}}
    for v, cells in vals.items():
        series[nm[v]] = {'dtype': '<f8', 'shape': [len(cells)], 'v': reals(cells)}
    return {'index': ['status', 'iterations'] + names_real, 'names': names_real, 'series': series, 'extra_arrays': []}


def hops(amap, name):
    d = dict((k, t) for k, t in amap)
    n, h = name, 0
    while n in d and d[n] != n and h < 10:
        n = d[n]
        h += 1
    return h


def map_features(rec):
    amap = rec['amap']
    f = []
    if any(k == t for k, t in amap):
        f.append('selfmap')
    targets = [dict(rec['resolve']).get(k) for k, t in amap if k != t]
    if len(targets) != len(set(targets)):
        f.append('many-to-one')
    if any(hops(amap, k) > 1 for k, _ in amap):
        f.append(f'chain{max(hops(amap, k) for k, _ in amap)}')
    if rec['pref']:
        f.append('pref')
    return '+'.join(f) or 'plain'


class Replayer:
    def __init__(self, rec, idx, seed, flavour, confirmed_nonterm):
        self.rec = rec
        self.idx = idx
        self.flavour = flavour
        self.nm = NAME_MAPS[(idx + seed) % len(NAME_MAPS)]
        self.span_kind = SPAN_KINDS[(idx // 2 + seed) % len(SPAN_KINDS)]
        self.strict = bool((idx // 3 + seed) % 2)
        self.seqkind = ['list', 'tuple', 'ndarray'][(idx + seed) % 3]
        self.L = 3
        _LABEL_NAMES[:] = [self.nm['a1'], self.nm['V1'], self.nm['a2']]
        self.span = span_for(self.span_kind, self.L)
        self.labels = list(self.span)
        self.names = [self.nm[n] for n in rec['names']]
        self.diffs = []
        self.confirmed_nonterm = confirmed_nonterm
        self.variant = {'names': ['plain', 'adversarial', 'attrlike'][NAME_MAPS.index(self.nm)], 'span': self.span_kind,
                        'strict': self.strict, 'seq': self.seqkind, 'flavour': flavour}

    # -- realisation of operands --------------------------------------------
    def seq(self, xs):
        if self.seqkind == 'tuple':
            return tuple(xs)
        if self.seqkind == 'ndarray':
            return np.array(xs, dtype=float)
        return list(xs)

    def full(self, k, d):
        if d == 's':
            return float(k)
        if d == 'n':
            return float('nan')
        if d == 'l':
            return self.seq(reals([NAN if i == 2 else k + i for i in range(1, self.L + 1)]))
        if d == 'b':
            return [float(k)] * (self.L - 1)
        raise ValueError(d)

    def sub(self, k, d, n):
        if d == 'l':
            return self.seq(reals([NAN if i == 2 else k + i for i in range(1, n + 1)]))
        return self.full(k, d)

    def lab(self, i):
        return None if i == 0 else self.labels[i - 1]

    # -- classes ---------------------------------------------------------------
    def classes(self):
        rec = self.rec
        eq = None
        if self.flavour == 'parsed':
            solves = [(self.nm[h['op']['canon']], self.nm[h['op']['canon2']]) for h in rec['hist'] if h['op']['kind'] == 'solve']
            eq = solves[0] if solves else (self.names[0], self.names[1])
        Base = base_class(self.names, self.flavour, eq)
        aliases = OrderedDict((self.nm[k], self.nm[t]) for k, t in rec['amap'])
        pref = [self.nm[p] for p in rec['pref']]
        if self.idx % 2:
            pref = pref[::-1]
        A = type('A', (AliasMixin, Base), {'ALIASES': aliases, 'PREFERRED_NAMES': pref})
        C = type('C', (Base,), {})
        return A, C

    def diff(self, where, **detail):
        self.diffs.append(dict(where=where, **detail))

    # -- run -------------------------------------------------------------------
    def run(self):
        rec, nm = self.rec, self.nm
        A, C = self.classes()
        kwA, kwC = {}, {}
        for j, kw in enumerate(rec['ctor']['kw'], start=1):
            kwA[nm[kw['name']]] = self.full(6 + 3 * j, kw['opd'])
            kwC[nm[kw['canon']]] = self.full(6 + 3 * j, kw['opd'])
        selfmap = any(k == t for k, t in rec['amap'])
        # non-termination counts only if reproduced: two runs under the full alarm, or - once the parent has
        # established it that way for self-maps - one run under a short alarm (still 1000x the normal duration)
        alarms = [0.5] if (self.confirmed_nonterm and selfmap) else [ALARM_S, ALARM_S]
        for alarm in alarms:
            how, val = with_alarm(alarm, lambda: A(self.span, strict=self.strict, **kwA))
            if how != 'timeout':
                break
        if how == 'timeout':
            self.diff('ctor-nontermination', alarms_s=alarms)
            return 'nonterm'
        if rec['ctor']['res'] == 'ValueError':
            if not (how == 'exc' and isinstance(val, ValueError)):
                self.diff('ctor-ambiguous-preference-accepted', got=repr(val)[:200])
            return 'done'
        if how == 'exc':
            self.diff('ctor-exception', got=f'{type(val).__name__}: {val}'[:300])
            return 'done'
        a = val
        c = C(self.span, strict=self.strict, **kwC)
        # the shortened dict, in dict order
        exp_short = [[nm[k], nm[t]] for k, t in rec['short']]
        if [list(x) for x in a.__dict__['aliases'].items()] != exp_short:
            self.diff('aliases-dict', got=[list(x) for x in a.__dict__['aliases'].items()], expected=exp_short)
        self.compare(a, c, rec['init']['vals'], ['-'] * self.L, [-1] * self.L, 'ctor', None)
        for k, h in enumerate(rec['hist'], start=1):
            if not self.step(a, c, k, h):
                return 'done'
        self.export(a, c)
        return 'done'

    def compare(self, a, c, vals, st, it, where, op):
        pa, pc = project(a), project(c)
        pe = expected_proj(self.names, vals, st, it, self.nm)
        if not same_proj(pa, pe):
            self.diff(f'{where}:state', op=op, aliased=pa, expected=pe)
        if not same_proj(pc, pe):
            self.diff(f'{where}:twin-state', op=op, canonical=pc, expected=pe)
        # no additional storage; aliases are not names
        alias_names = {self.nm[k] for k, t in self.rec['amap'] if k != t}
        d = a.__dict__
        if alias_names & set(d['index']) or alias_names & set(d['names']):
            self.diff(f'{where}:alias-in-index', index=list(d['index']), names=list(d['names']))
        extra = [k for k in d if k in alias_names or (k.startswith('_') and k[1:] in alias_names)]
        extra += [k for k in d['_attributes'] if k in alias_names]
        extra += sorted((set(d) - {'aliases', 'preferred_names'}) ^ set(c.__dict__))
        if extra or pa['attributes'] != pc['attributes']:
            self.diff(f'{where}:extra-storage', op=op, extra=extra, attributes=pa['attributes'], twin_attributes=pc['attributes'])
        # storage identity and reads through every name, by every path
        for n, v in self.rec['resolve']:
            rn, rv = self.nm[n], self.nm[v]
            arr = d.get('_' + rv)
            try:
                ok = (hasattr(type(a), rn) or getattr(a, rn) is arr) and a[rn] is arr
                cell_ok = same(a[rn, self.labels[1]], arr[1]) and same(a[rn, self.labels[0]:self.labels[1]], arr[0:2])
            except Exception as e:
                ok, cell_ok = False, f'{type(e).__name__}: {e}'[:200]
            if not ok:
                self.diff(f'{where}:storage-identity', name=rn, variable=rv)
            elif cell_ok is not True:
                self.diff(f'{where}:read-path', name=rn, variable=rv, got=cell_ok)

    def do(self, m, name, name2, op, k, aliased):
        kind, d = op['kind'], op['opd']
        if kind == 'attr':
            setattr(m, name, self.full(k, d))
        elif kind == 'item':
            m[name] = self.full(k, d)
        elif kind == 'label':
            m[name, self.lab(op['lab'])] = self.full(k, d)
        elif kind == 'slice':
            lo = op['a'] or 1
            hi = op['b'] or self.L
            m[name, self.lab(op['a']):self.lab(op['b'])] = self.sub(k, d, hi - lo + 1)
        elif kind == 'replace':
            kw = OrderedDict([(name, self.full(k, d))])
            if name2:
                kw[name2] = float(k + 5)
            m.replace_values(**kw)
        elif kind == 'read':
            if d == 'attr' and not hasattr(type(m), name):
                return np.array(getattr(m, name), copy=True)
            if d == 'attr':
                return np.array(m[name], copy=True)
            if d == 'item':
                return np.array(m[name], copy=True)
            if d == 'label':
                return np.array([m[name, self.lab(op['lab'])]])
            return np.array(m[name, self.lab(op['a']):self.lab(op['b'])], copy=True)
        elif kind == 'solve':
            if self.flavour == 'hand':
                m.__dict__['_v_fn'] = equation_fn(name, name2)
            with warnings.catch_warnings():
                warnings.simplefilter('ignore')
                m.solve_t(op['lab'] - 1)
        else:
            raise ValueError(kind)
        return None

    def step(self, a, c, k, h):
        op, nm = h['op'], self.nm
        out = {}
        val = {}
        for side, m, n1, n2 in (('A', a, op['name'], op['name2']), ('C', c, op['canon'], op['canon2'])):
            try:
                val[side] = self.do(m, nm[n1], nm.get(n2, ''), op, k, side == 'A')
                out[side] = 'ok'
            except Exception as e:  # outcome of the code under test, compared below
                out[side] = type(e).__name__
                val[side] = None
        opd = dict(op, step=k)
        if out['A'] != h['out'] or out['C'] != h['out']:
            self.diff('op:outcome', op=opd, aliased=out['A'], canonical=out['C'], expected=h['out'])
        if op['kind'] == 'read' and h['out'] == 'ok':
            for side in ('A', 'C'):
                if val[side] is None or not same(val[side], reals(h['val'])):
                    self.diff('op:read-value', op=opd, side=side, got=None if val[side] is None else val[side].tolist(), expected=h['val'])
        e = h['exp']
        self.compare(a, c, e['vals'], e['st'], e['it'], 'op', opd)
        return True

    def export(self, a, c):
        import pandas as pd
        rec, nm = self.rec, self.nm
        ex = rec['export']
        try:
            df = a.to_dataframe(use_aliases=True)
        except Exception as e:
            if not (ex['err'] and isinstance(e, ValueError)):
                self.diff('export:exception', got=f'{type(e).__name__}: {e}'[:300], expected=ex)
            return
        if ex['err']:
            self.diff('export:ambiguity-accepted', columns=list(df.columns))
            return
        cols = [nm[x] for x in ex['cols']] + ['status', 'iterations']
        if list(df.columns) != cols:
            self.diff('export:columns', got=list(df.columns), expected=cols)
            return
        for i, col in enumerate(ex['data']):
            if not same(df.iloc[:, i].to_numpy(), reals(col)) or df.iloc[:, i].dtype.kind != 'f':
                self.diff('export:data', column=cols[i], got=df.iloc[:, i].tolist(), expected=col)
        # a model constructed from the alias-headed table (constructor keywords through aliases) is the model again
        try:
            back = type(a).from_dataframe(df.drop(columns=['status', 'iterations']), strict=self.strict)
            for i, col in enumerate(ex['data']):
                name = cols[i]
                if not same(back[name], reals(col)):
                    self.diff('export:from_dataframe-through-aliases', column=name, got=np.asarray(back[name]).tolist(), expected=col)
                    break
        except Exception as e:
            self.diff('export:from_dataframe-through-aliases', got=f'{type(e).__name__}: {e}'[:300])
        twin = c.to_dataframe()
        if df.shape != twin.shape or not all(same(df.iloc[:, i].to_numpy(), twin.iloc[:, i].to_numpy()) for i in range(df.shape[1])):
            self.diff('export:differs-from-twin')
        if list(df.index) != list(twin.index):
            self.diff('export:index')
        plain = a.to_dataframe()
        if list(plain.columns) != self.names + ['status', 'iterations']:
            self.diff('export:default-columns', got=list(plain.columns))


def finding_key(rec, diffs):
    """Key from the features of the failing case: where it failed, through what kind of name, on what kind of map."""
    d = diffs[0]
    where = d['where']
    if where == 'ctor-nontermination':
        return 'alias-self-map-nontermination' if any(k == t for k, t in rec['amap']) else f'alias-init-nontermination map={map_features(rec)}'
    parts = [f'alias {where}']
    op = d.get('op')
    if op:
        via = 'name' if op['name'] == op['canon'] else f"alias/chain{hops(rec['amap'], op['name'])}"
        parts.append(f"op={op['kind']}{'/' + op['opd'] if op['kind'] == 'read' else ''} via={via}")
    elif where.startswith('ctor') and rec['ctor']['kw']:
        kw = rec['ctor']['kw'][0]
        parts.append('kw=' + ('name' if kw['name'] == kw['canon'] else f"alias/chain{hops(rec['amap'], kw['name'])}"))
    parts.append(f'map={map_features(rec)}')
    return ' '.join(parts)


def nontrivial(rec):
    """At least one operation (or constructor keyword, or column title) goes through an alias."""
    if any(kw['name'] != kw['canon'] for kw in rec['ctor']['kw']):
        return True
    if any(h['op']['name'] != h['op']['canon'] or (h['op']['name2'] and h['op']['name2'] != h['op']['canon2']) for h in rec['hist']):
        return True
    return rec['export']['cols'] != rec['names'] or rec['ctor']['res'] != 'ok' or any(k == t for k, t in rec['amap'])


def flavours_for(rec, idx):
    solves = {(h['op']['canon'], h['op']['canon2']) for h in rec['hist'] if h['op']['kind'] == 'solve'}
    parsed_ok = rec['nv'] >= 2 and len(solves) <= 1
    if solves and parsed_ok:
        return ['hand', 'parsed']
    if parsed_ok and idx % 2:
        return ['parsed']
    return ['hand']


def main():
    payload = json.load(open(sys.argv[1]))
    seed = payload.get('seed', 0)
    confirmed = bool(payload.get('confirmed_nonterm'))
    out = {'n': 0, 'nontrivial': 0, 'distinct': 0, 'mismatches': [], 'keys': {}, 'skipped_nonterm': 0, 'nonterm_seen': 0,
           'ops': 0, 'flavours': {}}
    seen = set()
    nonterm_done = False
    for idx, rec in enumerate(payload['records']):
        sig = json.dumps([rec['nv'], rec['amap'], rec['pref'], rec['ctor'], [h['op'] for h in rec['hist']]], sort_keys=True)
        selfmap = any(k == t for k, t in rec['amap'])
        if sig not in seen:
            seen.add(sig)
            if nontrivial(rec) and not (selfmap and nonterm_done):  # abandoned behaviours are not counted
                out['nontrivial'] += 1
        if selfmap and nonterm_done:
            # construction of a self-map never returns (established above in this worker): every further
            # such behaviour is abandoned, counted, and reported under the same key
            out['skipped_nonterm'] += 1
            out['keys']['alias-self-map-nontermination'] = out['keys'].get('alias-self-map-nontermination', 0) + 1
            continue
        for flavour in flavours_for(rec, idx + payload.get('offset', 0)):
            rp = Replayer(rec, idx + payload.get('offset', 0), seed, flavour, confirmed)
            status = rp.run()
            out['n'] += 1
            out['ops'] += len(rec['hist'])
            out['flavours'][flavour] = out['flavours'].get(flavour, 0) + 1
            if status == 'nonterm':
                out['nonterm_seen'] += 1
                if selfmap:
                    nonterm_done = True
            if rp.diffs:
                key = finding_key(rec, rp.diffs)
                n = out['keys'].get(key, 0)
                out['keys'][key] = n + 1
                if n < 2:
                    out['mismatches'].append({'key': key, 'record': rec, 'variant': rp.variant, 'index': idx + payload.get('offset', 0),
                                              'diffs': rp.diffs[:6]})
            if status == 'nonterm':
                break
    out['distinct'] = len(seen)
    print(json.dumps(out, default=str))


if __name__ == '__main__':
    main()
