"""spec -> code: realise Container.tla histories on real fsic objects (VectorContainer, a parser-built
BaseModel class with optional Alias/Tracer mixins, BaseLinker with plain or nested submodels) and
compare, after EVERY operation, the projection of ALL objects and of the class-level lists with the
state the specification expects (C09, C11).

Worker module: `python -m harness.replay_container <payload.json>`; prints a JSON summary.
Payload: {'mode': 'tlc', 'cfg': <cfg text>, 'tag': .., 'simulate': .., 'depth': .., 'seed': ..} - the worker runs its
          own TLC shard and replays every emitted history as it arrives (nothing is kept in memory), or
         {'mode': 'records', 'records': [...]} - replay the given histories;
         common: 'variants' (model class variants), 'all_variants', 'identity' (C11 identity scan), 'seed'.

Expected values always come out of the TLC record; this module only renders operands, executes the
operation and projects what the public API shows.
"""
from __future__ import annotations

import copy
import json
import sys
import time
import warnings

import numpy as np

import fsic
from fsic.extensions import AliasMixin, TracerMixin
from fsic.extensions.model import Trace

HALF = 50
TOKEN = 900
STR = {200: 'aa', 201: 'bb', 202: 'cc', 210: '-'}
DT_KIND = {'f': 'f', 'i': 'i', 'b': 'b', 's': 'U'}
PY_DTYPE = {'f': float, 'i': int, 'b': bool, 's': str}
SCRIPT = 'Y = 0.5 * Y[-1] + X\nC = 0.5 * Y'
MUTATIONS = {'AddVariable', 'SetAttr', 'SetItem', 'SetLabel', 'SetSlice', 'SetPos', 'ReplaceValues', 'SetValues',
             'AddAttribute', 'ToggleStrict', 'MutateList', 'SetLagsLeads', 'Solve'}


class Setup(Exception):
    """The adapter could not build what the record describes (machinery failure)."""


# ---------------------------------------------------------------------------
# classes under test (one fresh set per variant, so class-level damage by one history cannot leak:
# the class lists are checked after every operation and the set is rebuilt when they were damaged)

_class_cache = {}


def build_classes(variant):
    Base = fsic.build_model(fsic.parse_model(SCRIPT))
    if variant == 'plain':
        M = Base
    elif variant == 'alias':
        class M(AliasMixin, Base):
            ALIASES = {'GDP': 'Y', 'Cons': 'C'}
            PREFERRED_NAMES = ['GDP']
    elif variant == 'tracer':
        class M(TracerMixin, Base):
            pass
    elif variant == 'both':
        class M(AliasMixin, TracerMixin, Base):
            ALIASES = {'GDP': 'Y', 'Cons': 'C'}
            PREFERRED_NAMES = ['GDP']
    else:
        raise Setup(variant)

    class L(fsic.BaseLinker):
        ENDOGENOUS = ['G']
        EXOGENOUS = ['H']
        NAMES = ENDOGENOUS + EXOGENOUS
        CHECK = ENDOGENOUS

    return {'model': M, 'linker': L, 'container': fsic.core.VectorContainer}


def classes_for(variant, fresh=False):
    if fresh or variant not in _class_cache:
        _class_cache[variant] = build_classes(variant)
    return _class_cache[variant]


# ---------------------------------------------------------------------------
# rendering of operands (input side only)

def decode(v, kind):
    if kind == 'str':
        return STR[v]
    if kind == 'bool':
        return bool(v)
    if kind == 'int':
        return int(v)
    if kind == 'float':
        return float(v)
    if kind == 'half':
        return 2.5 if v == HALF else int(v)
    raise Setup(kind)


NP_KIND = {'int': np.int64, 'float': np.float64, 'half': np.float64, 'bool': np.bool_, 'str': '<U2'}


def render(opd, raw):
    cls, kind = opd['cls'], opd['kind']
    vals = [decode(v, kind) for v in raw['vals']]
    shape = raw['shape']
    if cls in ('Scalar', 'StrScalar'):
        return vals[0]
    if cls in ('List', 'ListM', 'ListP'):
        return list(vals)
    if cls == 'Tuple':
        return tuple(vals)
    if cls == 'Range':
        return range(raw['vals'][0], raw['vals'][0] + len(vals))
    if cls in ('Nested1', 'Nested2'):
        r, c = shape
        return [[vals[i * c + j] for j in range(c)] for i in range(r)]
    if cls.startswith('Arr'):
        return np.array([float(v) if kind == 'half' else v for v in vals], dtype=NP_KIND[kind]).reshape(shape)
    raise Setup(cls)


def canon(x):
    """Canonical, comparable form of an arbitrary attribute value."""
    if isinstance(x, np.ndarray):
        return ['ndarray', str(x.dtype.kind), list(x.shape), x.tolist()]
    if isinstance(x, range):
        return ['range', list(x)]
    if isinstance(x, (list, tuple)):
        return [type(x).__name__, [canon(e) for e in x]]
    if isinstance(x, (bool, np.bool_)):
        return ['bool', bool(x)]
    if isinstance(x, (int, np.integer)):
        return ['int', int(x)]
    if isinstance(x, (float, np.floating)):
        return ['float', float(x)]
    if isinstance(x, str):
        return ['str', x]
    return [type(x).__name__, repr(x)]


# ---------------------------------------------------------------------------
# the world of one history: spec object ids <-> real objects

class World:
    def __init__(self, variant):
        self.variant = variant
        self.K = classes_for(variant)
        self.objs = {}      # spec id -> real object
        self.origin = {}    # spec id -> 'original' | 'copy' | 'sibling'
        self.root_of = {}   # spec id -> id of the tree root it belongs to
        self.bind = {}      # (token, ancestor object, variable, position) -> real value adopted at the Solve
        self.anc = {}       # spec id -> the object it was (transitively) copied from: copies inherit token bindings
        self.born = {}      # (id, variable) -> dtype at creation (adapter-side witness of "creation dtype")
        self.extras = {}    # id -> opaque extras (trace contents, aliases) last seen
        self.shared = {}    # operand signature -> the one array object the caller passes for it
        self.span = None

    def tracer(self):
        return self.variant in ('tracer', 'both')


def make_tree(w, spec_objs, oid, origin, fresh_like=None):
    """Build the real object for spec object `oid` (and its submodels) from its spec description."""
    so = spec_objs[oid - 1]
    cls = so['class']
    if cls == 'container':
        real = w.K['container'](w.span)
    elif cls == 'model':
        real = w.K['model'](w.span)
    else:
        subs = {}
        for k, sid in enumerate(so['sub']):
            subs['ABCDEFGH'[k] + str(sid)] = make_tree(w, spec_objs, sid, origin)
        real = w.K['linker'](subs)
    # an unregistered instance entry holding a tuple with mutable members: copies must not share it either (the identity
    # scan walks into tuples); it is not an attribute of the container, so the specification's projection ignores it
    real.__dict__['_v_probe'] = ([1, 2], {'k': np.zeros(2)}, (np.ones(1), [3]))
    w.objs[oid] = real
    w.origin[oid] = origin
    return real


def bind_tree(w, spec_objs, oid, real, origin, root):
    w.objs[oid] = real
    w.origin[oid] = origin
    w.root_of[oid] = root
    subs = spec_objs[oid - 1]['sub']
    if subs:
        reals = list(real.__dict__['submodels'].values())
        if len(reals) != len(subs):
            raise Setup('submodel count')
        for sid, r in zip(subs, reals):
            bind_tree(w, spec_objs, sid, r, origin, root)


def setup(rec, variant):
    w = World(variant)
    init = rec['init']
    L = init[0]['L']
    w.span = range(100, 100 + L)
    real = make_tree(w, init, 1, 'original')
    bind_tree(w, init, 1, real, 'original', 1)
    # bring the objects to the spec's initial values through the public API
    for oid, so in enumerate(init, start=1):
        r = w.objs[oid]
        if so['class'] == 'container':
            for n in so['index']:
                s = so['series'][n]
                r.add_variable(n, [decode_cell(v, s['dt']) for v in s['v']], dtype=PY_DTYPE[s['dt']])
        else:
            for n in so['names']:
                s = so['series'][n]
                if any(v != 0 for v in s['v']):
                    setattr(r, n, [decode_cell(v, s['dt']) for v in s['v']])
    for oid in w.objs:
        note_born(w, oid)
    return w


def note_born(w, oid):
    r = w.objs[oid]
    for n in r.__dict__['index']:
        if (oid, n) not in w.born:
            w.born[(oid, n)] = r.__dict__['_' + n].dtype


def decode_cell(v, dt):
    if dt == 's':
        return STR[v]
    if dt == 'b':
        return bool(v)
    if dt == 'i':
        return int(v)
    return 2.5 if v == HALF else float(v)


# ---------------------------------------------------------------------------
# projection of the real objects

def series_names(r, w):
    idx = list(r.__dict__['index'])
    if w.tracer() and isinstance(r, TracerMixin):
        idx = [n for n in idx if n != r.TRACE_NAME]
    return idx


def project(w, oid):
    r = w.objs[oid]
    d = r.__dict__
    p = {'class': 'container' if type(r) is w.K['container'] else 'linker' if isinstance(r, fsic.BaseLinker) else 'model',
         'type': type(r).__name__, 'L': len(d['span']), 'index': series_names(r, w), 'attrs': list(d['_attributes']),
         'strict': r.strict, 'series': {}}
    for n in p['index']:
        a = d.get('_' + n)
        if not isinstance(a, np.ndarray):       # the backing store is no array any more: reported as a shape difference
            p['series'][n] = {'kind': type(a).__name__, 'itemsize': 0, 'shape': ['not-an-array'], 'v': repr(a), 'readback': False}
            continue
        p['series'][n] = {'kind': a.dtype.kind, 'itemsize': a.dtype.itemsize, 'shape': list(a.shape), 'v': a.tolist(),
                          'readback': bool(r[n] is a) and bool(getattr(r, n) is a)}
    for f in ('names', 'check', 'endogenous'):
        p[f] = list(d[f]) if f in d else []
    p['lags'] = d.get('lags', 0)
    p['leads'] = d.get('leads', 0)
    for f, get in (('size', lambda: r.size), ('nbytes', lambda: r.nbytes - trace_bytes(r, w))):
        try:
            p[f] = get()
        except Exception as e:  # reported as a difference, never swallowed
            p[f] = f'error:{type(e).__name__}'
    try:
        vals = r.values
        p['values'] = {'shape': list(vals.shape), 'kind': vals.dtype.kind, 'rows': vals.tolist()}
    except Exception as e:  # reported as a difference, never swallowed
        p['values'] = {'error': type(e).__name__}
    p['sub'] = [k for k in w.objs if any(w.objs[k] is s for s in d.get('submodels', {}).values())] if 'submodels' in d else []
    return p


def trace_bytes(r, w):
    n = 0
    if isinstance(r, TracerMixin):
        n += r.__dict__['_' + r.TRACE_NAME].nbytes
    for s in r.__dict__.get('submodels', {}).values():
        n += trace_bytes(s, w)
    return n


def extras(w, oid):
    r = w.objs[oid]
    d = r.__dict__
    e = {}
    if isinstance(r, TracerMixin):
        e['trace'] = [[list(map(str, t.index)), np.asarray(t.values).tolist(), list(t.names)] for t in d['_' + r.TRACE_NAME]]
    if 'aliases' in d:
        e['aliases'] = dict(d['aliases'])
        e['preferred_names'] = list(d['preferred_names'])
    if 'name' in d and 'submodels' in d:
        e['submodel_keys'] = [str(k) for k in d['submodels']]
    e['dtype'] = str(d.get('dtype', ''))
    e['engine'] = str(d.get('engine', ''))
    return e


def class_lists(w):
    out = {'container': {'NAMES': [], 'CHECK': [], 'ENDOGENOUS': []}}
    for c in ('model', 'linker'):
        k = w.K[c]
        out[c] = {'NAMES': list(k.NAMES), 'CHECK': list(k.CHECK), 'ENDOGENOUS': list(k.ENDOGENOUS)}
    return out


def same_val(a, b):
    if isinstance(a, float) and isinstance(b, float) and a != a and b != b:
        return True
    if isinstance(a, list) and isinstance(b, list):
        return len(a) == len(b) and all(same_val(x, y) for x, y in zip(a, b))
    if isinstance(a, dict) and isinstance(b, dict):
        return a.keys() == b.keys() and all(same_val(a[k], b[k]) for k in a)
    return type(a) is type(b) and a == b or (isinstance(a, (int, float)) and isinstance(b, (int, float))
                                              and not isinstance(a, bool) and not isinstance(b, bool) and a == b)


# ---------------------------------------------------------------------------
# comparison with the spec's expected projection

def cell_ok(w, oid, real, code, dt, n, i, adopt):
    if code >= TOKEN:
        k = (code, w.anc.get(oid, oid), n, i)
        if k not in w.bind:
            if not adopt:
                return False
            w.bind[k] = real
            return True
        return same_val(w.bind[k], real)
    exp = decode_cell(code, dt)
    return same_val(exp, real) if dt != 'f' else same_val(float(exp), real)


def compare_obj(w, oid, exp, real, adopt):
    """Differences between the expected (spec) and the real projection of one object: list of component names."""
    diffs = []
    if exp['class'] != real['class']:
        diffs.append('class')
    if exp['L'] != real['L']:
        diffs.append('span-length')
    if list(exp['index']) != real['index']:
        diffs.append('index')
    for n in exp['index']:
        if n not in real['series']:
            continue
        es, rs = exp['series'][n], real['series'][n]
        if rs['shape'] != [exp['L']]:
            diffs.append('series-shape-not-an-array' if rs['shape'] == ['not-an-array'] else
                         f'series-shape-{len(rs["shape"])}d' if len(rs['shape']) != 1 else 'series-length')
            continue
        if rs['kind'] != DT_KIND[es['dt']] or rs['itemsize'] != es['w']:
            diffs.append('series-dtype')
            continue
        if not all(cell_ok(w, oid, rs['v'][i], es['v'][i], es['dt'], n, i, adopt) for i in range(exp['L'])):
            diffs.append('series-values')
        if not rs['readback']:
            diffs.append('read-paths')
    # (private bookkeeping attributes the specification does not know - a cache, say - are the implementation's own business)
    if list(exp['attrs']) != [a for a in real['attrs'] if not (a.startswith('_') and a not in exp['attrs'])]:
        diffs.append('attrs')
    if bool(exp['strict']) != bool(real['strict']):
        diffs.append('strict')
    for f in ('names', 'check', 'endogenous'):
        if list(exp[f]) != real[f]:
            diffs.append(f)
    for f in ('lags', 'leads', 'size', 'nbytes'):
        if exp[f] != real[f]:
            diffs.append(f)
    if list(exp['sub']) != real['sub']:
        diffs.append('submodels')
    # the values matrix: rows named by the spec (vrows), each row equal to that series
    rv = real['values']
    vrows = list(exp['vrows'])
    if 'error' in rv:
        diffs.append('values-matrix')
    elif not vrows:
        if rv['shape'] not in ([0], [0, exp['L']]):
            diffs.append('values-matrix')
    elif rv['shape'] != [len(vrows), exp['L']]:
        diffs.append('values-matrix')
    else:
        r = w.objs[oid]
        try:
            stack = np.array([r.__dict__['_' + n] for n in vrows if ('_' + n) in r.__dict__])
            if stack.shape != tuple(rv['shape']) or not same_val(stack.tolist(), rv['rows']):
                diffs.append('values-matrix')
        except Exception:
            diffs.append('values-matrix')
    # user attributes: stored as given
    ua = exp['uattr'] if isinstance(exp['uattr'], dict) else {}
    ur = exp['uraw'] if isinstance(exp['uraw'], dict) else {}
    r = w.objs[oid]
    for n, opd in ua.items():
        try:
            got = canon(getattr(r, n))
        except AttributeError:
            diffs.append('user-attribute')
            continue
        if not same_val(got, canon(render(opd, ur[n]))):
            diffs.append('user-attribute')
    return sorted(set(diffs))


def invariants(w, oid):
    """C09_Shape on the real object alone (used where the outcome is unconstrained)."""
    r = w.objs[oid]
    d = r.__dict__
    L = len(d['span'])
    bad = []
    for n in series_names(r, w):
        a = d.get('_' + n)
        if not isinstance(a, np.ndarray):
            bad.append('series-shape-not-an-array')
            continue
        if a.ndim != 1:
            bad.append(f'series-shape-{a.ndim}d')
        elif a.shape[0] != L:
            bad.append('series-length')
        if (oid, n) in w.born and a.dtype != w.born[(oid, n)]:
            bad.append('series-dtype')
    if not bad:
        rows = list(d['names']) if 'names' in d else series_names(r, w)
        try:
            v = r.values
            if rows and (v.shape != (len(rows), L) or not same_val(v.tolist(), np.array([d['_' + n] for n in rows]).tolist())):
                bad.append('values-matrix')
            own = len(rows) * L
            if (r.size if 'submodels' not in d else own) != own or (rows and v.size != own):
                bad.append('size')
        except Exception:
            bad.append('values-matrix')
    return sorted(set(bad))


# ---------------------------------------------------------------------------
# identity scan (C11): no two owners share a mutable object

def walk_obj(owner, prefix, obj, seen, out):
    if id(obj) in seen:
        return
    seen.add(id(obj))
    out.append((id(obj), 'object', owner, (prefix[:-1] or 'self'), obj))
    index = obj.__dict__.get('index', [])
    for k, e in obj.__dict__.items():
        if k == 'span':
            continue  # stored by reference from the caller: out of scope (DESIGN 8)
        name = k[1:] if k.startswith('_') and k[1:] in index else k
        walk(owner, prefix + name, e, seen, out)


def walk(owner, comp, x, seen, out, depth=0):
    """Collect the mutable nodes reachable from x: (id, type name, owner, component, object)."""
    if depth > 8:
        return
    if isinstance(x, np.ndarray):
        out.append((id(x), 'array', owner, comp, x))
        if x.dtype == object:
            for e in x.flat:
                walk(owner, comp, e, seen, out, depth + 1)
    elif isinstance(x, (list, set)):
        out.append((id(x), 'list' if isinstance(x, list) else 'set', owner, comp, x))
        for e in x:
            walk(owner, comp, e, seen, out, depth + 1)
    elif isinstance(x, dict):
        out.append((id(x), 'dict', owner, comp, x))
        for e in x.values():
            walk(owner, comp, e, seen, out, depth + 1)
    elif isinstance(x, tuple):
        for e in x:
            walk(owner, comp, e, seen, out, depth + 1)
    elif isinstance(x, Trace):
        out.append((id(x), 'Trace', owner, comp, x))
        for e in vars(x).values():
            walk(owner, comp, e, seen, out, depth + 1)
    elif isinstance(x, fsic.core.VectorContainer):
        walk_obj(owner, comp + '.', x, seen, out)


CLASS_LISTS = ('NAMES', 'ENDOGENOUS', 'EXOGENOUS', 'PARAMETERS', 'ERRORS', 'CHECK', 'ALIASES', 'PREFERRED_NAMES')


def identity_scan(w):
    nodes = []
    roots = sorted({w.root_of[o] for o in w.objs})
    for rid in roots:
        walk_obj(f'{w.origin[rid]}#{rid}', '', w.objs[rid], set(), nodes)
    for c in ('model', 'linker'):
        k = w.K[c]
        for name in CLASS_LISTS:
            if hasattr(k, name):
                sub = []
                walk(f'class#{c}', name, getattr(k, name), set(), sub)
                nodes += [(i, t, o, name, x) for (i, t, o, _, x) in sub]
    # holders of every mutable node: (relation of the owning tree, owner, last path segment of the component)
    holders = {}
    for (i, t, owner, comp, x) in nodes:
        if t == 'object':
            continue
        holders.setdefault(i, [t, set()])[1].add((owner.split('#')[0], owner, comp.split('.')[-1]))
    keys = set()
    for i, (t, hs) in holders.items():
        owners = {h[1] for h in hs}
        if len(owners) < 2:
            continue        # aliasing inside one owner is left to the behavioural comparison
        rels = sorted({h[0] for h in hs})
        if 'class' in rels:
            for (r, o, c) in hs:
                if r != 'class':
                    keys.add(f'{r}-shares-{c}-{t}-with-class')
        else:
            for a in hs:
                for b in hs:
                    if a[1] < b[1]:
                        (ra, _, ca), (rb, _, cb) = sorted([a, b], key=lambda h: (h[0], h[2]))
                        keys.add(f'{ra}-shares-{ca}-{t}-with-{rb}' + ('' if ca == cb else f'-{cb}'))
    arrays = [(owner, comp, x) for (i, t, owner, comp, x) in nodes if t == 'array' and x.dtype != object and x.size]
    for a in range(len(arrays)):
        for b in range(a + 1, len(arrays)):
            if arrays[a][0] != arrays[b][0] and arrays[a][2] is not arrays[b][2] and np.may_share_memory(arrays[a][2], arrays[b][2]) \
                    and np.shares_memory(arrays[a][2], arrays[b][2]):
                (ra, ca), (rb, cb) = sorted([(arrays[a][0].split('#')[0], arrays[a][1].split('.')[-1]),
                                             (arrays[b][0].split('#')[0], arrays[b][1].split('.')[-1])])
                keys.add(f'{ra}-shares-{ca}-array-memory-with-{rb}' + ('' if ca == cb else f'-{cb}'))
    return sorted(keys)


# ---------------------------------------------------------------------------
# executing one operation

def label(pos):
    return 100 + pos


def execute(w, op, spec_pre):
    """Perform the operation on the real objects.  Returns (exception or None, created real object or None)."""
    o = w.objs[op['o']]
    name = op['op']
    val = render(op['opd'], op['raw']) if op['opd']['cls'] != 'none' else None
    if isinstance(val, np.ndarray):
        # a caller hands the same array object to every operation that names the same operand ("two instances initialised
        # from the same data"): whoever keeps it instead of copying it shows up in the identity scan
        val = w.shared.setdefault(json.dumps([op['opd'], op['raw']], sort_keys=True), val)
    created = None
    with warnings.catch_warnings():
        warnings.simplefilter('ignore')
        try:
            if name == 'AddVariable':
                if op['dt']:
                    o.add_variable(op['n'], val, dtype=PY_DTYPE[op['dt']])
                else:
                    o.add_variable(op['n'], val)
            elif name == 'SetAttr':
                setattr(o, op['n'], val)
            elif name == 'SetItem':
                o[op['n']] = val
            elif name == 'SetLabel':
                o[op['n'], label(op['pos'])] = val
            elif name == 'SetSlice':
                o[op['n'], label(op['a']):label(op['b'])] = val
            elif name == 'SetPos':
                getattr(o, op['n'])[op['pos']] = val
            elif name == 'ReplaceValues':
                o.replace_values(**{n: render(x, r) for n, x, r in zip(op['names'], op['opds'], op['raws'])})
            elif name == 'SetValues':
                o.values = val
            elif name == 'AddAttribute':
                o.add_attribute(op['n'], val)
            elif name == 'ToggleStrict':
                o.strict = not o.strict
            elif name == 'Copy':
                created = {'copy': lambda: o.copy(), 'copy.copy': lambda: copy.copy(o), 'deepcopy': lambda: copy.deepcopy(o)}[op['route']]()
            elif name == 'NewSibling':
                created = sibling(w, spec_pre, op['o'])
            elif name == 'MutateList':
                getattr(o, op['which']).append(op['elem'])
                if 'aliases' in o.__dict__:
                    # alias-extended objects: also edit the instance's alias map and preferred names in place (opaque
                    # extras: a later copy must carry them, nobody else may see them)
                    o.__dict__['aliases']['zz_' + op['which']] = o.__dict__['index'][-1]
                    o.__dict__['preferred_names'].append('zz_' + op['which'])
            elif name == 'SetLagsLeads':
                o.lags = op['lg']
                o.leads = op['ld']
            elif name == 'Solve':
                if isinstance(o, TracerMixin):
                    o.solve(trace=['Y', 'C'])      # a fixed name list: a changing one is C17's subject (DESIGN 9, D10)
                else:
                    o.solve()
            else:
                raise Setup(name)
        except Setup:
            raise
        except Exception as e:  # the code's answer to the operation
            return e, None
    return None, created


def sibling(w, spec_objs, oid):
    so = spec_objs[oid - 1]
    if so['class'] == 'container':
        return w.K['container'](w.span)
    if so['class'] == 'model':
        return w.K['model'](w.span)
    subs = {}
    for k, sid in enumerate(so['sub']):
        subs['ABCDEFGH'[k] + str(sid)] = sibling(w, spec_objs, sid)
    return w.K['linker'](subs)


# ---------------------------------------------------------------------------
# finding keys (computed from the features of the failing case)

OPD_FEAT = {'Scalar': 'scalar', 'StrScalar': 'str-scalar', 'List': 'list', 'ListM': 'short-list', 'ListP': 'long-list', 'Tuple': 'tuple',
            'Range': 'range', 'Nested1': 'nested-list', 'Nested2': 'nested-list', 'Arr1': 'array', 'Arr1One': 'array-len1',
            'Arr1P': 'long-array', 'Arr2NN': 'array-2d', 'Arr2N1': 'array-2d', 'Arr2X': 'array-2d-exact', 'none': ''}


def op_feat(op, pre, into=False, collapse=False):
    name = op['op'].lower()
    parts = [name]
    so = pre[op['o'] - 1]
    if op['op'] in ('SetAttr', 'SetItem', 'SetLabel', 'SetSlice', 'SetPos') and op['n'] not in so['index']:
        parts.append('attributes-name' if op['n'] == 'attributes' else 'unknown-name' if op['op'] != 'SetAttr' else 'new-name')
    if op['op'] == 'AddVariable' and op['n'] in so['index']:
        parts.append('duplicate-name')
    if op['op'] == 'SetLabel' and not 0 <= op['pos'] < so['L']:
        parts.append('absent-label')
    if op['op'] == 'SetSlice' and not (0 <= op['a'] < so['L'] and 0 <= op['b'] < so['L']):
        parts.append('absent-label')
    if op['op'] == 'MutateList':
        parts.append(op['which'])
    if op['op'] == 'Copy':
        parts.append(op['route'].replace('.', '-'))
    if op['op'] == 'ReplaceValues' and len(op['names']) > 1:
        parts.append('several-names')
    f = OPD_FEAT.get(op['opd']['cls'], '')
    if op['op'] == 'ReplaceValues' and len(op['opds']) == 1:
        f = OPD_FEAT.get(op['opds'][0]['cls'], '')
    if collapse and f and f not in ('scalar', 'str-scalar', 'array-len1'):
        f = 'sequence'
    if f:
        parts.append(f)
    if into and op['op'] in ('SetAttr', 'SetItem', 'SetLabel', 'SetSlice', 'SetPos') and op['n'] in so['index']:
        parts.append('into-' + {'f': 'float', 'i': 'int', 'b': 'bool', 's': 'str'}[so['series'][op['n']]['dt']])
    return '-'.join(parts)


PRIORITY = ['class', 'span-length', 'index', 'series-shape', 'series-length', 'series-dtype', 'series-values', 'read-paths', 'names', 'check',
            'endogenous', 'attrs', 'strict', 'lags', 'leads', 'submodels', 'user-attribute', 'values-matrix', 'size', 'nbytes']


def comp_rank(c):
    base = 'series-shape' if c.startswith('series-shape') else c
    return (PRIORITY.index(base) if base in PRIORITY else 99, c)


def relation(w, p, target):
    if w.root_of[p] == w.root_of[target]:
        return 'own-submodel' if p != target and p != w.root_of[target] else 'own-linker' if p != target else 'own'
    return w.origin[p]


# ---------------------------------------------------------------------------
# replaying one history

def nontrivial(rec):
    return any(s['out'] == 'accepted' and s['op']['op'] in MUTATIONS for s in rec['steps'])


def kind_of(rec):
    init = rec['init']
    if init[0]['class'] != 'linker':
        return init[0]['class']
    return 'nested' if any(o['class'] == 'linker' for o in init[1:]) else 'linker'


def replay_history(rec, variant, identity, stats):
    """Returns a list of mismatches [{'key', 'step', 'detail'}] (empty when the code agrees with the spec)."""
    w = setup(rec, variant)
    out = []
    pre = rec['init']
    # the initial projection must already agree (otherwise the adapter's set-up is wrong: machinery failure)
    for oid in sorted(w.objs):
        d = compare_obj(w, oid, pre[oid - 1], project(w, oid), False)
        if d:
            raise Setup(f'initial projection differs for object {oid}: {d}')
    if class_lists(w) != rec['cls0']:
        raise Setup(f'class lists differ at start: {class_lists(w)}')
    id_seen = set()
    if identity:
        for k in identity_scan(w):
            id_seen.add(k)
            out.append({'key': k, 'step': 0, 'detail': 'identity scan of the freshly built objects'})
    prev_real = {oid: project(w, oid) for oid in w.objs}
    prev_extras = {oid: json.loads(json.dumps(extras(w, oid), default=str)) for oid in w.objs}
    damaged = False
    for k, st in enumerate(rec['steps'], start=1):
        op = st['op']
        stats['steps'] += 1
        stats['ops'][op['op']] = stats['ops'].get(op['op'], 0) + 1
        stats['outs'][st['out']] = stats['outs'].get(st['out'], 0) + 1
        target = op['o']
        exc, created = execute(w, op, pre)
        feat = op_feat(op, pre)
        exp_objs = st['objs']
        if created is not None:
            new_root = len(pre) + 1
            bind_tree(w, exp_objs, new_root, created, 'copy' if op['op'] == 'Copy' else 'sibling', new_root)
            if op['op'] == 'Copy' and type(created) is not type(w.objs[target]):
                out.append({'key': f'{feat}-returns-other-class', 'step': k, 'detail': type(created).__name__})
            for oid in w.objs:
                note_born(w, oid)
            if op['op'] == 'Copy':
                src_ids = sorted(p for p in prev_real if w.root_of[p] == w.root_of[target])
                for a, b in zip(src_ids, sorted(o for o in w.objs if o not in prev_real)):
                    w.anc[b] = w.anc.get(a, a)
        try:
            real = {oid: project(w, oid) for oid in sorted(w.objs)}
            real_cls = class_lists(w)
            ex = {oid: extras(w, oid) for oid in w.objs}
        except Setup:
            raise
        except Exception as e:     # the objects cannot even be read any more: the operation damaged them
            out.append({'key': f'{op_feat(op, pre)}-leaves-unreadable-object-{type(e).__name__}', 'step': k, 'detail': str(e)[:300]})
            return out
        outc = st['out']
        mism = []
        # ---- frame / equality of everything the spec describes
        adopt_tree = {p for p in w.objs if w.root_of[p] == w.root_of[target]} if op['op'] == 'Solve' else set()
        diffs = {}
        if len(exp_objs) != len(w.objs):
            diffs[0] = ['object-count']
        for oid in sorted(w.objs):
            if oid <= len(exp_objs):
                d = compare_obj(w, oid, exp_objs[oid - 1], real[oid], oid in adopt_tree)
                if d:
                    diffs[oid] = d
        cls_diff = [f'{c}.{f}' for c in ('model', 'linker') for f in ('NAMES', 'CHECK', 'ENDOGENOUS') if real_cls[c][f] != list(st['cls'][c][f])]
        if cls_diff:
            damaged = True
        # opaque extras (trace, aliases): only the target tree of a Solve may change; a copy equals its source
        ex_diff = []
        jx = {oid: json.loads(json.dumps(ex[oid], default=str)) for oid in ex}
        new_ids = sorted(o for o in w.objs if o not in prev_extras)
        if op['op'] == 'Copy' and new_ids:
            src_ids = sorted(p for p in prev_extras if w.root_of[p] == w.root_of[target])
            for a, b in zip(src_ids, new_ids):
                if not same_val(jx[b], prev_extras[a]):
                    ex_diff.append((b, 'copy-extras'))
        for oid in prev_extras:
            if not same_val(jx[oid], prev_extras[oid]) and w.root_of[oid] != w.root_of[target]:
                ex_diff.append((oid, 'extras'))      # inside the target tree the extras are the operation's own business
        unchanged = all(same_val(real[o], prev_real[o]) for o in prev_real) and len(real) == len(prev_real)
        inv_bad = {oid: invariants(w, oid) for oid in w.objs}
        inv_bad = {o: b for o, b in inv_bad.items() if b}

        if outc == 'unconstrained':
            if inv_bad:
                for o, b in inv_bad.items():
                    mism.append(f'{feat}-unconstrained-breaks-{b[0]}')
            elif diffs or cls_diff or ex_diff:
                stats['diverged'] += 1          # the code took another legal outcome: this history ends here
                return out
        elif outc == 'rejected':
            if exc is None:
                shapes = sorted({x for d in diffs.values() for x in d if x.startswith('series-shape')})
                if shapes:
                    mism.append(f"{feat}-stored-{shapes[0].split('-')[-1]}")
                else:
                    mism.append(op_feat(op, pre, into=op['op'] == 'SetLabel', collapse=op['op'] == 'SetLabel') + '-not-rejected')
            else:
                if not unchanged or diffs or cls_diff:
                    comps = sorted({x for d in diffs.values() for x in d} | set(cls_diff))
                    mism.append(f"{feat}-raised-{type(exc).__name__}-but-changed-{'+'.join(comps[:3]) or 'state'}")
                if st['hint'] not in ('', '?') and f"Did you mean: '{st['hint']}'" not in str(exc):
                    mism.append(f'{feat}-strict-nearmiss-does-not-name-closest-variable')
        else:  # accepted
            strict = '-strict' if pre[target - 1]['strict'] and op['op'] in ('SetAttr', 'AddVariable', 'SetValues', 'AddAttribute') else ''
            if exc is not None:
                k2 = op['opd']['kind'] if op['opd']['cls'] != 'none' else ''
                mism.append(f"{feat}{'-' + k2 if k2 else ''}{strict}-raised-{type(exc).__name__}" + ('' if unchanged else '-and-changed-state'))
            else:
                per_rel = {}
                for oid, d in sorted(diffs.items()):
                    if oid == 0:
                        mism.append(f'{feat}-object-count')
                        continue
                    rel = relation(w, oid, target) if oid in w.root_of else 'new'
                    if op['op'] in ('Copy', 'NewSibling') and w.root_of.get(oid) == len(pre) + 1:
                        rel = 'result'
                    per_rel.setdefault(rel, set()).update(d)
                for rel, comps in sorted(per_rel.items()):
                    cj = '+'.join(sorted(comps))
                    if rel == 'own':
                        first = min(comps, key=comp_rank)
                        k2 = op['opd']['kind'] if op['opd']['cls'] != 'none' and first in ('series-values', 'series-dtype') else ''
                        mism.append(f"{feat}{'-' + k2 if k2 else ''}{strict}-wrong-own-{first}")
                    elif rel == 'result':
                        mism.append(f'{feat}-result-differs-in-{cj}')
                    else:
                        mism.append(f'{feat}-changes-{rel}-{cj}')
                if cls_diff:
                    mism.append(f"{feat}-changes-class-{'+'.join(sorted({c.split('.')[1] for c in cls_diff}))}")
                for oid, what in ex_diff:
                    rel = relation(w, oid, target)
                    mism.append(f'{feat}-changes-{rel}-{what}' if what == 'extras' else f'{feat}-copy-differs-in-extras')
        if identity:
            for key in identity_scan(w):
                if key not in id_seen:
                    id_seen.add(key)
                    out.append({'key': key, 'step': k, 'detail': f'identity scan after {feat}'})
        if mism:
            for key in sorted(set(mism)):
                out.append({'key': key, 'step': k,
                            'detail': {'op': {x: op[x] for x in ('op', 'o', 'n', 'opd', 'dt', 'pos', 'a', 'b', 'names', 'which', 'route')},
                                       'expected_outcome': outc, 'exception': None if exc is None else f'{type(exc).__name__}: {str(exc)[:160]}',
                                       'diffs': {str(o): d for o, d in diffs.items()}, 'class_diffs': cls_diff,
                                       'extras_diffs': ex_diff, 'invariants': inv_bad,
                                       'real_target': real.get(target), 'expected_target': exp_objs[target - 1] if target <= len(exp_objs) else None}})
            if damaged:
                classes_for(variant, fresh=True)
            return out          # the code's state has left the specification: abandon this history here
        pre = exp_objs
        prev_real = real
        prev_extras = jx
    if damaged:
        classes_for(variant, fresh=True)
    return out


# ---------------------------------------------------------------------------

def new_stats():
    return {'n': 0, 'steps': 0, 'nontrivial': 0, 'distinct': 0, 'diverged': 0, 'ops': {}, 'outs': {}, 'keys': {}, 'mismatches': [],
            'by_kind': {}, 'by_variant': {}}


class Replayer:
    def __init__(self, payload):
        self.variants = payload.get('variants') or ['plain']
        self.all_variants = bool(payload.get('all_variants'))
        self.identity = bool(payload.get('identity'))
        self.seed = int(payload.get('seed', 0))
        self.stats = new_stats()
        self.idx = 0

    def __call__(self, rec):
        st = self.stats
        self.idx += 1
        kind = kind_of(rec)
        if kind == 'container':
            vs = ['plain']
        elif self.all_variants:
            vs = self.variants
        else:
            vs = [self.variants[(self.idx + self.seed) % len(self.variants)]]
        st['distinct'] += 1
        if nontrivial(rec):
            st['nontrivial'] += 1
        st['by_kind'][kind] = st['by_kind'].get(kind, 0) + 1
        for v in vs:
            st['n'] += 1
            st['by_variant'][v] = st['by_variant'].get(v, 0) + 1
            try:
                found = replay_history(rec, v, self.identity, st)
            except Setup:
                raise
            except (KeyError, AttributeError, TypeError, IndexError, ValueError) as e:
                # the harness could not even read the real objects after an operation (a missing storage slot, an object of
                # another class where a Trace was): damage done by the code under test, reported like any other disagreement
                import traceback
                found = [{'key': f'history-leaves-unreadable-objects-{type(e).__name__}', 'step': -1, 'detail': traceback.format_exc()[-600:]}]
            for mm in found:
                n = st['keys'].get(mm['key'], 0)
                st['keys'][mm['key']] = n + 1
                if n < 1:
                    st['mismatches'].append({'key': mm['key'], 'record': rec, 'variant': v, 'step': mm['step'], 'detail': mm['detail']})


def main():
    payload = json.load(open(sys.argv[1]))
    rp = Replayer(payload)
    tlc = None
    if payload.get('mode') == 'tlc':
        from harness import core
        t0 = time.time()
        res = core.run_tlc(payload.get('module', 'ContainerMC'), payload['cfg'], workers=1, tag=payload['tag'], simulate=payload.get('simulate'),
                           depth=payload.get('depth'), seed=payload.get('tlc_seed'), heap=payload.get('heap', '2g'),
                           timeout=payload.get('timeout', 3000), keep_records=False, record_sink=rp)
        if not res.ok:
            raise core.MachineryError(f"TLC run failed for {payload['tag']}: rc={res.rc} violated={res.violated} error={res.error}\n" + core.tlc_log_tail(res))
        tlc = {'generated': res.generated, 'distinct': res.distinct, 'depth': res.depth, 'wall': round(time.time() - t0, 2)}
    else:
        for rec in payload['records']:
            rp(rec)
    out = rp.stats
    out['tlc'] = tlc
    print(json.dumps(out, default=str))


if __name__ == '__main__':
    main()
