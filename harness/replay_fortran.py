"""spec -> code for C07: each Script.tla program of the Fortran subset is pushed through
build_fortran_definition, compiled with gfortran, loaded through the ctypes shim as ENGINE of a
FortranEngine subclass and compared with the pure-Python class built from the same symbols (and,
for evaluate, with the reference interpretation of the spec tree) on evaluate / solve_t / solve.

Worker: python -m harness.replay_fortran payload.json
"""
from __future__ import annotations

import json
import math
import random
import sys
import warnings

import numpy as np

import fsic
from fsic.exceptions import NonConvergenceError, SolutionError
from fsic.fortran import FortranEngine, build_fortran_definition

from . import fortran_shim, script_render as R
from .replay_script import data_table, parse, run_reference, Mis

FORTRAN_FUNCS = {'exp', 'log', 'abs', 'max', 'min'}


def in_subset(rec):
    for s in rec['stmts']:
        for tk in [s['lhs']] + s['rhs']:
            if tk['t'] in ('cmp', 'cond', 'bool', 'not', 'verb'):
                return False
            if tk['t'] == 'call' and tk['s'] not in FORTRAN_FUNCS:
                return False
            if tk['t'] == 'var' and tk['k'] == R.NAMED:
                return False
    return rec['reject'] == 'none'


def literal_shapes(rec):
    """Features of the numeric constants (used only to key known literal-related findings)."""
    feats = set()
    for s in rec['stmts']:
        toks = s['rhs']
        for i, tk in enumerate(toks):
            if tk['t'] == 'num' and '.' in tk['s']:
                feats.add('decimal-literal')
            if tk['t'] == 'bin' and tk['s'] == '/':
                # postfix: both operands immediately before the operator are integer literals
                if i >= 2 and toks[i - 1]['t'] == 'num' and toks[i - 2]['t'] == 'num' and '.' not in toks[i - 1]['s'] and '.' not in toks[i - 2]['s']:
                    feats.add('int-literal/int-literal')
            if tk['t'] == 'bin' and tk['s'] == '**':
                if i >= 1 and toks[i - 1]['t'] == 'neg':
                    feats.add('pow-negative-exponent')
    return feats


def close(a, b, rtol=1e-9):   # libm (gfortran) and NumPy round exp/log differently in the last place; iterated, |x| e^x amplifies that (a REAL(4) constant is off by 1e-8)
    a, b = np.asarray(a, dtype=float), np.asarray(b, dtype=float)
    if a.shape != b.shape:
        return False
    with np.errstate(all='ignore'):
        ok = (a == b) | (np.isnan(a) & np.isnan(b)) | (np.abs(a - b) <= rtol * np.maximum(1.0, np.maximum(np.abs(a), np.abs(b))))
    return bool(np.all(ok))


_numeric_warning = [False]   # set when the last outcome() saw NumPy report an invalid / overflowing / dividing-by-zero operation


def outcome(fn):
    with warnings.catch_warnings(record=True) as seen:
        warnings.simplefilter('always')
        try:
            try:
                return ('ret', fn())
            finally:
                _numeric_warning[0] = any(issubclass(w.category, RuntimeWarning) for w in seen)
        except (ValueError, IndexError, KeyError, SolutionError, NonConvergenceError, fsic.exceptions.FortranEngineError) as e:
            return ('exc', type(e).__name__)
        except Exception as e:
            return ('exc', type(e).__name__)


def fill(m, names, table):
    for n in names:
        m.__dict__['_' + n][:] = table[n]


def state(m):
    return {n: m.__dict__['_' + n].copy() for n in m.__dict__['index']}


def cmp_state(a, b, what):
    for n in a:
        if a[n].dtype.kind == 'f':
            if not close(a[n], b[n]):
                return f'{what}: values of {n} differ: python {a[n].tolist()} fortran {b[n].tolist()}'
        elif list(a[n]) != list(b[n]):
            return f'{what}: {n} differs: python {list(a[n])} fortran {list(b[n])}'
    return None


def process(rec, payload, workdir, idx):
    seed = payload.get('seed', 0)
    rng = random.Random(seed * 1000003 + idx)
    names = R.NAME_MAPS[payload.get('namemap', 'plain')]
    script = R.render_program(rec['stmts'], names, 'canon')
    symbols = parse(script)
    Py = fsic.build_model(symbols)
    try:
        text = build_fortran_definition(symbols)
    except Exception as e:
        raise Mis(f'build_fortran_definition-raised:{type(e).__name__}', script=script, error=str(e)[:300])
    try:
        engine = fortran_shim.compile_fortran(text, workdir, f'{idx}')
    except fortran_shim.CompileError as e:
        # gfortran folds constants: 'A = log(-3)' is rejected at compile time.  The property is about data for
        # which values stay finite, so a program that is non-finite on ordinary finite data is outside it.
        nm = list(Py.NAMES)
        Lc = Py.LAGS + Py.LEADS + 2
        pm = Py(range(Lc))
        fill(pm, nm, data_table(nm, Lc, 0, seed))
        o = outcome(lambda: pm._evaluate(Py.LAGS))
        if o[0] == 'exc' or not all(np.all(np.isfinite(v)) for v in state(pm).values() if v.dtype.kind == 'f'):
            return 0
        key = 'fortran-source-does-not-compile'
        if 'Raising a negative REAL' in str(e):
            # gfortran folds constants: a negative literal raised to a REAL power is rejected at compile time.  An integer
            # literal exponent stays an integer in the generated source (never this error); an exponent that is computed
            # ((-2) ** (2 * 2)) becomes a REAL expression
            def literal_exponents(tr):
                if not isinstance(tr, tuple):
                    return True
                if tr[0] == 'bin' and tr[1] == '**':
                    ex = tr[3]
                    while isinstance(ex, tuple) and ex[0] in ('paren', 'neg'):
                        ex = ex[1]
                    if not (isinstance(ex, tuple) and ex[0] == 'num' and str(ex[1]).isdigit()):
                        return False
                return all(literal_exponents(x) for x in tr[1:] if isinstance(x, tuple))
            lit = all(literal_exponents(R.to_tree(s_['rhs'])) for s_ in rec['stmts'])
            key += ':negative-constant-base:' + ('integer-literal-exponent' if lit else 'computed-exponent')
        raise Mis(key, script=script, error=str(e)[-600:])

    class F(FortranEngine, Py):
        ENGINE = engine

    all_names = list(Py.NAMES)
    lags, leads = Py.LAGS, Py.LEADS
    L = lags + leads + 3
    span = range(2000, 2000 + L)
    feats = literal_shapes(rec)
    n = 0
    # variable numbering: the Fortran module numbers variables in the Python class's order
    order = [nm for cls in ('endogenous', 'exogenous', 'parameters', 'errors') for nm in getattr(Py, cls.upper())]
    if order != all_names:
        raise Mis('variable-order', got=order, want=all_names)
    # -- evaluate ------------------------------------------------------------------------------------
    for p in range(lags, L - leads):
        for t in (p, p - L):
            table = data_table(all_names, L, rng.randrange(4), seed + p)
            pm, fm = Py(span), F(span)
            fill(pm, all_names, table)
            fill(fm, all_names, table)
            o1 = outcome(lambda: pm._evaluate(t))
            nonfinite = _numeric_warning[0]
            o2 = outcome(lambda: fm._evaluate(t))
            n += 1
            if nonfinite or not all(np.all(np.isfinite(v)) for m_ in (pm, fm) for v in state(m_).values() if v.dtype.kind == 'f'):
                continue  # the property is about data for which values (intermediate ones included) stay finite
            if o1[0] != o2[0] or (o1[0] == 'exc' and o1[1] != o2[1]):
                if o1 == ('exc', 'ZeroDivisionError'):
                    continue
                raise Mis('evaluate-outcome-differs', script=script, t=t, python=str(o1), fortran=str(o2), features=sorted(feats))
            bad = cmp_state(state(pm), state(fm), f'evaluate(t={t})')
            if bad:
                key = 'evaluate-values-differ'
                if 'int-literal/int-literal' in feats:
                    key += ':integer-literal-division'
                elif 'decimal-literal' in feats:
                    key += ':decimal-literal-single-precision'
                raise Mis(key, script=script, why=bad, features=sorted(feats))
            # and both equal the reference interpretation of the specification's tree
            if p == lags and t == p:
                ev = run_reference(rec, names, span, t, table)
                for e in ev:
                    if e[0] == 'w' and not close(pm.__dict__['_' + e[1]][e[3]], e[5], 1e-9):
                        raise Mis('python-evaluate-differs-from-reference', script=script, cell=(e[1], e[3]))
    # -- solve_t -------------------------------------------------------------------------------------
    option_sets = []
    for _ in range(payload.get('option_sets', 6)):
        option_sets.append(dict(min_iter=rng.choice([0, 0, 2, 3]), max_iter=rng.choice([0, 1, 2, 5, 30]), tol=rng.choice([1e-10, 1e-6, 0.5]),
                                offset=rng.choice([0, 0, -1, 1, L + 1]), failures=rng.choice(['raise', 'ignore']),
                                errors=rng.choice(['raise', 'skip', 'ignore', 'replace'])))
    for opts in option_sets:
        for p in range(L):
            t = p if rng.random() < 0.6 else p - L
            table = data_table(all_names, L, rng.choice([2, 2, 3]), seed + rng.randrange(1000))
            pm, fm = Py(span), F(span)
            fill(pm, all_names, table)
            fill(fm, all_names, table)
            o1 = outcome(lambda: pm.solve_t(t, **opts))
            # the solver swallows NumPy's warnings unless errors='raise': a twin run under that policy tells whether the data
            # makes any value - intermediate ones included - non-finite along the way
            tw = Py(span)
            fill(tw, all_names, table)
            nonfinite = outcome(lambda: tw.solve_t(t, **dict(opts, errors='raise', catch_first_error=True))) == ('exc', 'SolutionError')
            o2 = outcome(lambda: fm.solve_t(t, **opts))
            n += 1
            finite = not nonfinite and all(np.all(np.isfinite(v)) for m_ in (pm, fm) for k_, v in state(m_).items() if v.dtype.kind == 'f')
            if not finite or o1 == ('exc', 'ZeroDivisionError') or o1 == o2 == ('exc', 'SolutionError'):
                continue  # the property is about data for which values stay finite
            if o1 != o2:
                feasible = lags <= p < L - leads
                raise Mis('solve_t-outcome-differs' + ('' if feasible else ':infeasible-period'), script=script, t=t, options=opts,
                          python=str(o1), fortran=str(o2))
            bad = cmp_state(state(pm), state(fm), f'solve_t(t={t}, {opts})')
            if bad:
                key = 'solve_t-state-differs'
                if 'int-literal/int-literal' in feats:
                    key += ':integer-literal-division'
                elif 'decimal-literal' in feats:
                    key += ':decimal-literal-single-precision'
                raise Mis(key, script=script, why=bad, options=opts, features=sorted(feats))
    # -- solve ---------------------------------------------------------------------------------------
    for opts in option_sets[:3]:
        for se in ((None, None), (span[lags], span[L - 1 - leads]), (span[min(lags + 1, L - 1 - leads)], None)):
            table = data_table(all_names, L, 1, seed + rng.randrange(1000))
            pm, fm = Py(span), F(span)
            fill(pm, all_names, table)
            fill(fm, all_names, table)
            kw = dict(opts)
            if se[0] is not None:
                kw['start'] = se[0]
            if se[1] is not None:
                kw['end'] = se[1]
            o1 = outcome(lambda: pm.solve(**kw))
            tw = Py(span)
            fill(tw, all_names, table)
            nonfinite = outcome(lambda: tw.solve(**dict(kw, errors='raise', catch_first_error=True))) == ('exc', 'SolutionError')
            o2 = outcome(lambda: fm.solve(**kw))
            n += 1
            finite = not nonfinite and all(np.all(np.isfinite(v)) for m_ in (pm, fm) for k_, v in state(m_).items() if v.dtype.kind == 'f')
            if not finite or o1 == ('exc', 'ZeroDivisionError') or o1 == o2 == ('exc', 'SolutionError'):
                continue
            if (o1[0], o1[1] if o1[0] == 'exc' else [list(x) for x in o1[1]]) != (o2[0], o2[1] if o2[0] == 'exc' else [list(x) for x in o2[1]]):
                raise Mis('solve-outcome-differs', script=script, options=kw, python=str(o1), fortran=str(o2))
            bad = cmp_state(state(pm), state(fm), f'solve({kw})')
            if bad:
                key = 'solve-state-differs'
                if 'int-literal/int-literal' in feats:
                    key += ':integer-literal-division'
                elif 'decimal-literal' in feats:
                    key += ':decimal-literal-single-precision'
                raise Mis(key, script=script, why=bad, options=kw, features=sorted(feats))
    return n


def process_frame(rec, payload, workdir, idx):
    """C04 on the Fortran engine: solving period t through FortranEngine changes nothing but the cells the equations assign
    at t (and status / iterations at t) - whatever the data, non-finite inputs and errors='replace' included."""
    seed = payload.get('seed', 0)
    rng = random.Random(seed * 7 + idx)
    names = R.NAME_MAPS[payload.get('namemap', 'plain')]
    script = R.render_program(rec['stmts'], names, 'canon')
    symbols = parse(script)
    Py = fsic.build_model(symbols)
    try:
        engine = fortran_shim.compile_fortran(build_fortran_definition(symbols), workdir, f'frame{idx}')
    except Exception:
        return 0        # whether the source compiles is C07's subject

    class F(FortranEngine, Py):
        ENGINE = engine

    all_names = list(Py.NAMES)
    endo = set(Py.ENDOGENOUS)
    others = [nm for nm in all_names if nm not in endo]
    lags, leads = Py.LAGS, Py.LEADS
    L = lags + leads + 3
    span = range(2000, 2000 + L)
    writes = {(names[s_['lhs']['n'] - 1], s_['lhs']['k']) for s_ in rec['stmts']}
    n = 0
    for p in range(lags, L - leads):
        for errors in ('replace', 'ignore', 'skip'):
            for cls_name, cls in (('fortran', F), ('python', Py)):
                m = cls(span)
                table = data_table(all_names, L, 3, seed + p)
                fill(m, all_names, table)
                if others:
                    m.__dict__['_' + rng.choice(others)][p] = np.nan      # a non-finite input of the period being solved
                before = {k_: v.copy() for k_, v in state(m).items()}
                outcome(lambda: m.solve_t(p, max_iter=3, failures='ignore', errors=errors))
                after = state(m)
                n += 1
                for k_ in before:
                    b, a = before[k_], after[k_]
                    for q in range(L):
                        same = (b[q] == a[q]) or (b.dtype.kind == 'f' and np.isnan(b[q]) and np.isnan(a[q]))
                        if same:
                            continue
                        allowed = (k_ in ('status', 'iterations') and q == p) or any(k_ == nm and q == p + off for nm, off in writes)
                        if not allowed:
                            what = 'non-endogenous-variable' if k_ in others else 'other-period' if q != p else 'other-cell'
                            raise Mis(f'c04-{cls_name}-engine-changed-{what}', script=script, t=p, errors=errors, variable=k_, position=q,
                                      before=repr(b[q]), after=repr(a[q]))
    return n


def long_programs(seed):
    """Synthetic long programs (continuation lines, dozens of variables) expressed as Script.tla records."""
    rng = random.Random(seed)
    recs = []
    for nvars in (12, 25, 40, 18, 22, 27, 31, 36, 14, 33):
        rhs = []
        for i in range(2, nvars + 1):
            rhs.append({'t': 'var', 's': rng.choice(['v', 'v', 'p', 'e']), 'n': i, 'k': rng.choice([0, 0, -1, 1])})
            rhs.append({'t': 'num', 's': rng.choice(['2', '0.5', '3', '0.25', '0.025', '10']), 'n': 0, 'k': 0})
            rhs.append({'t': 'bin', 's': rng.choice(['*', '*', '/']), 'n': 0, 'k': 0})
            if rng.random() < 0.6:   # ( V * 0.025 ): a parenthesised group that ends in a literal
                rhs.append({'t': 'paren', 's': '', 'n': 0, 'k': 0})
            if rng.random() < 0.2:   # ( ... ) / 3: an integer ratio closing a group
                rhs.append({'t': 'num', 's': rng.choice(['3', '7']), 'n': 0, 'k': 0})
                rhs.append({'t': 'bin', 's': '/', 'n': 0, 'k': 0})
            if i > 2:
                rhs.append({'t': 'bin', 's': rng.choice(['+', '-']), 'n': 0, 'k': 0})
        stmts = [{'lhs': {'t': 'var', 's': 'v', 'n': 1, 'k': 0}, 'rhs': rhs}]
        names = [{'n': i, 'type': 'x', 'lag': 0, 'lead': 0} for i in range(1, nvars + 1)]
        recs.append({'stmts': stmts, 'reject': 'none', 'names': names, 'modelnames': list(range(1, nvars + 1)), 'lags': 1, 'leads': 1,
                     'evalorder': [1], 'events': [], 'opts': [], 'synthetic': True})
    return recs


def main():
    payload = json.load(open(sys.argv[1]))
    workdir = payload['workdir']
    out = {'n': 0, 'nontrivial': 0, 'distinct': 0, 'mismatches': [], 'keys': {}, 'compiled': 0}
    for idx, rec in enumerate(payload['records']):
        if not rec.get('synthetic') and not in_subset(rec):
            continue
        out['distinct'] += 1
        try:
            out['n'] += (process_frame if payload.get('mode') == 'frame' else process)(rec, payload, workdir, payload.get('base', 0) + idx)
            out['nontrivial'] += 1
            out['compiled'] += 1
        except Mis as m:
            c = out['keys'].get(m.key, 0)
            out['keys'][m.key] = c + 1
            if c < 2:
                out['mismatches'].append({'key': m.key, 'record': rec, 'detail': m.detail})
    print(json.dumps(out, default=str))


if __name__ == '__main__':
    main()
