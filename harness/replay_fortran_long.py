"""Worker wrapper: run replay_fortran on the synthetic long programs."""
import json
import sys

from . import replay_fortran as rf


def main():
    payload = json.load(open(sys.argv[1]))
    payload['records'] = rf.long_programs(payload.get('seed', 0))
    path = sys.argv[1] + '.long.json'
    json.dump(payload, open(path, 'w'))
    sys.argv[1] = path
    rf.main()


if __name__ == '__main__':
    main()
