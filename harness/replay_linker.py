"""spec -> code for Linker.tla: realise each behaviour on a real BaseLinker with scripted
submodels that log evaluation order, and compare every observable with the spec; for
single-submodel linkers also compare with the bare model solved directly (twin).

Worker: python -m harness.replay_linker payload.json
"""
from __future__ import annotations

import json
import sys
import warnings

import numpy as np
import pandas as pd

import fsic
from fsic.exceptions import InitialisationError, NonConvergenceError, SolutionError

UNKNOWN = 9
KEYS = {1: 'A', 2: 'B', 3: 'C', 4: 'D', UNKNOWN: 'zzz'}

_sub_classes = {}


def sub_class(lags, leads):
    key = (lags, leads)
    if key not in _sub_classes:
        class Sub(fsic.BaseModel):
            ENDOGENOUS = ['Y']
            EXOGENOUS = ['Z']
            NAMES = ENDOGENOUS + EXOGENOUS
            CHECK = ENDOGENOUS
            LAGS = lags
            LEADS = leads

            def _evaluate(self, t, **kwargs):
                d = self.__dict__
                sh = d['_v_shared']
                sh['order'].append(d['_v_id'])
                d['_v_npass'] += 1
                j = d['_v_npass']
                seq = d['_v_script']
                if j > len(seq):
                    raise AssertionError('script exhausted')
                d['_Y'][t] = seq[j - 1] * sh['scale']
        _sub_classes[key] = Sub
    return _sub_classes[key]


_link_classes = {}


def link_class(lv):
    if lv not in _link_classes:
        class Link(fsic.BaseLinker):
            ENDOGENOUS = ['G'] if lv else []
            EXOGENOUS = []
            NAMES = ENDOGENOUS + EXOGENOUS
            CHECK = ENDOGENOUS

            def solve_t_before(self, t, **kwargs):
                self.__dict__['_v_shared']['nB'] += 1

            def solve_t_after(self, t, **kwargs):
                self.__dict__['_v_shared']['nA'] += 1

            def evaluate_t_before(self, t, **kwargs):
                self.__dict__['_v_shared']['order'].append(0)

            def evaluate_t_after(self, t, **kwargs):
                sh = self.__dict__['_v_shared']
                sh['order'].append(-1)
                sh['iters'] += 1
                if lv:
                    self.__dict__['_G'][t] = sh['link'][sh['iters'] - 1] * sh['scale']
        _link_classes[lv] = Link
    return _link_classes[lv]


def seqf(x, n):
    """ToJson renders functions over 1..n as arrays and the empty function as {} or []."""
    if isinstance(x, list):
        return x
    return [x[str(i)] for i in range(1, n + 1)] if x else []


def make_span(kind, L, other=False, mode=0):
    """The common span, or (other) a span that differs from it: one period longer, or - for spans of three periods and more -
    of the same length and with the same first and last labels but another label inside."""
    n = L + 1 if other and not (mode == 1 and L >= 3) else L
    inner = other and mode == 1 and L >= 3
    if kind == 'list':
        s = [f'p{i}' for i in range(n)]
        if inner:
            s[1] = 'pX'
        return s
    if kind == 'nparray':
        s = np.arange(100, 100 + n)
        if inner:
            s[1] = 1000
        return s
    if kind == 'pdindex':
        s = [f'q{i}' for i in range(n)]
        if inner:
            s[1] = 'qX'
        return pd.Index(s)
    if kind == 'pdperiod':
        s = list(pd.period_range(start='2000', periods=n, freq='Y'))
        if inner:
            s[1] = pd.Period('1990', freq='Y')
        return pd.PeriodIndex(s)
    if inner:
        return [100, 1000] + list(range(102, 100 + n))
    return range(100, 100 + n)


def build(rec, variant):
    cfg = rec['cfg']
    n, L, scale = cfg['n'], cfg['L'], variant['scale']
    tpos = cfg['t'] + L if cfg['t'] < 0 else cfg['t']
    shared = {'order': [], 'nB': 0, 'nA': 0, 'iters': 0, 'scale': scale,
              'link': [o['link'] for o in rec['hist']]}
    lags, leads, ok = seqf(cfg['lags'], n), seqf(cfg['leads'], n), seqf(cfg['spanOK'], n)
    v0, vsrc = seqf(cfg['v0'], n), seqf(cfg['vsrc'], n)
    sel = list(cfg['sel'])
    subs = {}
    src = tpos + cfg['offset']
    for i in range(1, n + 1):
        span = make_span(variant.get('span', 'range'), L, other=not ok[i - 1], mode=(i + L + len(rec['hist'])) % 2)
        m = sub_class(lags[i - 1], leads[i - 1])(span)
        m.__dict__['_Y'][:] = [30.0 + 7 * i + p for p in range(len(span))]
        m.__dict__['_Z'][:] = [3.5 * i + p for p in range(len(span))]
        m.__dict__['_Y'][tpos] = v0[i - 1] * scale
        if cfg['offset'] != 0 and 0 <= src < L:
            m.__dict__['_Y'][src] = vsrc[i - 1] * scale
        pos = sel.index(i) if i in sel else None
        m.__dict__['_v_script'] = [o['subs'][pos] for o in rec['hist']] if pos is not None else []
        m.__dict__['_v_shared'] = shared
        m.__dict__['_v_id'] = i
        m.__dict__['_v_npass'] = 0
        subs[KEYS[i]] = m
    return cfg, subs, shared, tpos, sel


def snap(m):
    return {nm: m.__dict__['_' + nm].copy() for nm in m.__dict__['index']}


def eqv(a, b):
    a, b = np.asarray(a), np.asarray(b)
    if a.dtype.kind == 'f':
        return bool(np.all((a == b) | (np.isnan(a) & np.isnan(b))))
    return bool(np.all(a == b))


def run_one(rec, variant):
    cfg, subs, shared, tpos, sel = build(rec, variant)
    fin = rec['fin']
    n, L, scale = cfg['n'], cfg['L'], variant['scale']
    diffs, obs = [], {}
    try:
        linker = link_class(bool(cfg['lv']))(subs)
        constructed = True
    except InitialisationError:
        constructed = False
    except Exception as e:  # anything else at construction is not what the property allows
        return [f'construct:{type(e).__name__}'], {'res': f'construct:{type(e).__name__}', 'span': variant.get('span', 'range'), 'msg': str(e)[:120]}
    exp_kind = fin['res']['kind']
    if not constructed:
        obs['res'] = 'InitialisationError'
        if exp_kind != 'InitialisationError':
            diffs.append('res')
        return diffs, obs
    if exp_kind == 'InitialisationError':
        return ['res:constructed-despite-differing-spans'], {'res': 'constructed'}
    linker.__dict__['_v_shared'] = shared
    if n == 0:
        # a linker without submodels has an empty span: only the construction-level claims apply
        if linker.lags != rec['linklags'] or linker.leads != rec['linkleads'] or len(linker.span) != 0:
            diffs.append('empty-linker')
        try:
            linker.solve()
            diffs.append('empty-linker-solve-returned')
        except SolutionError:
            pass
        return diffs, {'res': 'constructed-empty'}
    if cfg['lv']:
        linker.__dict__['_G'][:] = [60.0 + p for p in range(L)]
        linker.__dict__['_G'][tpos] = cfg['l0'] * scale
        src = tpos + cfg['offset']
        if cfg['offset'] != 0 and 0 <= src < L:
            linker.__dict__['_G'][src] = cfg['lsrc'] * scale
    # construction-level claims
    if linker.lags != rec['linklags'] or linker.LAGS != rec['linklags']:
        diffs.append('lags')
    if linker.leads != rec['linkleads'] or linker.LEADS != rec['linkleads']:
        diffs.append('leads')
    before = {'_': snap(linker), **{k_: snap(m) for k_, m in subs.items()}}
    default_sel = sel == list(range(1, n + 1))
    kw = dict(min_iter=cfg['min'], max_iter=cfg['max'], tol=cfg['tol'] * scale, offset=cfg['offset'], failures=cfg['failures'])
    if not (default_sel and variant['default_none']):
        kw['submodels'] = [KEYS[i] for i in sel]
    with warnings.catch_warnings():
        warnings.simplefilter('ignore')
        try:
            if variant['entry'] == 'solve_t' or cfg['min'] > cfg['max']:  # linker.solve() itself rejects min_iter > max_iter
                r = linker.solve_t(cfg['t'], **kw)
            else:
                lab = list(linker.span)[tpos]
                r = linker.solve(start=lab, end=lab, **kw)
                r = r[2][0] if (isinstance(r, tuple) and len(r) == 3 and len(r[2]) == 1) else repr(r)
            obs['res'] = 'True' if r is True else 'False' if r is False else repr(r)
        except (KeyError, IndexError, ValueError, NonConvergenceError, SolutionError) as e:
            obs['res'] = type(e).__name__
        except Exception as e:
            obs['res'] = type(e).__name__
            obs['msg'] = str(e)[:200]
    if obs['res'] != exp_kind:
        diffs.append('res')
    obs.update(lst=str(linker.status[tpos]), lit=int(linker.iterations[tpos]), order=shared['order'], nB=shared['nB'], nA=shared['nA'],
               sst=[str(subs[KEYS[i]].status[tpos]) for i in range(1, n + 1)],
               sit=[int(subs[KEYS[i]].iterations[tpos]) for i in range(1, n + 1)],
               npass=[subs[KEYS[i]].__dict__['_v_npass'] for i in range(1, n + 1)],
               sval=[float(subs[KEYS[i]].Y[tpos]) for i in range(1, n + 1)])
    for f in ('lst', 'lit', 'nB', 'nA'):
        if obs[f] != fin[f]:
            diffs.append(f)
    if obs['order'] != list(fin['order']):
        diffs.append('order')
    for f in ('sst', 'sit', 'npass'):
        if obs[f] != seqf(fin[f], n):
            diffs.append(f)
    if not eqv(obs['sval'], [v * scale for v in seqf(fin['sval'], n)]):
        diffs.append('sval')
    if cfg['lv'] and not eqv(float(linker.G[tpos]), fin['lval'] * scale):
        diffs.append('lval')
    # nothing outside period t changes, anywhere
    after = {'_': snap(linker), **{k_: snap(m) for k_, m in subs.items()}}
    for owner in before:
        for nm in before[owner]:
            mask = np.ones(len(before[owner][nm]), dtype=bool)
            mask[tpos] = False
            if not eqv(before[owner][nm][mask], after[owner][nm][mask]):
                diffs.append(f'elsewhere:{owner}.{nm}')
            if nm == 'Z' and not eqv(before[owner][nm], after[owner][nm]):
                diffs.append(f'exogenous:{owner}')
    # single submodel, no linker equations: same as solving the model directly
    if n == 1 and sel == [1] and not cfg['lv'] and exp_kind in ('True', 'False', 'NonConvergenceError'):
        cfg2, subs2, shared2, _, _ = build(rec, variant)
        bare = subs2['A']
        with warnings.catch_warnings():
            warnings.simplefilter('ignore')
            try:
                r2 = bare.solve_t(cfg['t'], min_iter=cfg['min'], max_iter=cfg['max'], tol=cfg['tol'] * scale, offset=cfg['offset'],
                                  failures=cfg['failures'])
                r2 = 'True' if r2 is True else 'False'
            except (NonConvergenceError, SolutionError, IndexError, ValueError, AssertionError) as e:
                r2 = type(e).__name__
        sub = subs['A']
        if cfg['min'] <= cfg['max'] and (r2 != obs['res'] or str(bare.status[tpos]) != str(sub.status[tpos])
                                          or int(bare.iterations[tpos]) != int(sub.iterations[tpos]) or not eqv(bare.Y, sub.Y)):
            diffs.append('single-vs-bare')
            obs['bare'] = {'res': r2, 'st': str(bare.status[tpos]), 'it': int(bare.iterations[tpos]), 'Y': float(bare.Y[tpos])}
    return diffs, obs


def key_of(rec, variant, diffs, obs):
    cfg, fin = rec['cfg'], rec['fin']
    feats = []
    if cfg['max'] == 0:
        feats.append('max_iter=0')
    if cfg['offset'] != 0:
        feats.append('offset')
    if any(s == UNKNOWN for s in cfg['sel']):
        feats.append('unknown-id')
    d = '+'.join(sorted(set(x.split(':')[0] for x in diffs)))
    if d.startswith('construct'):
        return f"linker construction over {variant.get('span', 'range')} spans raised {obs['res'].split(':')[1]} spec={fin['res']['kind']}"
    return f"linker[{variant['entry']} scale={variant['scale']}] {d} spec={fin['res']['kind']}/{fin['lst']} code={obs.get('res')}/{obs.get('lst')} {' '.join(feats)}".strip()


def main():
    payload = json.load(open(sys.argv[1]))
    variants = payload['variants']
    out = {'n': 0, 'nontrivial': 0, 'distinct': 0, 'mismatches': [], 'keys': {}}
    for idx, rec in enumerate(payload['records']):
        out['distinct'] += 1
        if rec['hist']:
            out['nontrivial'] += 1
        vs = variants if payload.get('all_variants') else [variants[(idx + payload.get('seed', 0)) % len(variants)]]
        for v in vs:
            out['n'] += 1
            diffs, obs = run_one(rec, v)
            if diffs:
                key = key_of(rec, v, diffs, obs)
                c = out['keys'].get(key, 0)
                out['keys'][key] = c + 1
                if c < 2:
                    out['mismatches'].append({'key': key, 'record': rec, 'variant': v, 'diffs': diffs, 'observed': obs, 'expected': rec['fin']})
    print(json.dumps(out, default=str))


if __name__ == '__main__':
    main()
