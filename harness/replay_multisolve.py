"""spec -> code for MultiSolve.tla: realise each behaviour on a scripted model and compare
solve() with (a) the spec's expected visits / triple / per-period state / exception and
(b) a twin model driven by the explicit loop of solve_t over the spec's range; also
solve_period(label) vs solve_t(position) on every span type.

Worker: python -m harness.replay_multisolve payload.json
"""
from __future__ import annotations

import json
import sys
import warnings

import numpy as np
import pandas as pd

import fsic
from fsic.exceptions import NonConvergenceError, SolutionError

MULTI = 99
KINDS = ['range', 'range0', 'rangeneg', 'listfalsy', 'listfloat', 'liststr', 'listmixed', 'npint', 'npdesc', 'npperm', 'npstr', 'pdindex', 'pdperiodA', 'pdperiodQ', 'pddatetime']


class ScriptedError(Exception):
    pass


def make_span(kind, L):
    if kind == 'range':
        return range(1000, 1000 + L)
    if kind == 'range0':
        return range(0, L)  # the first label is 0 (falsy)
    if kind == 'rangeneg':
        return range(-2, L - 2)  # event time: labels -2, -1, 0, 1, ... (a negative label is a label, not a position from the end)
    if kind == 'listfalsy':
        return [''] + [f'b{i}' for i in range(1, L)] if L else []
    if kind == 'listfloat':
        return [0.5 * i for i in range(L)]  # the first label is 0.0 (falsy)
    if kind == 'liststr':
        return [f'p{i}' for i in range(L)]
    if kind == 'listmixed':
        return [('t', i) if i % 2 else f'q{i}' for i in range(L)]
    if kind == 'npint':
        return np.arange(2000, 2000 + L)
    if kind == 'npdesc':
        return np.arange(2000 + L - 1, 1999, -1)  # labels in descending order
    if kind == 'npperm':
        return np.array([2000 + (3 * i + 1) % (L + 1 if (L + 1) % 3 else L + 2) for i in range(L)])  # neither ascending nor descending
    if kind == 'npstr':
        return np.array([f's{i}' for i in range(L)], dtype=object) if L else np.array([], dtype=object)
    if kind == 'pdindex':
        return pd.Index([f'x{i}' for i in range(L)])
    if kind == 'pdperiodA':
        return pd.period_range(start='2000', periods=L, freq='Y')
    if kind == 'pdperiodQ':
        return pd.period_range(start='2000Q1', periods=L, freq='Q')
    if kind == 'pddatetime':
        return pd.date_range(start='2000-01-01', periods=L, freq='D')
    raise ValueError(kind)


def label_of(kind, span, L, lab):
    """Concrete label for the spec's label id (0 None, 1..L in span, L+1 absent, MULTI ambiguous)."""
    if lab == 0:
        return None, True
    if 1 <= lab <= L:
        return span[lab - 1], True
    if lab == MULTI:
        if kind == 'pdperiodQ' and L >= 2:
            return '2000', True  # a year in a quarterly index: resolves to a slice
        return None, False
    absent = {'range': 5, 'range0': 999, 'rangeneg': 999, 'listfalsy': 'nope', 'listfloat': 99.25, 'liststr': 'nope', 'listmixed': ('t', 99), 'npint': 5, 'npdesc': 5, 'npperm': 5, 'npstr': 'nope', 'pdindex': 'nope',
              'pdperiodA': pd.Period('1990', freq='Y'), 'pdperiodQ': pd.Period('1990Q1', freq='Q'),
              'pddatetime': pd.Timestamp('1990-01-01')}[kind]
    return absent, True


_classes = {}


def model_class(lags, leads):
    key = (lags, leads)
    if key not in _classes:
        class M(fsic.BaseModel):
            ENDOGENOUS = ['Y']
            EXOGENOUS = ['Z']
            NAMES = ENDOGENOUS + EXOGENOUS
            CHECK = ENDOGENOUS
            LAGS = lags
            LEADS = leads

            def _evaluate(self, t, **kwargs):
                d = self.__dict__
                pos = t if t >= 0 else t + len(d['span'])
                d['_v_log'].append(pos)
                f = d['_v_fault'][pos]
                if f == 'none':
                    d['_Y'][t] = 5.0
                elif f == 'nan':
                    d['_Y'][t] = np.nan
                elif f == 'div':
                    d['_Y'][t] = d['_Y'][t] + 1.0
                elif f == 'exc':
                    raise ScriptedError(f'period {pos}')
        _classes[key] = M
    return _classes[key]


VIA_REINDEX = False   # when set, every model is obtained by solving a longer model and reindexing it (object history)


def build(cfg, kind):
    L = cfg['L']
    if VIA_REINDEX and L >= 1:
        # history: a model over one more period is solved over its default range, then reindexed to the L periods
        # from its second one on; the behaviour of the specification applies to the result like to a fresh object
        big = make_span(kind, L + 1)
        m0 = model_class(cfg['lags'], cfg['leads'])(big)
        m0.__dict__['_v_fault'] = ['none'] * (L + 1)
        m0.__dict__['_v_log'] = []
        try:
            with warnings.catch_warnings():
                warnings.simplefilter('ignore')
                m0.solve(max_iter=3, failures='ignore', errors='ignore')
                list(m0.iter_periods())
        except Exception:
            pass
        span = big[1:]
        m = m0.reindex(span)
        m.__dict__['_status'][:] = '-'
        m.__dict__['_iterations'][:] = -1
    else:
        span = make_span(kind, L)
        m = model_class(cfg['lags'], cfg['leads'])(span)
    m.__dict__['_Y'][:] = [float(10 + i) for i in range(L)]
    m.__dict__['_Z'][:] = [float(50 + i) for i in range(L)]
    if cfg.get('prior'):
        m.__dict__['_status'][:] = '.'
        m.__dict__['_iterations'][:] = 7
    m.__dict__['_v_fault'] = [cfg['fault'][i] for i in range(L)] if L else []
    m.__dict__['_v_log'] = []
    return m, span


def state(m):
    return {n: m.__dict__['_' + n].copy() for n in m.__dict__['index']}


def same_state(a, b):
    for n in a:
        x, y = a[n], b[n]
        if x.dtype.kind == 'f':
            if not np.all((x == y) | (np.isnan(x) & np.isnan(y))):
                return n
        elif not np.all(x == y):
            return n
    return None


def opts_of(cfg):
    return dict(min_iter=cfg['min'], max_iter=cfg['max'], tol=0.5, failures=cfg['failures'], errors=cfg['errors'])


def call(fn):
    with warnings.catch_warnings():
        warnings.simplefilter('ignore')
        try:
            return 'returned', fn()
        except (ValueError, KeyError, IndexError, SolutionError, NonConvergenceError) as e:
            return type(e).__name__, e
        except Exception as e:
            return type(e).__name__, e


def run_record(rec, kind):
    cfg = rec['cfg']
    L = cfg['L']
    diffs = []
    m, span = build(cfg, kind)
    s_lab, ok1 = label_of(kind, span, L, cfg['start'])
    e_lab, ok2 = label_of(kind, span, L, cfg['end'])
    if not (ok1 and ok2):
        return None, None  # this span type cannot express the label class
    kw = opts_of(cfg)
    if s_lab is not None:
        kw['start'] = s_lab
    if e_lab is not None:
        kw['end'] = e_lab
    kindres, val = call(lambda: m.solve(**kw))
    obs = {'res': kindres}
    exp = rec['res']['kind']
    if kindres != exp:
        diffs.append('res')
    # visited periods (1-based), in order, each once per consecutive run of passes
    log = m.__dict__['_v_log']
    visited = []
    for p in log:
        if not visited or visited[-1] != p + 1:
            visited.append(p + 1)
    obs['visited'] = visited
    # a period rejected as infeasible makes no pass, so the pass log cannot show it
    exp_visited = [p for p in rec['visited'] if not (p - cfg['lags'] < 1 or p + cfg['leads'] > L)]
    # periods whose summary makes no pass at all cannot be seen in the pass log (max_iter >= 1 always here)
    if visited != exp_visited:
        diffs.append('visited')
    # per-period status / iterations
    st = [str(x) for x in m.status]
    it = [int(x) for x in m.iterations]
    obs['status'] = st
    obs['iterations'] = it
    for p in range(L):
        e = rec['per'][p]
        if st[p] != e['st'] or it[p] != e['it']:
            diffs.append(f'per[{p + 1}]')
            break
    # untouched periods keep their values
    for p in range(L):
        if (p + 1) not in exp_visited:
            if m.Y[p] != float(10 + p):
                diffs.append('untouched-values')
                break
    # returned triple
    if kindres == 'returned' and exp == 'returned':
        try:
            labels, indexes, solved = val
            lab_exp = [span[p - 1] for p in exp_visited]
            if [int(i) for i in indexes] != [p - 1 for p in exp_visited] or list(solved) != list(rec['flags']) \
                    or len(labels) != len(lab_exp) or any(not (a == b) for a, b in zip(labels, lab_exp)) \
                    or not all(isinstance(x, bool) for x in solved):
                diffs.append('triple')
                obs['triple'] = repr(val)
        except Exception as e:
            diffs.append('triple')
            obs['triple'] = repr(val)
    # twin: explicit loop of solve_t over the spec's range with the same options
    early = exp in ('ValueError', 'KeyError') or (exp == 'SolutionError' and L == 0)
    if not early:
        # iter_periods(): the PeriodIter has the length of the spec's range, yields (position, label) pairs in
        # span order and can be iterated again
        it_m, _ = build(cfg, kind)
        kwp = {k_: v_ for k_, v_ in kw.items() if k_ in ('start', 'end')}
        ko, pi = call(lambda: it_m.iter_periods(**kwp))
        if ko != 'returned':
            diffs.append('iter_periods-raised')
        else:
            want_pairs = [(p - 1, span[p - 1]) for p in rec['range']]
            first = [(int(a), b) for a, b in pi]
            second = [(int(a), b) for a, b in pi]
            if len(pi) != len(want_pairs) or first != want_pairs or second != want_pairs:
                diffs.append('iter_periods')
        tw, _ = build(cfg, kind)
        kw_t = opts_of(cfg)
        flags = []
        tkind = 'returned'
        for p in rec['range']:
            k2, v2 = call(lambda: tw.solve_t(p - 1, **kw_t))
            if k2 != 'returned':
                tkind = k2
                break
            flags.append(v2)
        bad = same_state(state(m), state(tw))
        if bad is not None:
            diffs.append(f'twin-state:{bad}')
        if tkind != kindres:
            diffs.append('twin-res')
        if kindres == 'returned' and tkind == 'returned' and list(val[2]) != flags:
            diffs.append('twin-flags')
    else:
        fresh, _ = build(cfg, kind)
        if same_state(state(m), state(fresh)) is not None:
            diffs.append('early-changed-state')
    return diffs, obs


def run_period_twin(cfg, kind):
    """solve_period(label) must equal solve_t(position) for every position of the span."""
    diffs = []
    L = cfg['L']
    for p in range(L):
        a, span = build(cfg, kind)
        b, _ = build(cfg, kind)
        ka, va = call(lambda: a.solve_period(span[p], **opts_of(cfg)))
        kb, vb = call(lambda: b.solve_t(p, **opts_of(cfg)))
        if ka != kb or (ka == 'returned' and va != vb):
            diffs.append(f'solve_period-res:{ka}-vs-{kb}')
            break
        bad = same_state(state(a), state(b))
        if bad is not None:
            diffs.append(f'solve_period-state:{bad}')
            break
    return diffs


def key_of(kind, diffs, rec, obs):
    cfg = rec['cfg']
    feats = []
    if cfg['start']:
        feats.append('start=' + ('in' if 1 <= cfg['start'] <= cfg['L'] else 'multi' if cfg['start'] == MULTI else 'absent'))
    if cfg['end']:
        feats.append('end=' + ('in' if 1 <= cfg['end'] <= cfg['L'] else 'multi' if cfg['end'] == MULTI else 'absent'))
    if cfg['L'] == 0:
        feats.append('empty-span')
    d = '+'.join(sorted(set(x.split('[')[0].split(':')[0] for x in diffs)))
    return f"multisolve[{kind}] {d} spec={rec['res']['kind']} code={obs.get('res') if obs else '-'} {' '.join(feats)}".strip()


def run_twin_with_options(rec, kind, extra):
    """solve() against the explicit per-period loop under further options (offset, tol, catch_first_error): the
    specification's summaries do not model these, so only the twin equality of the property is checked."""
    cfg = rec['cfg']
    L = cfg['L']
    if rec['res']['kind'] in ('ValueError', 'KeyError') or L == 0:
        return []
    m, span = build(cfg, kind)
    s_lab, ok1 = label_of(kind, span, L, cfg['start'])
    e_lab, ok2 = label_of(kind, span, L, cfg['end'])
    if not (ok1 and ok2):
        return []
    kw = dict(opts_of(cfg), **extra)
    if s_lab is not None:
        kw['start'] = s_lab
    if e_lab is not None:
        kw['end'] = e_lab
    k1, v1 = call(lambda: m.solve(**kw))
    tw, _ = build(cfg, kind)
    kw_t = dict(opts_of(cfg), **extra)
    flags, k2 = [], 'returned'
    for p in rec['range']:
        kk, vv = call(lambda: tw.solve_t(p - 1, **kw_t))
        if kk != 'returned':
            k2 = kk
            break
        flags.append(vv)
    diffs = []
    if k1 != k2:
        diffs.append('twin-options-res')
    elif k1 == 'returned' and list(v1[2]) != flags:
        diffs.append('twin-options-flags')
    bad = same_state(state(m), state(tw))
    if bad is not None:
        diffs.append(f'twin-options-state:{bad}')
    return diffs


def run_linker_twin(rec, kind):
    """BaseLinker.solve() (its own copy of the period loop, linkers.py:225-347) on a linker that wraps the scripted model:
    the periods, the returned triple and the early errors are the specification's; under faults the linker's per-period
    policy is C08's subject, so there only the equality with the explicit loop of BaseLinker.solve_t is demanded."""
    cfg = rec['cfg']
    L = cfg['L']
    if L == 0:
        return []
    diffs = []

    def mk():
        m, span = build(cfg, kind)
        return fsic.BaseLinker({'A': m}), m, span
    try:
        lk, sub, span = mk()
    except Exception as e:
        return [f'linker-construction-raised-{type(e).__name__}']
    s_lab, ok1 = label_of(kind, span, L, cfg['start'])
    e_lab, ok2 = label_of(kind, span, L, cfg['end'])
    if not (ok1 and ok2):
        return []
    kw = opts_of(cfg)
    if s_lab is not None:
        kw['start'] = s_lab
    if e_lab is not None:
        kw['end'] = e_lab
    k1, v1 = call(lambda: lk.solve(**kw))
    exp = rec['res']['kind']
    plain = all(f == 'none' for f in cfg['fault'])
    if exp in ('ValueError', 'KeyError'):
        fresh_l, fresh_m, _ = mk()
        # (a label that resolves to several positions: BaseLinker.solve has no label validation of its own and lets a
        #  TypeError out of iter_periods - C05 quantifies over models, so only "nothing changed" is demanded there)
        if k1 != exp and MULTI not in (cfg['start'], cfg['end']):
            diffs.append(f'linker-solve-early-res:{k1}')
        if same_state(state(sub), state(fresh_m)) is not None or same_state(state(lk), state(fresh_l)) is not None:
            diffs.append('linker-solve-early-changed-state')
        return diffs
    tl, tm, _ = mk()
    kw_t = opts_of(cfg)
    flags, k2 = [], 'returned'
    for p in rec['range']:
        kk, vv = call(lambda: tl.solve_t(p - 1, **kw_t))
        if kk != 'returned':
            k2 = kk
            break
        flags.append(vv)
    if k1 != k2:
        diffs.append(f'linker-solve-twin-res:{k1}-vs-{k2}')
    elif k1 == 'returned':
        labels, indexes, solved = v1
        want = [p for p in rec['range']]
        if list(solved) != flags:
            diffs.append('linker-solve-twin-flags')
        if [int(i) for i in indexes] != [p - 1 for p in want] or len(labels) != len(want) or any(not (a == span[p - 1]) for a, p in zip(labels, want)):
            diffs.append('linker-solve-triple')
    if plain and cfg['max'] >= 1 and k1 == 'returned' and exp == 'returned':
        # without faults the linker wrapping one model visits and stamps what the specification says for the model
        st = [str(x) for x in sub.status]
        if any(st[p] != rec['per'][p]['st'] for p in range(L)):
            diffs.append('linker-solve-per-status')
    for a, b, what in ((sub, tm, 'submodel'), (lk, tl, 'linker')):
        bad = same_state(state(a), state(b))
        if bad is not None:
            diffs.append(f'linker-solve-twin-state:{what}:{bad}')
    return diffs


EXTRA_OPTIONS = [dict(offset=-1), dict(offset=1, tol=2.0), dict(catch_first_error=False, tol=1e-10), dict(offset=-1, catch_first_error=False)]


def main():
    payload = json.load(open(sys.argv[1]))
    kinds = payload.get('kinds') or KINDS
    out = {'n': 0, 'nontrivial': 0, 'distinct': 0, 'mismatches': [], 'keys': {}, 'skipped': 0}
    seen_twin = set()
    for idx, rec in enumerate(payload['records']):
        out['distinct'] += 1
        if rec['visited']:
            out['nontrivial'] += 1
        ks = kinds if payload.get('all_kinds') else [kinds[(idx + payload.get('seed', 0)) % len(kinds)]]
        for kind in ks:
            diffs, obs = run_record(rec, kind)
            if diffs is None:
                out['skipped'] += 1
                continue
            out['n'] += 1
            if (idx + len(kind)) % 4 == 1 and kind not in ('range0', 'rangeneg', 'listfalsy', 'listfloat'):
                # the same behaviour on an object with a history (solved, then reindexed)
                global VIA_REINDEX
                VIA_REINDEX = True
                try:
                    d4, o4 = run_record(rec, kind)
                except Exception as e:  # solving the longer model or reindexing it raised: the code's answer, not the harness's
                    d4, o4 = [f'history-setup-raised-{type(e).__name__}'], {'error': str(e)[:200]}
                finally:
                    VIA_REINDEX = False
                out['n'] += 1
                if d4:
                    diffs = diffs + ['after-reindex:' + x for x in d4]
                    obs = dict(obs or {}, after_reindex=o4)
            if (idx + len(kind)) % 3 == 0:
                extra = EXTRA_OPTIONS[(idx // 3) % len(EXTRA_OPTIONS)]
                d3 = run_twin_with_options(rec, kind, extra)
                out['n'] += 1
                if d3:
                    diffs = diffs + d3
                    obs = dict(obs or {}, extra_options=extra)
            if (idx + len(kind)) % 5 == 2:
                d5 = run_linker_twin(rec, kind)
                out['n'] += 1
                diffs = diffs + d5
            cfg = rec['cfg']
            tk = (kind, cfg['L'], cfg['lags'], cfg['leads'], cfg['min'], cfg['max'], cfg['errors'], cfg['failures'], json.dumps(cfg['fault']))
            if tk not in seen_twin and cfg['min'] <= cfg['max']:
                seen_twin.add(tk)
                d2 = run_period_twin(cfg, kind)
                out['n'] += cfg['L']
                diffs = diffs + d2
            if diffs:
                key = key_of(kind, diffs, rec, obs)
                n = out['keys'].get(key, 0)
                out['keys'][key] = n + 1
                if n < 2:
                    out['mismatches'].append({'key': key, 'record': rec, 'span_kind': kind, 'diffs': diffs, 'observed': obs})
    print(json.dumps(out, default=str))


if __name__ == '__main__':
    main()
