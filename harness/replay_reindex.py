"""spec -> code for C12: realise Reindex.tla terminal behaviours on real objects -
fsic.core.VectorContainer, a fsic.BaseModel subclass (partly solved: status / iterations
as the record says) and, for calls with default arguments, a PandasIndexFeaturesMixin
model - for every concrete span type, and compare the result with the table the spec
emitted (every series by position and by label, dtype, class, order, attributes), the
original before/after, and memory sharing.

Nothing about the expected result is computed here: values are decoded from the
record's codes (NaN = 100, strings >= 200) and compared.

Worker module: `python -m harness.replay_reindex <payload.json>`; prints a JSON summary.
"""
from __future__ import annotations

import json
import sys
import warnings

import numpy as np

import fsic
from fsic.core import VectorContainer
from fsic.extensions.model import PandasIndexFeaturesMixin

from .replay_span import TYPES, TYPE_BY_NAME, _ap, same_label

STR = {200: '', 201: 'a', 202: 'b', 203: 'c', 204: 'd', 205: 'e', 207: '7', 208: 'q', 210: '-', 211: '.', 212: 'F', 213: 'x'}
VAR_NAME = {1: 'F', 2: 'I', 3: 'B', 4: 'S', 8: 'status', 9: 'iterations', 99: 'ZZ'}
NP_DTYPE = {'f': np.dtype(float), 'i': np.dtype(int), 'b': np.dtype(bool), 's': np.dtype('<U2')}
DT_NAME = {'f': 'float', 'i': 'int', 'b': 'bool', 's': 'str'}
FILL_VALUE = 7   # the adapter's realisation of the spec's abstract fill_value FV: 7.0 / 7 / True / '7' (codes 7, 7, 1, 207)


def decode(v, dt):
    if dt == 'f':
        return float('nan') if v == 100 else float(v)
    if dt == 'i':
        return int(v)
    if dt == 'b':
        return bool(v)
    return STR[v]


class RModel(fsic.BaseModel):
    ENDOGENOUS = ['F']
    EXOGENOUS = []
    NAMES = ENDOGENOUS + EXOGENOUS
    CHECK = ENDOGENOUS
    LAGS = 1
    LEADS = 2

    def _evaluate(self, t, **kwargs):
        pass


class PModel(PandasIndexFeaturesMixin, RModel):
    pass


def new_span(typ, ids):
    if typ.name in ('range', 'range_zero'):
        if len(set(ids)) == len(ids) and (len(ids) == 0 or _ap(ids) is not None):
            return typ.build(ids)
        return [typ.label(i, 'obj') for i in ids]
    return typ.build(ids)


def build(rec, typ, cls):
    span = typ.build(rec['old'])
    n = len(rec['old'])
    strict = rec['strict']
    if cls == 'container':
        o = VectorContainer(span, strict=strict)
    else:
        o = (PModel if cls == 'pdmodel' else RModel)(span, strict=strict)
    for (vid, dt, role), vals in zip(rec['vars'], rec['vals']):
        name = VAR_NAME[vid]
        data = [decode(v, dt) for v in vals]
        if name in o.index:
            if n:
                getattr(o, name)[:] = data
        else:
            o.add_variable(name, data, dtype=NP_DTYPE[dt])
    o.add_attribute('note', rec['attrs']['note'])
    if cls != 'container':
        o.lags = rec['attrs']['lags']
        o.leads = rec['attrs']['leads']
    return o, span


ATTRS = ('note', 'lags', 'leads', 'engine', 'dtype', 'strict')


def snapshot(o):
    d = o.__dict__
    return {
        'series': {name: (d['_' + name].copy(), str(d['_' + name].dtype)) for name in d['index']},
        'index': list(d['index']),
        'names': list(d['names']) if 'names' in d else None,
        'attributes': list(d['_attributes']),
        'span': list(d['span']),
        'attrs': {a: (getattr(o, a) if a == 'strict' else d.get(a)) for a in ATTRS},
        'extra_keys': sorted(k for k in d if not k.startswith('_') and k not in d['_attributes']),
    }


def same(a, b):
    a = np.asarray(a)
    b = np.asarray(b)
    if a.shape != b.shape:
        return False
    if a.dtype.kind == 'f' or b.dtype.kind == 'f':
        try:
            af, bf = a.astype(float), b.astype(float)
        except (TypeError, ValueError):
            return False
        return bool(np.all((af == bf) | (np.isnan(af) & np.isnan(bf))))
    return bool(np.all(a == b))


def snap_diffs(s0, s1):
    diffs = []
    for name in s0['series']:
        if name not in s1['series']:
            diffs.append(f'series-lost:{name}')
        elif s0['series'][name][1] != s1['series'][name][1] or not same(s0['series'][name][0], s1['series'][name][0]):
            diffs.append(f'series:{name}')
    for k in ('index', 'names', 'attributes', 'attrs', 'extra_keys'):
        if s0[k] != s1[k]:
            diffs.append(k)
    if len(s0['span']) != len(s1['span']) or not all(same_label(a, b) for a, b in zip(s0['span'], s1['span'])):
        diffs.append('span')
    return diffs


def kwargs_for(rec):
    a = rec['args']
    kw = {}
    if a['fv']:
        kw['fill_value'] = FILL_VALUE
    if a['strict'] != 'none':
        kw['strict'] = a['strict'] == 'true'
    dts = {vid: dt for vid, dt, role in rec['vars']}
    for vid, code in rec['perfill']:
        kw[VAR_NAME[vid]] = decode(code, dts[vid])
        if dts[vid] == 'b' and kw[VAR_NAME[vid]] is True and (vid + len(rec['perfill']) + len(rec['vars'])) % 2:
            kw[VAR_NAME[vid]] = 0.5       # another spelling of a true fill for a boolean series (NumPy: bool(0.5) is True)
    if a['unknown']:
        kw['ZZ'] = 1
    return kw


def replay(rec, typ, cls, form='obj'):
    """Returns a list of (key, detail).  form='str': the new span is given in the string spelling of the labels
    (pandas period / datetime spans accept it wherever a label is looked up)."""
    a = rec['args']
    pd_default = cls == 'pdmodel'
    prefix = 'pandas-mixin-reindex-default' if pd_default else f'reindex-{cls}'
    fam = '' if pd_default else f'[{typ.family}]'
    found = []
    o, span = build(rec, typ, cls)
    if form == 'str':
        prefix += '-string-labels'
    new = new_span(typ, a['new'])
    new_labels = [typ.label(i, 'obj') for i in a['new']]
    if form == 'str':
        new = [typ.label(i, 'str') for i in a['new']]
        new_labels = list(new)
    kw = {} if pd_default else kwargs_for(rec)
    # history before the reindex: label-slice and label reads on the original (whatever they cache must not leak)
    pre_slices = []
    if len(rec['old']) >= 1:
        olabs = [typ.label(i, 'obj') for i in rec['old']]
        first_var = VAR_NAME[rec['rvars'][0][0]] if rec['rvars'] else None
        if first_var is not None and first_var in o.__dict__['index']:
            for sl in (slice(olabs[0], olabs[-1]), slice(olabs[0], None), slice(None, olabs[-1], 2), slice(olabs[-1], olabs[-1])):
                try:
                    o[first_var, sl]
                    o[first_var, olabs[0]]
                    pre_slices.append(sl)
                except Exception:
                    pass
    s0 = snapshot(o)
    try:
        with warnings.catch_warnings():
            warnings.simplefilter('ignore')
            r = o.reindex(new, **kw)
        exc = 'none'
    except Exception as e:
        r, exc, msg = None, type(e).__name__, str(e)[:200]
    s1 = snapshot(o)
    d = snap_diffs(s0, s1)
    if d:
        found.append((f'{prefix}{fam}-original-mutated:' + ','.join(sorted(set(x.split(':')[0] for x in d))), {'diffs': d}))
    if rec['out'] == 'KeyError':
        if exc != 'KeyError':
            found.append((f'{prefix}{fam}-strict:' + ('keyerror-missing' if exc == 'none' else f'{exc}-instead-of-KeyError'), {'kwargs': repr(kw)}))
        return found
    if exc != 'none':
        what = 'strict:unexpected-KeyError' if exc == 'KeyError' and a['unknown'] else f'raised-{exc}'
        found.append((f'{prefix}{fam}-{what}', {'kwargs': repr(kw), 'message': msg}))
        return found
    # -- the result ---------------------------------------------------------
    if type(r) is not type(o) or rec['rcls'] != rec['cls']:
        found.append((f'{prefix}{fam}-class', {'type': type(r).__name__}))
        return found
    rd = r.__dict__
    if len(rd['span']) != len(new_labels) or not all(same_label(x, y) for x, y in zip(list(rd['span']), new_labels)):
        found.append((f'{prefix}{fam}-span', {'span': repr(rd['span'])}))
        return found
    exp_index = [VAR_NAME[vid] for vid, dt, role in rec['rvars']]
    if list(rd['index']) != exp_index:
        found.append((f'{prefix}{fam}-variable-order', {'index': list(rd['index']), 'expected': exp_index}))
        return found
    # label access on the result addresses the result's own span (the same slices as were read on the original)
    if len(set(a['new'])) == len(a['new']) and rd['index']:
        nm0 = list(rd['index'])[0]
        for sl in pre_slices:
            def pos(lab, default):
                if lab is None:
                    return default
                hits = [i for i, x in enumerate(new_labels) if same_label(x, lab)]
                return hits[0] if hits else None
            i0, i1 = pos(sl.start, 0), pos(sl.stop, len(new_labels) - 1)
            if i0 is None or i1 is None or not new_labels:
                continue
            try:
                got = np.asarray(r[nm0, sl])
            except Exception as e:
                found.append((f'{prefix}{fam}-label-slice-on-result-raised:{type(e).__name__}', {'slice': repr(sl)}))
                continue
            want = np.asarray(rd['_' + nm0][i0:i1 + 1:sl.step or 1])
            if got.shape != want.shape or not all(same(x, y) for x, y in zip(got, want)):
                found.append((f'{prefix}{fam}-label-slice-on-result-addresses-other-periods', {'slice': repr(sl), 'got': got.tolist(), 'want': want.tolist()}))
    old_ids = set(rec['old'])
    cfg = f"fv={a['fv']}"
    for (vid, dt, role), vals in zip(rec['rvars'], rec['rvals']):
        name = VAR_NAME[vid]
        dtname = DT_NAME[dt] if role == 'data' else name
        arr = rd['_' + name]
        odt = o.__dict__['_' + name].dtype
        tag = '' if pd_default else f" {cfg} kw={'y' if vid in a['per'] else 'n'}"
        if arr.dtype != odt or arr.dtype.kind != NP_DTYPE[dt].kind or arr.ndim != 1:
            found.append((f'{prefix}{fam}-dtype:{dtname}{tag}', {'name': name, 'dtype': str(arr.dtype), 'original_dtype': str(odt)}))
            continue
        exp = np.array([decode(v, dt) for v in vals], dtype=NP_DTYPE[dt])
        if arr.shape != exp.shape:
            found.append((f'{prefix}{fam}-length:{dtname}{tag}', {'name': name, 'shape': arr.shape}))
            continue
        bad = [i for i in range(len(vals)) if not same(arr[i], exp[i])]
        if bad:
            kinds = sorted({'kept' if a['new'][i] in old_ids else 'fill' for i in bad})
            for kd in kinds:
                found.append((f'{prefix}{fam}-{kd}:{dtname}{tag}',
                              {'name': name, 'got': arr.tolist(), 'expected': exp.tolist(), 'positions': bad, 'old': rec['old'], 'new': a['new']}))
        if np.shares_memory(arr, o.__dict__['_' + name]):
            found.append((f'{prefix}{fam}-shares-memory:{dtname}', {'name': name}))
        # by label, where the label is unambiguous in the new span
        if not bad and role == 'data' and dt == 'f':
            for i, lid in enumerate(a['new']):
                if a['new'].count(lid) == 1:
                    try:
                        got = r[name, typ.label(lid, form)]
                    except Exception as e:
                        found.append((f'{prefix}{fam}-by-label-raised-{type(e).__name__}', {'name': name, 'label': repr(typ.label(lid, "obj"))}))
                        break
                    if not same(got, exp[i]):
                        found.append((f'{prefix}{fam}-by-label-differs', {'name': name, 'label': repr(typ.label(lid, "obj")), 'got': repr(got)}))
                        break
    for lst in ('index', 'names', '_attributes', 'endogenous', 'check'):
        if lst in rd and rd[lst] is o.__dict__[lst]:
            found.append((f'{prefix}{fam}-shares-list:{lst}', {}))
    # attributes, lags / leads, strict
    exp_attrs = dict(rec['rattrs'])
    for att in ('note',) + (('lags', 'leads') if cls != 'container' else ()):
        if att not in rd or rd[att] != exp_attrs[att]:
            found.append((f'{prefix}{fam}-attribute:{att}', {'got': repr(rd.get(att))}))
    if r.strict != rec['rstrict']:
        found.append((f'{prefix}{fam}-attribute:strict', {'got': r.strict}))
    if cls != 'container':
        if rd['names'] != o.__dict__['names'] or rd['engine'] != o.__dict__['engine'] or rd['dtype'] != o.__dict__['dtype']:
            found.append((f'{prefix}{fam}-attribute:names/engine/dtype', {}))
    if list(rd['_attributes']) != list(o.__dict__['_attributes']):
        found.append((f'{prefix}{fam}-attribute:list', {}))
    return found


def is_default(rec):
    a = rec['args']
    return a['fv'] == 0 and not a['per'] and not a['unknown'] and a['strict'] == 'none'


def nontrivial(rec):
    """Non-trivial = the two spans differ (something must be dropped, moved, repeated or filled)."""
    return rec['old'] != rec['args']['new']


def pd_types(idx, seed, rec):
    """Rotation of span types for the pandas-mixin replays of the big slice: one type per family."""
    fams = {}
    for t in TYPES:
        if t.realisable(rec['old']):
            fams.setdefault(t.family, []).append(t)
    return [ts[(idx + seed) % len(ts)] for ts in fams.values()]


def main():
    payload = json.load(open(sys.argv[1]))
    pd_all = payload.get('pd_all', True)
    ntypes = payload.get('ntypes', 2)
    all_types = payload.get('all_types', True)
    seed = payload.get('seed', 0)
    only = payload.get('only')
    out = {'n': 0, 'nontrivial': 0, 'distinct': 0, 'mismatches': [], 'keys': {}, 'by_class': {}, 'by_type': {}}
    for idx, rec in enumerate(payload['records']):
        out['distinct'] += 1
        if nontrivial(rec):
            out['nontrivial'] += 1
        types = [t for t in TYPES if t.realisable(rec['old'])]
        if only:
            types = [TYPE_BY_NAME[only['type']]]
        elif not all_types:
            # rotation: `ntypes` of the realisable types, spread over the list (python / numpy / pandas kinds)
            k = (idx + seed) % len(types)
            step = max(1, len(types) // ntypes)
            types = [types[(k + j * step) % len(types)] for j in range(min(ntypes, len(types)))]
        for typ in types:
            classes = [rec['cls']]
            if rec['cls'] == 'model' and is_default(rec) and (pd_all or typ in pd_types(idx, seed, rec)):
                classes.append('pdmodel')
            if only:
                classes = [only['cls']]
            for cls in classes:
                out['n'] += 1
                out['by_class'][cls] = out['by_class'].get(cls, 0) + 1
                out['by_type'][typ.name] = out['by_type'].get(typ.name, 0) + 1
                found_all = list(replay(rec, typ, cls))
                if 'str' in typ.forms and cls != 'pdmodel' and len(set(rec['args']['new'])) == len(rec['args']['new']) and (idx % 2 == 0):
                    out['n'] += 1
                    found_all += list(replay(rec, typ, cls, form='str'))
                for key, detail in found_all:
                    n = out['keys'].get(key, 0)
                    out['keys'][key] = n + 1
                    if n < 2:
                        out['mismatches'].append({'key': key, 'record': rec, 'type': typ.name, 'cls': cls, 'detail': detail})
    print(json.dumps(out, default=str))


if __name__ == '__main__':
    main()
