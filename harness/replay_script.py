"""spec -> code for Script.tla: render each emitted program, push it through fsic's parser and
class builder, and compare with the reference semantics the specification attached to it.

Worker: python -m harness.replay_script payload.json
payload: {records, checks: [...], namemaps: [...], layouts: [...], seed, tier}
checks: 'c01' (concolic evaluation = reference), 'c03' (symbols, class lists, lags/leads, options,
default range), 'c04' (touch only t / reads inside / infeasible rejected), 'c14' (layouts),
'c15' (build routes), 'c20' (dependency graph)
"""
from __future__ import annotations

import ast
import json
import math
import random
import re
import sys
import warnings
from typing import Any, Dict, List

import numpy as np

import fsic
from fsic.exceptions import ParserError, SymbolError
from fsic.parser import Type

from . import script_render as R
from .concolic import RecArray, RefStore, Sym, ref_eval

TYPE_OF = {'endo': Type.ENDOGENOUS, 'exo': Type.EXOGENOUS, 'param': Type.PARAMETER, 'error': Type.ERROR}
FOUR = (Type.ENDOGENOUS, Type.EXOGENOUS, Type.PARAMETER, Type.ERROR)


class Mis(Exception):
    def __init__(self, key, **detail):
        self.key, self.detail = key, detail
        self.more = []      # further, independent mismatches of the same record (each is reported under its own key)


def approx(a, b):
    if isinstance(a, complex) or isinstance(b, complex):
        return a == b or (a != a and b != b)
    a, b = float(a), float(b)
    if math.isnan(a) and math.isnan(b):
        return True
    if math.isinf(a) or math.isinf(b):
        return a == b
    return abs(a - b) <= 1e-12 * max(1.0, abs(a), abs(b))


def data_table(names, L, which, seed):
    rng = random.Random(seed * 7919 + which)
    out = {}
    for i, n in enumerate(names):
        if which == 0:
            out[n] = [0.5 + 0.25 * ((i * 3 + p * 5) % 7) for p in range(L)]
        elif which == 1:
            out[n] = [2.0 - 0.125 * ((i * 5 + p * 3) % 11) for p in range(L)]
        elif which == 2:
            out[n] = [round(rng.uniform(0.25, 3.0), 3) for _ in range(L)]
        else:   # both signs
            out[n] = [round(rng.choice([-1, 1]) * rng.uniform(0.25, 3.0), 3) for _ in range(L)]
    return out


def uses_named(rec):
    return any(tk['t'] == 'var' and tk['k'] == R.NAMED for s in rec['stmts'] for tk in [s['lhs']] + s['rhs'])


def make_span(L, named):
    return list(range(2001 - L + 1, 2002)) if named else range(10, 10 + L)  # contains 2000 when named (L >= 2)


def funcs_called(rec):
    return {tk['s'] for s in rec['stmts'] for tk in s['rhs'] if tk['t'] == 'call'}


def collision(rec, names):
    """A variable whose concrete name is also called as a function in the same script."""
    called = {f.split('.')[0] for f in funcs_called(rec)} | funcs_called(rec)
    used = {names[e['n'] - 1] for e in rec['names']}
    return bool(called & used)


import fsic.parser as _fsic_parser
from .concolic import vf as _vf
_fsic_parser.vf = _vf      # build_model() executes the class text in the parser module's namespace


def parse(script):
    with warnings.catch_warnings():
        warnings.simplefilter('ignore')
        return fsic.parse_model(script)


def sym_sig(symbols):
    return [(s.name, s.type.name, s.lags, s.leads) for s in symbols if s.type in FOUR]


def verbatim_of(symbols):
    return [(s.name, s.type.name, s.lags, s.leads, s.code) for s in symbols if s.type == Type.VERBATIM]


def expected_verbatim(rec):
    return [(None, 'VERBATIM', None, None, R.verbatim_code(j, v['form'])) for j, v in enumerate(rec.get('verbat', []), start=1)]


class _FlattenBool(ast.NodeTransformer):
    """(a and b) and c, a and (b and c) and a and b and c are the same expression (Python itself flattens chains)."""

    def visit_BoolOp(self, node):
        self.generic_visit(node)
        vals = []
        for v in node.values:
            if isinstance(v, ast.BoolOp) and type(v.op) is type(node.op):
                vals += v.values
            else:
                vals.append(v)
        node.values = vals
        return node


def code_ast(code):
    return ast.dump(_FlattenBool().visit(ast.parse(code)))


# ---------------------------------------------------------------------------------------------


def check_renderer(rec):
    """Trusted-base cross-check: the plain rendering, parsed by Python itself, is the spec tree."""
    names = R.NAME_MAPS['plain']
    for s in rec['stmts']:
        text = R.render_statement(s, names, 'canon', random.Random(0))
        # braces / angle brackets are not Python: map {x} -> P_x and <x> -> E_x before parsing
        src = re.sub(r'\{\s*(\w+)\s*\}', r'P_\1', text)
        src = re.sub(r'<\s*([A-Za-z_]\w*)\s*>', r'E_\1', src)
        src = re.sub(r'`([^`]*)`', lambda mm: repr(eval(mm.group(1))), src)   # verbatim fragments are constants
        try:
            node = ast.parse(src).body[0]
        except SyntaxError as e:
            raise Mis('renderer-produced-invalid-python', text=text, error=str(e))

        def leaf(nd):
            idx = 0
            base = nd
            if isinstance(nd, ast.Subscript) and isinstance(nd.value, ast.Name):
                try:
                    v = ast.literal_eval(nd.slice)
                except Exception:
                    return None
                idx = R.NAMED if (isinstance(v, str) or v == 2000) else v
                base = nd.value
            if isinstance(base, ast.Name):
                nm, kind = base.id, 'v'
                if nm.startswith('P_'):
                    nm, kind = nm[2:], 'p'
                elif nm.startswith('E_'):
                    nm, kind = nm[2:], 'e'
                if nm in names:
                    return ('var', kind, names.index(nm) + 1, idx)
            return None

        got = R.ast_to_tree(node.value, leaf)
        want = R.normalise_nums(R.strip_parens(R.to_tree(s['rhs'])))
        if got != want:
            raise Mis('renderer-tree-mismatch', text=text, got=repr(got), want=repr(want))


def expected_sig(rec, names):
    return [(names[e['n'] - 1], TYPE_OF[e['type']].name, e['lag'], e['lead']) for e in rec['names']]


def install(model, names, L, table, events):
    arrays = {}
    for n in names:
        arrays[n] = RecArray(n, table[n], events)
        model.__dict__['_' + n] = arrays[n]
    model.__dict__['vmark'] = lambda j: events.append(('v', j))
    return arrays


def tree_eq(a, b):
    if isinstance(a, tuple) and isinstance(b, tuple):
        return len(a) == len(b) and all(tree_eq(x, y) for x, y in zip(a, b))
    if isinstance(a, float) and isinstance(b, float) and math.isnan(a) and math.isnan(b):
        return True
    return type(a) == type(b) and a == b if not (isinstance(a, (int, float)) and isinstance(b, (int, float))) else (a == b and isinstance(a, bool) == isinstance(b, bool))


def _dedupe_branches(evs):
    """How often the truth value of one and the same operand is asked differs between a flattened and a nested
    and/or chain (CPython threads the jumps); it is not an observable of the model."""
    out = []
    for e in evs:
        if e[0] == 'branch' and out and out[-1][0] == 'branch' and tree_eq(out[-1][1:], e[1:]):
            continue
        out.append(e)
    return out


def cmp_events(got, want):
    got, want = _dedupe_branches(got), _dedupe_branches(want)
    if len(got) != len(want):
        return f'event count {len(got)} vs {len(want)}'
    for i, (g, w) in enumerate(zip(got, want)):
        if g[0] != w[0]:
            return f'event {i}: {g[0]} vs {w[0]}'
        if g[0] == 'r':
            if g[1:] != w[1:]:
                return f'read {i}: {g} vs {w}'
        elif g[0] == 'w':
            if g[1:4] != w[1:4]:
                return f'write target {i}: {g[:4]} vs {w[:4]}'
            if not tree_eq(g[4], w[4]):
                return f'write {i} term tree differs: code {g[4]} reference {w[4]}'
            if not approx(g[5], w[5]):
                return f'write {i} value differs: code {g[5]} reference {w[5]}'
        elif g[0] == 'branch':
            if not tree_eq(g[1:], w[1:]):
                return f'branch {i}: {g} vs {w}'
        elif g[0] == 'v':
            if g != w:
                return f'verbatim statement {i}: {g} vs {w}'
        else:
            return f'event {i}: {g}'
    return None


def run_generated(Model, names, span, t, table):
    m = Model(span)
    ev: List[Any] = []
    install(m, names, len(span), table, ev)
    with warnings.catch_warnings():
        warnings.simplefilter('ignore')
        m._evaluate(t)
    return ev


def outcome_of(Model, names, span, t, table):
    """('ok', events) or (exception class name, None) of one evaluation pass of the generated code."""
    try:
        return 'ok', run_generated(Model, names, span, t, table)
    except (ZeroDivisionError, OverflowError, TypeError, IndexError, KeyError, AttributeError, NameError, AssertionError) as e:
        return type(e).__name__, None


def run_reference(rec, names, span, t, table):
    ev: List[Any] = []
    arrays = {n: RecArray(n, table[n], ev) for n in table}
    named_pos = list(span).index(2000) if 2000 in list(span) else None
    store = RefStore(arrays, names_by_id(rec, names), t, named_pos)
    for si in rec['evalorder']:
        s = rec['stmts'][si - 1]
        v = ref_eval(R.to_tree(s['rhs']), store)
        store.write(s['lhs']['n'], s['lhs']['k'], v)
    for item in rec.get('codeorder', []):      # the specification's code order: the verbatim blocks run after the equations
        if item['kind'] == 'verb':
            ev.append(('v', 0 if rec['verbat'][item['i'] - 1]['form'] == 'same' else item['i']))
    return ev


def names_by_id(rec, names):
    return names  # name id i -> names[i-1]


def check_c01(rec, names, Model, symbols, seed, tier, light=False):
    all_names = [names[i - 1] for i in rec['modelnames']]
    named = uses_named(rec)
    L = rec['lags'] + rec['leads'] + 2 + (1 if named else 0)
    L = max(L, 2)
    span = make_span(L, named)
    n_exec = 0
    for p in range(rec['lags'] + 1, L - rec['leads'] + 1):
        for which in ((0,) if light else (0, 1, 2)):
            if light and p != rec['lags'] + 1:
                continue
            table = data_table(all_names, L, which, seed)
            t = p - 1 if which != 1 else p - 1 - L
            try:
                got = run_generated(Model, all_names, span, t, table)
            except ZeroDivisionError:
                continue  # integer literal division by a literal zero etc.: Python semantics on both sides
            except (IndexError, KeyError, AttributeError, NameError, TypeError) as e:
                # the program itself may be ill-typed under Python/NumPy (e.g. unary minus of a NumPy boolean built from
                # literals): then the reference interpretation raises the same exception class
                try:
                    run_reference(rec, names, span, t, table)
                except type(e):
                    continue
                except Exception:
                    pass
                raise Mis(f'c01-generated-code-raised:{type(e).__name__}', error=str(e)[:200], t=t, L=L)
            want = run_reference(rec, names, span, t, table)
            n_exec += 1
            bad = cmp_events(got, want)
            if bad:
                raise Mis('c01-evaluation-differs-from-reference', why=bad, t=t, L=L, data=which)
            # the specification's own event list: order of statements, cell versions seen by each read
            got = [e for e in got if e[0] != 'v']
            writes = [e for e in got if e[0] == 'w']
            if len(writes) != len(rec['events']):
                raise Mis('c01-number-of-writes', got=len(writes), want=len(rec['events']))
            gi = 0
            for evs in rec['events']:
                reads_spec = [(names[r['n'] - 1], r['k'], r['ver']) for r in evs['reads'] if r['k'] != R.NAMED]
                reads_got = []
                while got[gi][0] != 'w':
                    if got[gi][0] == 'r':
                        reads_got.append((got[gi][1], got[gi][2] - t, got[gi][4]))
                    gi += 1
                w = got[gi]
                gi += 1
                if (w[1], w[2] - t) != (names[evs['write']['n'] - 1], evs['write']['k']):
                    raise Mis('c01-write-order', got=w[:3], want=evs['write'])
                if not named:
                    for r in reads_got:
                        if r not in reads_spec:
                            raise Mis('c01-read-not-in-spec-events', read=r, spec=reads_spec)
    # the normalised equation denotes the same expression
    by_name = {s.name: s for s in symbols}
    for s in rec['stmts']:
        sym = by_name[names[s['lhs']['n'] - 1]]
        if sym.equation is None:
            raise Mis('c01-endogenous-symbol-without-equation', name=sym.name)
        check_equation_text(sym.equation, s, names)
    return n_exec


def check_equation_text(equation, stmt, names):
    lhs, rhs = equation.split('=', 1)
    if rhs.startswith('='):
        raise Mis('c01-equation-text-unparseable', equation=equation)

    def leaf(nd):
        if isinstance(nd, ast.Subscript) and isinstance(nd.value, ast.Name) and nd.value.id in names:
            sl = nd.slice
            if isinstance(sl, ast.Name) and sl.id == 't':
                k = 0
            elif isinstance(sl, ast.BinOp) and isinstance(sl.left, ast.Name) and sl.left.id == 't' and isinstance(sl.right, ast.Constant):
                k = sl.right.value if isinstance(sl.op, ast.Add) else -sl.right.value
            elif isinstance(sl, ast.Constant):
                k = R.NAMED
            else:
                return None
            return ('varn', names.index(nd.value.id) + 1, k)
        return None

    try:
        node = ast.parse(re.sub(r'`([^`]*)`', lambda mm: repr(eval(mm.group(1))), rhs.strip())).body[0].value
        got = R.ast_to_tree(node, leaf)
    except (SyntaxError, ValueError, IndexError) as e:
        raise Mis('c01-equation-text-unparseable', equation=equation, error=str(e))

    def drop_kind(tr):
        k = tr[0]
        if k == 'var':
            return ('varn', tr[2], tr[3])
        if k in ('numv',):
            return tr
        if k in ('neg', 'not'):
            return (k, drop_kind(tr[1]))
        if k in ('bin', 'cmp', 'bool'):
            return (k, tr[1], drop_kind(tr[2]), drop_kind(tr[3]))
        if k == 'call':
            return ('call', tr[1], tuple(drop_kind(a) for a in tr[2]))
        if k == 'cond':
            return ('cond', drop_kind(tr[1]), drop_kind(tr[2]), drop_kind(tr[3]))
        raise ValueError(k)

    want = drop_kind(R.normalise_nums(R.strip_parens(R.to_tree(stmt['rhs']))))
    if got != want:
        raise Mis('c01-normalised-equation-denotes-other-expression', equation=equation, got=repr(got), want=repr(want))
    want_lhs = f"{names[stmt['lhs']['n'] - 1]}[t{'' if stmt['lhs']['k'] == 0 else ('+' if stmt['lhs']['k'] > 0 else '') + str(stmt['lhs']['k'])}]"
    if lhs.strip() != want_lhs:
        raise Mis('c01-normalised-lhs', got=lhs.strip(), want=want_lhs)


def check_c03(rec, names, symbols, Model, light=False):
    got = sym_sig(symbols)
    want = expected_sig(rec, names)
    if got != want:
        raise Mis('c03-symbol-list', got=got, want=want)
    cls = {c: [names[e['n'] - 1] for e in rec['names'] if e['type'] == c] for c in TYPE_OF}
    for attr, c in (('ENDOGENOUS', 'endo'), ('EXOGENOUS', 'exo'), ('PARAMETERS', 'param'), ('ERRORS', 'error')):
        if list(getattr(Model, attr)) != cls[c]:
            raise Mis('c03-class-list', attr=attr, got=list(getattr(Model, attr)), want=cls[c])
    if list(Model.NAMES) != [names[i - 1] for i in rec['modelnames']]:
        raise Mis('c03-NAMES', got=list(Model.NAMES))
    if (Model.LAGS, Model.LEADS) != (rec['lags'], rec['leads']):
        raise Mis('c03-LAGS-LEADS', got=(Model.LAGS, Model.LEADS), want=(rec['lags'], rec['leads']))
    n = 1
    if light:
        return n
    for row in rec['opts']:
        o = row['opt']
        kw = dict(lags=None if o['lags'] == -1 else o['lags'], leads=None if o['leads'] == -1 else o['leads'],
                  min_lags=o['minlags'], min_leads=o['minleads'])
        for hints in (True, False):
            M2 = fsic.build_model(symbols, with_type_hints=hints, **kw)
            n += 1
            if (M2.LAGS, M2.LEADS) != (row['lags'], row['leads']):
                raise Mis('c03-lags-leads-options', options=kw, type_hints=hints, got=(M2.LAGS, M2.LEADS), want=(row['lags'], row['leads']))
    # default solution range = DefaultRange(L) of the specification (checked there to be the feasible set)
    for L in range(rec['lags'] + rec['leads'] + 1, rec['lags'] + rec['leads'] + 4):
        m = Model(range(50, 50 + L))
        want_pos = list(range(rec['lags'], L - rec['leads']))
        got_pos = [int(i) for i, _ in m.iter_periods()]
        if got_pos != want_pos:
            raise Mis('c03-default-range', L=L, got=got_pos, want=want_pos)
        with warnings.catch_warnings():
            warnings.simplefilter('ignore')
            try:
                labels, idx, _ = m.solve(max_iter=1, failures='ignore', errors='ignore')
                if [int(i) for i in idx] != want_pos or list(labels) != [50 + i for i in want_pos]:
                    raise Mis('c03-solve-range', L=L, got=list(idx), want=want_pos)
            except (fsic.exceptions.SolutionError, ZeroDivisionError, OverflowError):
                pass
        n += 1
        # the default range belongs to the span, not to the object's past: after extending (or shortening) the horizon by
        # reindex() it is the range of the new span
        for L2 in (L + 2, max(L - 1, rec['lags'] + rec['leads'] + 1)):
            try:
                m2 = m.reindex(range(50, 50 + L2))
                got2 = [int(i) for i, _ in m2.iter_periods()]
            except Exception as e:
                raise Mis('c03-default-range-after-reindex', L=L, L2=L2, error=f'{type(e).__name__}: {str(e)[:120]}')
            want2 = list(range(rec['lags'], L2 - rec['leads']))
            n += 1
            if got2 != want2:
                raise Mis('c03-default-range-after-reindex', L=L, L2=L2, got=got2, want=want2)
    return n


def check_c04(rec, names, Model, seed):
    """Solving a period touches only that period; reads never wrap; infeasible requests are rejected."""
    if uses_named(rec):
        return 0
    all_names = [names[i - 1] for i in rec['modelnames']]
    endo = [names[e['n'] - 1] for e in rec['names'] if e['type'] == 'endo']
    lags, leads = rec['lags'], rec['leads']
    writes = {(names[s['lhs']['n'] - 1], s['lhs']['k']) for s in rec['stmts']}
    offsets = [tk['k'] for s in rec['stmts'] for tk in [s['lhs']] + s['rhs'] if tk['t'] == 'var']
    n = 0
    for L in range(lags + leads + 1, lags + leads + 3):
        span = range(100, 100 + L)
        for p in range(L):
            feasible = all(0 <= p + k < L for k in offsets)
            for t in (p, p - L):
                for entry, offset in (('solve_t', 0), ('solve', 0), ('solve_t', 1), ('solve_t', -1), ('solve_t', L), ('solve_t', -L - 1)):
                    out_of_span = bool(offset) and not (0 <= p + offset < L)
                    if out_of_span and abs(offset) < L:
                        continue
                    m = Model(span)
                    table = data_table(all_names, L, 2, seed + p)
                    for nm in all_names:
                        m.__dict__['_' + nm][:] = table[nm]
                    before = {k_: m.__dict__['_' + k_].copy() for k_ in m.__dict__['index']}
                    raised = None
                    with warnings.catch_warnings():
                        warnings.simplefilter('ignore')
                        try:
                            if entry == 'solve_t':
                                m.solve_t(t, max_iter=2, failures='ignore', errors='ignore', offset=offset)
                            else:
                                if t < 0:
                                    continue
                                m.solve(start=span[p], end=span[p], max_iter=2, failures='ignore', errors='ignore')
                        except Exception as e:
                            raised = type(e).__name__
                    n += 1
                    after = {k_: m.__dict__['_' + k_] for k_ in before}
                    changed = set()
                    for k_ in before:
                        b, a = before[k_], after[k_]
                        for q in range(L):
                            same = (b[q] == a[q]) or (b.dtype.kind == 'f' and np.isnan(b[q]) and np.isnan(a[q]))
                            if not same:
                                changed.add((k_, q))
                    if feasible and out_of_span:
                        # an offset pointing outside the span: rejected up front, nothing changes
                        if raised != 'IndexError':
                            raise Mis('c04-out-of-span-offset-not-rejected', t=t, L=L, offset=offset, outcome=str(raised))
                        if changed:
                            raise Mis('c04-rejected-call-changed-state', t=t, L=L, offset=offset, changed=sorted(map(str, changed)))
                    elif feasible:
                        if raised not in (None, 'SolutionError', 'ZeroDivisionError', 'OverflowError'):
                            raise Mis('c04-feasible-period-raised', exc=raised, t=t, L=L)
                        allowed = {(nm, p + k) for nm, k in writes} | {('status', p), ('iterations', p)}
                        if offset:
                            allowed |= {(nm, p) for nm in endo}  # the offset copy seeds the endogenous variables of period t
                        extra = changed - allowed
                        if extra:
                            raise Mis('c04-touched-other-cells', t=t, L=L, extra=sorted(map(str, extra)))
                    else:
                        if raised is None:
                            raise Mis(f'c04-infeasible-period-served-{"by-solve" if entry == "solve" else "by-solve_t"}',
                                      t=t, L=L, lags=lags, leads=leads, status=str(m.status[p]), changed=sorted(map(str, changed)))
                        if changed:
                            raise Mis('c04-rejected-call-changed-state', t=t, L=L, changed=sorted(map(str, changed)))
            # calls rejected up front (min_iter > max_iter; a non-finite check value under errors='raise') change nothing at
            # all - on a fresh period and on one that carries the stamps of an earlier solve
            if feasible and endo:
                for prior in (False, True):
                    for why in ('minmax', 'nonfinite'):
                        m = Model(span)
                        table = data_table(all_names, L, 2, seed + p)
                        for nm in all_names:
                            m.__dict__['_' + nm][:] = table[nm]
                        if prior:
                            m.__dict__['_status'][:] = '.'
                            m.__dict__['_iterations'][:] = 7
                        if why == 'nonfinite':
                            m.__dict__['_' + list(Model.CHECK)[0]][p] = np.nan
                        before = {k_: m.__dict__['_' + k_].copy() for k_ in m.__dict__['index']}
                        kw = dict(min_iter=3, max_iter=2) if why == 'minmax' else dict(max_iter=2, errors='raise')
                        try:
                            with warnings.catch_warnings():
                                warnings.simplefilter('ignore')
                                m.solve_t(p, **kw)
                            raised = None
                        except Exception as e:
                            raised = type(e).__name__
                        n += 1
                        want = 'ValueError' if why == 'minmax' else 'SolutionError'
                        if raised != want:
                            raise Mis(f'c04-call-not-rejected:{why}', t=p, L=L, outcome=str(raised))
                        changed = sorted(k_ for k_ in before if not np.array_equal(before[k_], m.__dict__['_' + k_], equal_nan=(before[k_].dtype.kind == 'f')))
                        if changed:
                            raise Mis('c04-rejected-call-changed-state', t=p, L=L, why=why, prior_stamps=prior, changed=changed)
            # every read while evaluating a feasible period addresses exactly t-lag / t+lead inside the span
            if feasible:
                for t in (p, p - L):
                    try:
                        ev = run_generated(Model, all_names, span, t, data_table(all_names, L, 0, seed))
                    except (ZeroDivisionError, OverflowError, TypeError):
                        continue  # a literal divided by a literal zero, an ill-typed constant expression: Python semantics (judged by C01)
                    for e in ev:
                        if e[0] in ('r', 'w'):
                            raw, pos = e[2], e[3]
                            intended = p + (raw - t)
                            if not (0 <= intended < L) or pos != intended:
                                raise Mis('c04-read-wraps-round-the-span', event=str(e[:4]), t=t, L=L)
                    n += 1
    return n


def check_c20(rec, names, symbols, Model, seed):
    G = fsic.tools.symbols_to_graph(symbols)
    n = 1

    def term_str(nm, k):
        if k == R.NAMED:
            return f"{nm}[2000]"
        return f"{nm}[t{'' if k == 0 else ('+' if k > 0 else '') + str(k)}]"

    var_like = re.compile(r'^[_A-Za-z][_A-Za-z0-9]*\[.*\]$')
    want_nodes = {}
    want_edges = set()
    seen_def = set()
    for s in rec['stmts']:
        y = term_str(names[s['lhs']['n'] - 1], s['lhs']['k'])
        key = json.dumps(s, sort_keys=True)
        if key in seen_def:
            continue
        seen_def.add(key)
        want_nodes[y] = True
        for tk in s['rhs']:
            if tk['t'] == 'var':
                want_edges.add((term_str(names[tk['n'] - 1], tk['k']), y))
    got_edges = {(a, b) for a, b in G.edges() if var_like.match(a) and var_like.match(b)}
    if got_edges != want_edges:
        raise Mis('c20-edges', missing=sorted(want_edges - got_edges), extra=sorted(got_edges - want_edges))
    for y in want_nodes:
        if y not in G.nodes or 'equation' not in G.nodes[y]:
            raise Mis('c20-node-without-equation', node=y)
        eq = G.nodes[y]['equation']
        if eq.split('=')[0].strip() != y:
            raise Mis('c20-node-equation-mismatch', node=y, equation=eq)
    # completeness / soundness against the reads actually performed when y's equation is evaluated alone
    if uses_named(rec) or rec['reject'] != 'none':
        return n
    all_names = [names[i - 1] for i in rec['modelnames']]
    L = rec['lags'] + rec['leads'] + 2
    span = range(10, 10 + L)
    t = rec['lags']
    done = set()
    for s in rec['stmts']:
        key = json.dumps(s, sort_keys=True)
        if key in done:
            continue
        done.add(key)
        y = term_str(names[s['lhs']['n'] - 1], s['lhs']['k'])
        one = parse(R.render_program([s], names, 'canon'))
        M1 = fsic.build_model(one, lags=rec['lags'], leads=rec['leads'])
        nm1 = list(M1.NAMES)
        reads_all = set()
        base = None
        for which in (0, 1, 2):
            tab = data_table(nm1, L, which, seed)
            ev = run_generated(M1, nm1, span, t, tab)
            reads_all |= {(e[1], e[2] - t) for e in ev if e[0] == 'r'}
            n += 1
        edges_in = {a for a, b in got_edges if b == y}
        got_reads = {term_str(nm, k) for nm, k in reads_all}
        has_branch = any(tk['t'] in ('cond', 'bool') for tk in s['rhs'])
        if not got_reads <= edges_in:
            raise Mis('c20-read-without-edge', node=y, reads=sorted(got_reads), edges=sorted(edges_in))
        if not has_branch and got_reads != edges_in:
            raise Mis('c20-edge-never-read', node=y, reads=sorted(got_reads), edges=sorted(edges_in))
        # perturbing a series with no edge into y leaves y unchanged
        tab = data_table(nm1, L, 0, seed)
        ev0 = run_generated(M1, nm1, span, t, tab)
        w0 = [e for e in ev0 if e[0] == 'w']
        for nm in nm1:
            for q in range(L):
                if term_str(nm, q - t) in edges_in:
                    continue
                tab2 = {k_: list(v) for k_, v in tab.items()}
                tab2[nm][q] += 1.5
                w1 = [e for e in run_generated(M1, nm1, span, t, tab2) if e[0] == 'w']
                n += 1
                if len(w0) != len(w1) or any(not approx(a[5], b[5]) for a, b in zip(w0, w1)):
                    raise Mis('c20-no-edge-but-influence', node=y, perturbed=(nm, q - t))
    return n


def check_c14(rec, names, symbols, layouts, seed):
    base_sig = sym_sig(symbols)
    base_code = {s.name: code_ast(s.code) for s in symbols if s.code is not None and s.type == Type.ENDOGENOUS}
    n = 0
    for layout in layouts:
        text = R.render_program(rec['stmts'], names, layout, seed, verbat=rec.get('verbat', []))
        try:
            syms = parse(text)
        except (ParserError, SymbolError, IndentationError) as e:
            raise Mis(f'c14-layout-rejected:{layout}', text=text, error=f'{type(e).__name__}: {str(e)[:200]}')
        n += 1
        if sym_sig(syms) != base_sig or verbatim_of(syms) != verbatim_of(symbols):
            raise Mis(f'c14-layout-changes-symbols:{layout}', text=text, got=sym_sig(syms) + verbatim_of(syms), want=base_sig + verbatim_of(symbols))
        code = {s.name: code_ast(s.code) for s in syms if s.code is not None and s.type == Type.ENDOGENOUS}
        if code != base_code:
            raise Mis(f'c14-layout-changes-code:{layout}', text=text,
                      got={s.name: s.code for s in syms if s.code}, want={s.name: s.code for s in symbols if s.code})
        # the normal form obtained under this layout is a fixed point too
        for sym in ([] if uses_named(rec) else syms):
            if sym.equation is None or sym.type != Type.ENDOGENOUS or '`' in sym.equation:
                continue
            t2 = re.sub(r'\[t\]', '[0]', sym.equation)
            t2 = re.sub(r'\[t([+-]\d+)\]', r'[\1]', t2)
            try:
                again = {s.name: s for s in parse(t2)}
            except (ParserError, SymbolError, IndentationError) as e:
                raise Mis(f'c14-normal-form-rejected:{layout}', equation=sym.equation, error=str(e)[:200])
            n += 1
            if again[sym.name].equation != sym.equation or again[sym.name].code != sym.code:
                raise Mis(f'c14-normal-form-not-a-fixed-point:{layout}', equation=sym.equation, again=again[sym.name].equation)
    # statements are parsed independently: whole script = merge of the statements parsed one at a time
    merged: Dict[str, Any] = {}
    for s in rec['stmts']:
        for sym in parse(R.render_program([s], names, 'canon')):
            merged[sym.name] = merged.get(sym.name, sym).combine(sym)
        n += 1
    tail = []
    for j, v in enumerate(rec.get('verbat', []), start=1):
        tail += parse(R.verbatim_text(j, v['form']))
        n += 1
    if list(merged.values()) + tail != list(symbols):
        raise Mis('c14-script-is-not-merge-of-statements', got=[tuple(s) for s in list(merged.values()) + tail][:6])
    # a statement written twice, the second time in another layout of the property's list (whitespace, inner spaces, explicit
    # [0], a line break inside parentheses), is the same statement twice: the script must still be what it is under one layout
    fails = []
    if rec['stmts'] and not rec.get('verbat'):
        for lay in [l_ for l_ in layouts if l_ not in ('canon', 'crlf', 'comments', 'fullparens')]:
            twice = R.render_program(rec['stmts'], names, 'canon') + '\n' + R.render_program(rec['stmts'][:1], names, lay, seed)
            n += 1
            try:
                syms2 = parse(twice)
            except (ParserError, SymbolError, IndentationError) as e:
                fails.append(Mis(f'c14-repeated-statement-rejected:{lay}', text=twice, error=f'{type(e).__name__}: {str(e)[:200]}'))
                continue
            if sym_sig(syms2) != base_sig or {s_.name: code_ast(s_.code) for s_ in syms2 if s_.code is not None and s_.type == Type.ENDOGENOUS} != base_code:
                fails.append(Mis(f'c14-repeated-statement-changes-symbols:{lay}', text=twice, got=sym_sig(syms2), want=base_sig))
    # reordering statements only reorders symbols
    n_items = len(rec['stmts']) + len(rec.get('verbat', []))
    if n_items > 1:
        order = list(range(n_items if rec.get('verbat') else len(rec['stmts'])))[::-1]
        syms = parse(R.render_program(rec['stmts'], names, 'canon', seed, order, verbat=rec.get('verbat', [])))
        n += 1
        if sorted(map(tuple, syms), key=str) != sorted(map(tuple, symbols), key=str):
            raise Mis('c14-permutation-changes-symbols')
    # the normal form is a fixed point (the property excludes equations with backticked period indexes)
    for sym in ([] if uses_named(rec) else symbols):
        if sym.equation is None or sym.type != Type.ENDOGENOUS or '`' in sym.equation:
            continue
        text = re.sub(r'\[t\]', '[0]', sym.equation)
        text = re.sub(r'\[t([+-]\d+)\]', r'[\1]', text)
        again = {s.name: s for s in parse(text)}
        n += 1
        if again[sym.name].equation != sym.equation or again[sym.name].code != sym.code:
            raise Mis('c14-normal-form-not-a-fixed-point', equation=sym.equation, again=again[sym.name].equation,
                      code=sym.code, code_again=again[sym.name].code)
    if fails:       # reported last, so that the clauses above are evaluated on every program
        fails[0].more = fails[1:]
        fails[0].done = n
        raise fails[0]
    return n


def check_c15(rec, names, symbols, seed):
    from typing import Any as _Any, List as _List, Optional as _Optional  # names the generated text refers to
    n = 0
    all_names = [names[i - 1] for i in rec['modelnames']]
    named = uses_named(rec)
    for row in rec['opts'][:4]:
        o = row['opt']
        kw = dict(lags=None if o['lags'] == -1 else o['lags'], leads=None if o['leads'] == -1 else o['leads'],
                  min_lags=o['minlags'], min_leads=o['minleads'])
        variants = {}
        for hints in (True, False):
            M = fsic.build_model(symbols, with_type_hints=hints, **kw)
            variants[f'build_model(hints={hints})'] = M
            ns = {'BaseModel': fsic.BaseModel, 'List': _List, 'Optional': _Optional, 'Any': _Any, 'np': np, 'vf': _vf}
            exec(fsic.build_model_definition(symbols, with_type_hints=hints, **kw), ns)
            variants[f'definition-text(hints={hints})'] = ns['Model']
            ns2 = {'BaseModel': fsic.BaseModel, 'List': _List, 'Optional': _Optional, 'Any': _Any, 'np': np, 'vf': _vf}
            exec(M.CODE, ns2)
            variants[f'CODE(hints={hints})'] = ns2['Model']
            if M.CODE != fsic.build_model_definition(symbols, with_type_hints=hints, **kw):
                raise Mis('c15-CODE-differs-from-definition-text', options=kw)
        ref_name, ref = next(iter(variants.items()))
        L = max(ref.LAGS + ref.LEADS + 2, 2) + (1 if named else 0)
        span = make_span(L, named)
        for vn, M in variants.items():
            n += 1
            for attr in ('ENDOGENOUS', 'EXOGENOUS', 'PARAMETERS', 'ERRORS', 'NAMES', 'CHECK', 'LAGS', 'LEADS'):
                if getattr(M, attr) != getattr(ref, attr):
                    raise Mis('c15-class-attribute-differs', variant=vn, attr=attr, got=getattr(M, attr), want=getattr(ref, attr))
            if (M.LAGS, M.LEADS) != (row['lags'], row['leads']):
                raise Mis('c15-lags-leads', variant=vn, got=(M.LAGS, M.LEADS), want=(row['lags'], row['leads']))
            if rec['lags'] <= ref.LAGS and rec['leads'] <= ref.LEADS:
                t = ref.LAGS
                tab = data_table(all_names, L, 2, seed)
                o1, e1 = outcome_of(M, all_names, span, t, tab)
                o0, e0 = outcome_of(ref, all_names, span, t, tab)
                if o1 != o0:
                    raise Mis('c15-evaluation-differs-between-build-routes', variant=vn, why=f'outcome {o1} vs {o0}')
                if o0 != 'ok':
                    continue   # the program itself raises under Python semantics, identically on both routes
                bad = cmp_events(e1, e0)
                if bad:
                    raise Mis('c15-evaluation-differs-between-build-routes', variant=vn, why=bad)
    # converters: output inserted verbatim, once per equation-bearing symbol, in symbol order
    calls = []

    def identity(sym):
        calls.append(sym.name)
        return sym.code

    def wrapping(sym):
        calls.append(sym.name)
        return f'# <<{sym.name}>>\n_value_ = 0\n{sym.code}\n# end'

    def constant(sym):
        calls.append(sym.name)
        return '_same_text_for_every_symbol_ = 1'

    want_calls = [s.name for s in symbols if s.type in (Type.ENDOGENOUS, Type.VERBATIM) and s.equation is not None and s.code is not None]
    calls.clear()
    text = fsic.build_model_definition(symbols, converter=constant)
    n += 1
    if text.count('_same_text_for_every_symbol_ = 1') != len(want_calls):
        raise Mis('c15-converter-output-not-inserted-once-per-symbol', got=text.count('_same_text_for_every_symbol_ = 1'), want=len(want_calls))
    # a caller-reordered symbol list: a verbatim symbol placed before the equations keeps its place in the code
    from fsic.parser import Symbol
    vsym = Symbol(name=None, type=Type.VERBATIM, lags=None, leads=None, equation='`_verbatim_first_ = 1`', code='_verbatim_first_ = 1')
    calls.clear()
    text = fsic.build_model_definition([vsym] + list(symbols), converter=identity)
    n += 1
    if calls != [None] + want_calls:
        raise Mis('c15-converter-order-with-verbatim-first', got=list(calls), want=[None] + want_calls)
    if want_calls:
        first_eq = next(s_.code for s_ in symbols if s_.name == want_calls[0])
        if not (0 <= text.find('_verbatim_first_ = 1') < text.find(first_eq.splitlines()[0])):
            raise Mis('c15-verbatim-symbol-not-in-symbol-order')
    def blank_first(sym):
        calls.append(sym.name)
        return '' if len(calls) == 1 else sym.code

    def note_only(sym):
        calls.append(sym.name)
        return f'# {sym.name}: switched off'

    for conv in (blank_first, note_only):     # a block may be empty or a mere comment: the method still compiles around it
        calls.clear()
        try:
            text = fsic.build_model_definition(symbols, converter=conv)
            calls.clear()
            Mx = fsic.build_model(symbols, converter=conv)
        except Exception as e:
            raise Mis('c15-converter-output-rejected', converter=conv.__name__, error=f'{type(e).__name__}: {str(e)[:200]}')
        n += 1
        if calls != want_calls:
            raise Mis('c15-converter-calls', converter=conv.__name__, got=list(calls), want=want_calls)
        for attr in ('ENDOGENOUS', 'EXOGENOUS', 'PARAMETERS', 'ERRORS', 'NAMES', 'CHECK', 'LAGS', 'LEADS'):
            if getattr(Mx, attr) != getattr(fsic.build_model(symbols), attr):
                raise Mis('c15-class-attribute-differs', variant='converter=' + conv.__name__, attr=attr)
    for conv in (identity, wrapping):
        calls.clear()
        text = fsic.build_model_definition(symbols, converter=conv)
        n += 1
        if calls != want_calls:
            raise Mis('c15-converter-calls', converter=conv.__name__, got=list(calls), want=want_calls)
        pos = -1
        for s in symbols:
            if s.name in want_calls:
                for line in conv(s).splitlines():
                    q = text.find('        ' + line if line else line, pos + 1)
                    if q < 0:
                        raise Mis('c15-converter-output-not-verbatim', converter=conv.__name__, line=line)
                    pos = q
        lst = list(symbols)
        calls.clear()
        M = fsic.build_model(lst, converter=conv)
        built_calls = list(calls)
        lst.clear()               # the caller's list is the caller's: the class must not depend on it after build_model returned
        # the class carries the text its converter produced, whatever was built from the same symbols before or after
        if M.CODE != text or list(calls) != built_calls or built_calls != want_calls:
            raise Mis('c15-CODE-differs-from-definition-text', converter=conv.__name__, converter_calls=list(calls), want_calls=want_calls)
        if M.CODE != text:
            raise Mis('c15-CODE-differs-from-definition-text', converter=conv.__name__)
        if fsic.build_model(symbols).CODE != fsic.build_model_definition(symbols):
            raise Mis('c15-CODE-differs-from-definition-text', converter='default-after-' + conv.__name__)
        if rec['reject'] == 'none' and not named:
            L = max(M.LAGS + M.LEADS + 2, 2)
            tab = data_table(all_names, L, 1, seed)
            Mref = fsic.build_model(symbols)
            o1, e1 = outcome_of(M, all_names, range(L), M.LAGS, tab)
            o0, e0 = outcome_of(Mref, all_names, range(L), M.LAGS, tab)
            bad = f'outcome {o1} vs {o0}' if o1 != o0 else (cmp_events(e1, e0) if o0 == 'ok' else None)
            if bad:
                raise Mis('c15-converter-changes-evaluation', converter=conv.__name__, why=bad)
    return n


def process(rec, payload, out):
    checks = payload['checks']
    seed = payload.get('seed', 0)
    did = 0
    if payload.get('check_renderer', True):
        check_renderer(rec)
    renderings = [(nm, 'canon') for nm in payload['namemaps']]
    if {'c01', 'c03'} & set(checks):
        renderings += [(payload['namemaps'][0], lay) for lay in payload.get('semantic_layouts', [])]
    for nm_name, layout in renderings:
        names = R.NAME_MAPS[nm_name]
        script = R.render_program(rec['stmts'], names, layout, verbat=rec.get('verbat', []))
        coll = collision(rec, names)
        try:
            symbols = parse(script)
        except (SymbolError, ParserError) as e:
            did += 1
            if rec['reject'] == 'none' and not coll:
                raise Mis(f'unexpected-rejection:{type(e).__name__}', script=script, error=str(e)[:300], namemap=nm_name)
            continue
        except Exception as e:  # not one of the parser's own errors
            raise Mis(f'foreign-exception-from-parse_model:{type(e).__name__}', script=script, error=str(e)[:300], namemap=nm_name)
        did += 1
        if rec['reject'] != 'none':
            raise Mis(f'accepted-program-the-spec-rejects:{rec["reject"]}', script=script, namemap=nm_name,
                      symbols=[tuple(map(str, s)) for s in symbols])
        try:
            if coll:
                # a name used both as a variable and as a called function: the property requires either a
                # faithful model or the parser's own error, never a silently dropped symbol or equation
                if sym_sig(symbols) != expected_sig(rec, names):
                    raise Mis('variable-named-like-called-function-silently-dropped', got=sym_sig(symbols), want=expected_sig(rec, names))
                continue
            if verbatim_of(symbols) != expected_verbatim(rec) or [s_.type for s_ in symbols[len(symbols) - len(rec.get('verbat', [])):]] != [Type.VERBATIM] * len(rec.get('verbat', [])):
                raise Mis('verbatim-statements-differ-from-spec', got=verbatim_of(symbols), want=expected_verbatim(rec))
            try:
                Model = fsic.build_model(symbols)
                Model(range(max(rec['lags'] + rec['leads'] + 1, 1)))
            except Exception as e:   # "whenever parse_model returns ... build_model succeeds and the class can be instantiated"
                raise Mis(f'build-or-instantiation-failed-after-successful-parse:{type(e).__name__}', error=str(e)[:300])
            if 'c03' in checks:
                did += check_c03(rec, names, symbols, Model, light=(layout != 'canon'))
            if 'c01' in checks:
                did += check_c01(rec, names, Model, symbols, seed, payload.get('tier'), light=(layout != 'canon'))
            if 'c04' in checks:
                did += check_c04(rec, names, Model, seed)
            if 'c20' in checks:
                try:
                    did += check_c20(rec, names, symbols, Model, seed)
                except (ZeroDivisionError, OverflowError, TypeError):
                    pass  # a literal divided by a literal zero, an ill-typed constant expression (Python semantics; C01 compares such programs with the reference)
            if layout != 'canon':
                continue
            if 'c14' in checks:
                did += check_c14(rec, names, symbols, payload['layouts'], seed)
            if 'c15' in checks:
                did += check_c15(rec, names, symbols, seed)
        except Mis as m:
            m.detail.setdefault('script', script)
            m.detail.setdefault('namemap', nm_name)
            raise
    return did


def main():
    payload = json.load(open(sys.argv[1]))
    out = {'n': 0, 'nontrivial': 0, 'distinct': 0, 'mismatches': [], 'keys': {}}
    seen = set()
    for rec in payload['records']:
        sig = json.dumps([rec['stmts'], rec.get('verbat', [])], sort_keys=True)
        if sig in seen:
            continue
        seen.add(sig)
        out['distinct'] += 1
        if rec['reject'] == 'none':
            out['nontrivial'] += 1
        try:
            out['n'] += process(rec, payload, out)
        except Mis as m0:
            out['n'] += getattr(m0, 'done', 0)
            for m in [m0] + list(m0.more):
                c = out['keys'].get(m.key, 0)
                out['keys'][m.key] = c + 1
                if c < 2:
                    out['mismatches'].append({'key': m.key, 'record': rec, 'detail': dict(m0.detail, **m.detail)})
    print(json.dumps(out, default=str))


if __name__ == '__main__':
    main()
