"""spec -> code: realise Solver.tla terminal behaviours on the real BaseModel.solve_t /
solve_period / solve and compare every observable with the spec's final state.

Worker module: `python -m harness.replay_solver <payload.json>`; prints a JSON summary.
"""
from __future__ import annotations

import json
import math
import sys
import warnings

import numpy as np

import fsic
from fsic.exceptions import NonConvergenceError, SolutionError

NAN, PINF, NINF = 100, 101, 102


class ScriptedError(Exception):
    pass


class ScriptedSolutionError(SolutionError):
    """A fault that is itself a fsic SolutionError (e.g. a nested solve failing inside a pass or hook):
    it must be wrapped and chained like any other exception."""


def fault(flavour, message):
    return ScriptedSolutionError(message) if flavour == 1 else ScriptedError(message)


_SHIFT = [0]   # abstract value mapped to 0.0 (variant 'shift': values of both signs; set per run by run_one)


def real(v, scale):
    if v == NAN:
        return float('nan')
    if v == PINF:
        return float('inf')
    if v == NINF:
        return float('-inf')
    return float(v - _SHIFT[0]) * scale


def warn_value(v, flavour):
    """Produce a non-finite value through an operation that raises a NumPy RuntimeWarning."""
    one, zero = np.float64(1.0), np.float64(0.0)
    if flavour == 2:
        # a helper of the equation that reports the trouble itself, through the warnings machinery, and returns the value
        warnings.warn('scripted helper: result is not finite', UserWarning)
        return real(v, 1.0)
    if v == NAN:
        return zero / zero if flavour == 0 else np.float64(np.inf) - np.float64(np.inf)
    if v == PINF:
        return one / zero if flavour == 0 else np.exp(np.float64(1000.0))
    if v == NINF:
        return -one / zero if flavour == 0 else np.log(zero)
    raise ValueError(v)


_classes = {}


def model_class(nv, tracer=False, lags=0, leads=0):
    key = (nv, tracer, lags, leads)
    if key in _classes:
        return _classes[key]
    endo = [f'X{i + 1}' for i in range(nv)]

    class Scripted(fsic.BaseModel):
        ENDOGENOUS = (endo + ['W']) if nv > 0 else []     # nv = 0: a model with no endogenous variable at all
        EXTRA = ['W'] if nv == 0 else []
        EXOGENOUS = ['Z']
        NAMES = ENDOGENOUS + EXOGENOUS + EXTRA
        CHECK = endo
        LAGS = lags
        LEADS = leads

        def solve_t_before(self, t, **kwargs):
            d = self.__dict__
            if d.get('_v_warm'):
                return
            d['_v_nB'] += 1
            d['_v_kw_before'] = kwargs.get('iteration')
            if d['_v_wb']:
                for name, v in zip(endo, d['_v_wb']):
                    d['_' + name][t] = real(v, d['_v_scale'])
            if d['_v_before'] == 'exc':
                raise fault(d['_v_flavour'], 'before')

        def solve_t_after(self, t, **kwargs):
            d = self.__dict__
            if d.get('_v_warm'):
                return
            d['_v_nA'] += 1
            if d['_v_wa']:
                for name, v in zip(endo, d['_v_wa']):
                    d['_' + name][t] = real(v, d['_v_scale'])
            if d['_v_after'] == 'exc':
                raise fault(d['_v_flavour'], 'after')

        def _evaluate(self, t, **kwargs):
            d = self.__dict__
            if d.get('_v_warm'):
                return        # the warm-up solve of an object with a history: a pass that changes nothing
            d['_v_nP'] += 1
            k = d['_v_nP']
            if d.get('_v_wnan'):
                d['_W'][t] = np.nan       # a non-check endogenous variable turns non-finite, silently: no concern of the solver's
            d['_v_iters'].append(kwargs.get('iteration'))
            outs = d['_v_script'][k - 1] if k <= len(d['_v_script']) else None
            if outs is None:
                raise AssertionError(f'script exhausted at pass {k}')
            scale, flavour = d['_v_scale'], d['_v_flavour']
            for o in outs:
                kind, v = o['kind'], o['v']
                name = endo[o['var'] - 1] if o['var'] > 0 else 'W'
                if kind == 'set':
                    # a silent store: arithmetic that is exact or merely inexact / underflowing (NumPy reports neither by
                    # default) is part of it - only invalid, overflowing and dividing-by-zero operations count as faults
                    _harmless = np.exp(np.float64(-1000.0)) + np.float64(1e-200) * np.float64(1e-200) + np.float64(1.0) / np.float64(3.0)
                    d['_' + name][t] = real(v, scale) + _harmless * 0.0
                elif kind == 'warn':
                    d['_' + name][t] = warn_value(v, flavour)
                elif kind == 'exc':
                    raise fault(flavour, f'pass {k} equation {name}')
                else:
                    raise AssertionError(kind)

    if tracer:
        from fsic.extensions.model import TracerMixin

        class Scripted(TracerMixin, Scripted):  # noqa: F811
            pass

    _classes[key] = Scripted
    return Scripted


def same(a, b):
    a = np.asarray(a)
    b = np.asarray(b)
    if a.shape != b.shape:
        return False
    if a.dtype.kind == 'f' or b.dtype.kind == 'f':
        return bool(np.all((a == b) | (np.isnan(a.astype(float)) & np.isnan(b.astype(float)))))
    return bool(np.all(a == b))


def span_for(L, kind):
    if kind == 'range':
        return range(100, 100 + L)
    if kind == 'str':
        return [f'p{i}' for i in range(L)]
    raise ValueError(kind)


def build(rec, variant, tracer=False):
    cfg = rec['cfg']
    nv = len(cfg['c0'])
    L = cfg['L']
    scale = variant['scale']
    M = model_class(nv, tracer, cfg.get('lags', 0), cfg.get('leads', 0))
    span = span_for(L, variant['span'])
    m = M(span)
    tpos = cfg['t'] + L if cfg['t'] < 0 else cfg['t']
    if variant.get('history'):
        # an object with a past: every feasible period was solved once (passes that change nothing) and every variable
        # was then re-assigned as a sequence, which re-binds its array; the behaviour of the specification applies to
        # it as to a fresh object
        d = m.__dict__
        d['_v_warm'] = True
        d['_v_script'], d['_v_scale'], d['_v_flavour'] = [], scale, 0
        d['_v_before'] = d['_v_after'] = 'ok'
        d['_v_wb'] = d['_v_wa'] = []
        d['_v_nB'] = d['_v_nA'] = d['_v_nP'] = 0
        d['_v_iters'] = []
        try:
            with warnings.catch_warnings():
                warnings.simplefilter('ignore')
                m.solve(max_iter=2, tol=1.0, failures='ignore', errors='ignore')
                if 0 <= tpos < L:
                    m.solve_t(tpos, max_iter=1, tol=1.0, failures='ignore', errors='ignore')
        except Exception:
            pass
        for name in list(m.names):
            setattr(m, name, [float(x) for x in m.__dict__['_' + name]])
        d['_v_warm'] = False
    for i in range(nv):
        arr = m.__dict__[f'_X{i + 1}']
        arr[:] = [7.0 + 10 * i + p for p in range(L)]
        arr[tpos] = real(cfg['c0'][i], scale)
        src = tpos + cfg['offset']
        if cfg['offset'] != 0 and 0 <= src < L:
            arr[src] = real(cfg['src'][i], scale)
    m.__dict__['_Z'][:] = [3.5 + p for p in range(L)]
    m.__dict__['_W'][:] = [20.25 + p for p in range(L)]
    for p in range(L):
        if p != tpos:
            m.status[p] = '.'
            m.iterations[p] = 40 + p
    m.status[tpos] = cfg['st0']
    m.iterations[tpos] = cfg['it0']
    d = m.__dict__
    d['_v_script'] = rec['hist']
    d['_v_scale'] = scale
    d['_v_flavour'] = variant['flavour']
    d['_v_before'] = 'exc' if rec['fin']['hb'] == 'exc' else 'ok'
    d['_v_after'] = 'exc' if rec['fin']['ha'] == 'exc' else 'ok'
    d['_v_wb'] = rec['fin'].get('wb') or []
    d['_v_wa'] = rec['fin'].get('wa') or []
    d['_v_nB'] = d['_v_nA'] = d['_v_nP'] = 0
    d['_v_iters'] = []
    d['_v_kw_before'] = None
    d['_v_wnan'] = bool(variant.get('wnan'))
    return m, tpos, span


def real_tol(T, scale, mode):
    if mode == 'eq' or T <= 0:
        return T * scale
    return math.nextafter((T - 1) * scale, math.inf)


def snapshot(m):
    return {n: m.__dict__['_' + n].copy() for n in m.__dict__['index']}


def classify_exc(e):
    if e is None:
        return 'none'
    if isinstance(e, (ScriptedError, ScriptedSolutionError)):
        return 'exc' if str(e).startswith('pass') else 'hook'
    if isinstance(e, Warning):
        return 'warning'
    return type(e).__name__


def run_one(rec, variant):
    cfg = rec['cfg']
    fin = rec['fin']
    _SHIFT[0] = variant.get('shift', 0)
    m, tpos, span = build(rec, variant)
    L = cfg['L']
    nv = len(cfg['c0'])
    before = snapshot(m)
    opts = dict(min_iter=cfg['min'], max_iter=cfg['max'], tol=real_tol(cfg['tol'], variant['scale'], variant['tolmode']),
                offset=cfg['offset'], failures=cfg['failures'], errors=cfg['errors'], catch_first_error=cfg['cfe'])
    entry = variant['entry']
    label = list(span)[tpos]
    obs = {}
    with warnings.catch_warnings():
        warnings.simplefilter('ignore')
        try:
            if entry == 'solve_t':
                r = m.solve_t(cfg['t'], **opts)
            elif entry == 'solve_period':
                r = m.solve_period(label, **opts)
            elif entry == 'solve':
                r = m.solve(start=label, end=label, **opts)
                if not (isinstance(r, tuple) and len(r) == 3 and list(r[0]) == [label] and list(r[1]) == [tpos]
                        and len(r[2]) == 1 and isinstance(r[2][0], bool)):
                    obs['triple'] = repr(r)
                    r = None
                else:
                    r = r[2][0]
            else:
                raise AssertionError(entry)
            obs['res'] = {'kind': 'True' if r is True else 'False' if r is False else repr(r), 'cause': 'none'}
        except (ValueError, IndexError, SolutionError, NonConvergenceError) as e:
            kind = type(e).__name__
            obs['res'] = {'kind': kind, 'cause': classify_exc(e.__cause__)}
        except Exception as e:  # foreign exception class: reported, never swallowed
            obs['res'] = {'kind': type(e).__name__, 'cause': classify_exc(e.__cause__), 'msg': str(e)[:200]}
    after = snapshot(m)
    obs['st'] = str(after['status'][tpos])
    obs['it'] = int(after['iterations'][tpos])
    obs['nB'], obs['nA'], obs['nP'] = m.__dict__['_v_nB'], m.__dict__['_v_nA'], m.__dict__['_v_nP']
    scale = variant['scale']
    cells = [float(after[f'X{i + 1}'][tpos]) for i in range(nv)]
    exp_cells = [real(v, scale) for v in fin['cells']]
    obs['cells'] = cells
    diffs = []
    exp_res = fin['res']
    if obs['res'].get('kind') != exp_res['kind'] or obs['res'].get('cause') != exp_res['cause']:
        diffs.append('res')
    for f in ('st', 'it', 'nB', 'nA', 'nP'):
        if obs[f] != fin[f]:
            diffs.append(f)
    if not same(cells, exp_cells):
        diffs.append('cells')
    if 'triple' in obs:
        diffs.append('triple')
    # the non-check endogenous variable W: only the offset copy may change it, and only at t
    src = tpos + cfg['offset']
    feasible = tpos - cfg.get('lags', 0) >= 0 and tpos + cfg.get('leads', 0) < L
    applied = cfg['offset'] != 0 and cfg['min'] <= cfg['max'] and feasible and 0 <= src < L and len(cfg['c0']) > 0
    exp_w = before['W'][src] if applied else before['W'][tpos]
    if variant.get('wnan') and obs['nP'] > 0:
        exp_w = float('nan')
    if not same(after['W'][tpos], exp_w):
        diffs.append('noncheck_endogenous')
    # iteration keyword handed to the passes: 1, 2, ...
    if m.__dict__['_v_iters'] != list(range(1, obs['nP'] + 1)):
        diffs.append('iteration_kw')
    # nothing outside period t may change (values of every variable, status, iterations)
    for name in before:
        b, a = before[name], after[name]
        mask = np.ones(L, dtype=bool)
        if name.startswith('X') or name in ('status', 'iterations', 'W'):
            mask[tpos] = False
        if not same(b[mask], a[mask]):
            diffs.append(f'elsewhere:{name}')
    return diffs, obs, exp_cells


def finding_key(rec, variant, diffs, obs):
    cfg, fin = rec['cfg'], rec['fin']
    feats = []
    if cfg['max'] == 0:
        feats.append('max_iter=0')
    if cfg['offset'] != 0:
        feats.append('offset')
    feats.append(f"errors={cfg['errors']}")
    return (f"solver[{variant['entry']}] {'+'.join(sorted(set(d.split(':')[0] for d in diffs)))} "
            f"spec={fin['res']['kind']}/{fin['st']} code={obs['res'].get('kind')}/{obs['st']} {' '.join(feats)}")


def nontrivial(rec):
    return len(rec['hist']) > 0


def main():
    payload = json.load(open(sys.argv[1]))
    variants = payload['variants']
    out = {'n': 0, 'nontrivial': 0, 'mismatches': [], 'keys': {}, 'distinct': 0}
    seen = set()
    for idx, rec in enumerate(payload['records']):
        vs = variants if payload.get('all_variants') else [variants[(idx + payload.get('seed', 0)) % len(variants)]]
        sig = json.dumps([rec['cfg'], rec['hist']], sort_keys=True)
        if sig not in seen:
            seen.add(sig)
            if nontrivial(rec):
                out['nontrivial'] += 1
        for variant in vs:
            if variant.get('shift') and rec['cfg']['errors'] == 'replace':
                continue   # 'replace' zeroes the remembered copy: 0.0 is not the image of the abstract 0 under a shifted map
            out['n'] += 1
            diffs, obs, exp_cells = run_one(rec, variant)
            if diffs:
                key = finding_key(rec, variant, diffs, obs)
                n = out['keys'].get(key, 0)
                out['keys'][key] = n + 1
                if n < 2:
                    out['mismatches'].append({'key': key, 'record': rec, 'variant': variant, 'diffs': diffs,
                                              'observed': obs, 'expected': rec['fin'], 'expected_cells_real': repr(exp_cells)})
    out['distinct'] = len(seen)
    print(json.dumps(out, default=str))


if __name__ == '__main__':
    main()
