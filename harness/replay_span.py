"""spec -> code for C10: realise LabelAccess.tla terminal behaviours on real
fsic.core.VectorContainer objects (and a BaseModel subclass) for every concrete span
type, and compare every observable after every operation with the spec's record.

The spec record carries: the span (label ids by position), the kind of lookup the
span type offers, every operation with the store it must leave / the exception it
must raise, and the expected result of every read.  This module only maps label ids
to concrete labels, performs the operations and compares - it computes no positions.

Worker module: `python -m harness.replay_span <payload.json>`; prints a JSON summary.
"""
from __future__ import annotations

import json
import sys
import warnings

import numpy as np
import pandas as pd

import fsic
from fsic.core import VectorContainer

NAMES = {1: 'X', 2: 'Y'}
DTYPES = {1: float, 2: int}

# ---------------------------------------------------------------------------
# concrete span types: label id -> concrete label (several spellings, "forms")

_Q = {1: '1999Q3', 2: '1999Q4', 3: '2000Q1', 4: '2000Q2', 5: '2000Q3'}
_D = {1: '1999-07-01', 2: '1999-10-01', 3: '2000-01-01', 4: '2000-04-01', 5: '2000-07-01'}
_COARSE = {11: '1999', 12: '2000'}
_S = {1: 'a', 2: 'b', 3: 'c', 4: 'd', 5: 'e'}
_MIXED = {1: 7, 2: 'x', 3: (1, 2), 4: 2.5, 5: frozenset({3})}


def _ap(ids):
    """Stride of an arithmetic progression of label ids (None if it is not one)."""
    if len(ids) == 1:
        return 1
    d = ids[1] - ids[0]
    if d == 0 or any(ids[i + 1] - ids[i] != d for i in range(len(ids) - 1)):
        return None
    return d


# how an absent label id of an integer-labelled span is realised: as another integer (default), or - for every other
# record - as the string that spells a label which IS in the span ('101' on range(100, 104)): a string is not that label
_CUR = {'ids': (), 'alt': False}


def _absent_as_string(i, natural):
    ids = _CUR['ids']
    if _CUR['alt'] and ids and i not in ids:
        return str(natural(ids[i % len(ids)]))
    return natural(i)


class SpanType:
    name = ''
    kind = ''
    coarse = False
    forms = ('obj',)
    family = 'python'

    def realisable(self, ids):
        return True

    def build(self, ids):
        raise NotImplementedError

    def label(self, i, form):
        raise NotImplementedError


class RangeT(SpanType):
    name, kind = 'range', 'index'

    def realisable(self, ids):
        return len(ids) == 0 or _ap(ids) is not None

    def build(self, ids):
        if not ids:
            return range(100, 100)
        d = _ap(ids)
        return range(100 + ids[0], 100 + ids[-1] + (1 if d > 0 else -1), d)

    def label(self, i, form):
        return _absent_as_string(i, lambda j: 100 + j)


class RangeZeroT(SpanType):
    """An integer range through zero: label id 2 is the (falsy) label 0."""
    name, kind = 'range_zero', 'index'

    def realisable(self, ids):
        return len(ids) == 0 or _ap(ids) is not None

    def build(self, ids):
        if not ids:
            return range(0, 0)
        d = _ap(ids)
        return range(ids[0] - 2, ids[-1] - 2 + (1 if d > 0 else -1), d)

    def label(self, i, form):
        return _absent_as_string(i, lambda j: j - 2)


_FALSY = {1: 'a', 2: '', 3: 0.0, 4: (), 5: 'e'}


class ListFalsyT(SpanType):
    """Labels that are falsy in Python ('' , 0.0, ()) in the middle of the span."""
    name, kind = 'list_falsy', 'index'

    def build(self, ids):
        return [_FALSY[i] for i in ids]

    def label(self, i, form):
        return _FALSY[i]


class ListStrT(SpanType):
    name, kind = 'list_str', 'index'

    def build(self, ids):
        return [_S[i] for i in ids]

    def label(self, i, form):
        return _S[i]


class ListMixedT(SpanType):
    name, kind = 'list_mixed', 'index'

    def build(self, ids):
        return [_MIXED[i] for i in ids]

    def label(self, i, form):
        return _MIXED[i]


class NpIntT(SpanType):
    name, kind, family = 'np_int', 'fallback', 'numpy'

    def build(self, ids):
        return np.array([100 + i for i in ids], dtype=int)

    def label(self, i, form):
        return _absent_as_string(i, lambda j: 100 + j)


class NpStrT(SpanType):
    name, kind, family = 'np_str', 'fallback', 'numpy'

    def build(self, ids):
        return np.array([_S[i] for i in ids], dtype='<U1')

    def label(self, i, form):
        return _S[i]


class PdIndexT(SpanType):
    name, kind, family = 'pd_index', 'get_loc', 'pandas'

    def build(self, ids):
        return pd.Index([_S[i] for i in ids], dtype=object)

    def label(self, i, form):
        return _S[i]


class PdIndexIntT(SpanType):
    name, kind, family = 'pd_index_int', 'get_loc', 'pandas'

    def build(self, ids):
        return pd.Index([100 + i for i in ids], dtype='int64')

    def label(self, i, form):
        return _absent_as_string(i, lambda j: 100 + j)


class PdPeriodAT(SpanType):
    name, kind, family = 'pd_period_a', 'get_loc', 'pandas'
    forms = ('obj', 'str')

    def build(self, ids):
        return pd.PeriodIndex([str(2000 + i) for i in ids], freq='Y')

    def label(self, i, form):
        return pd.Period(str(2000 + i), freq='Y') if form == 'obj' else str(2000 + i)


class PdPeriodQT(SpanType):
    name, kind, family = 'pd_period_q', 'get_loc', 'pandas'
    forms = ('obj', 'str')
    coarse = True

    def build(self, ids):
        return pd.PeriodIndex([_Q[i] for i in ids], freq='Q')

    def label(self, i, form):
        if i > 10:
            return _COARSE[i]
        return pd.Period(_Q[i], freq='Q') if form == 'obj' else _Q[i]


class PdDatetimeT(SpanType):
    name, kind, family = 'pd_datetime', 'get_loc', 'pandas'
    forms = ('obj', 'str', 'np64')
    coarse = True

    def build(self, ids):
        return pd.DatetimeIndex([_D[i] for i in ids])

    def label(self, i, form):
        if i > 10:
            return _COARSE[i]
        if form == 'np64':      # NumPy's own timestamps, in day and in nanosecond resolution
            return np.datetime64(_D[i]) if i % 2 else np.datetime64(_D[i], 'ns')
        return pd.Timestamp(_D[i]) if form == 'obj' else _D[i]


TYPES = [RangeT(), RangeZeroT(), ListFalsyT(), ListStrT(), ListMixedT(), NpIntT(), NpStrT(), PdIndexT(), PdIndexIntT(), PdPeriodAT(), PdPeriodQT(),
         PdDatetimeT()]
TYPE_BY_NAME = {t.name: t for t in TYPES}

# ---------------------------------------------------------------------------
# objects


class Copier(fsic.BaseModel):
    """X[t] = V[t]: solving period t writes a known value into exactly that period."""
    ENDOGENOUS = ['X']
    EXOGENOUS = ['V']
    NAMES = ENDOGENOUS + EXOGENOUS
    CHECK = ENDOGENOUS
    LAGS = 0
    LEADS = 0

    def _evaluate(self, t, **kwargs):
        self._X[t] = self._V[t]


def init_store(rec):
    """The initial stored values are fixed by the specification (InitVal); they are recovered from the
    record itself: the store before the first operation is the first store with that operation undone -
    so the record carries them explicitly as `init` (see LabelAccessMC.EmitRec)."""
    return rec['init']


def build(rec, typ, cls):
    ids = rec['span']
    span = typ.build(ids)
    init = init_store(rec)
    if cls == 'container':
        c = VectorContainer(span)
        for n in (1, 2):
            c.add_variable(NAMES[n], [DTYPES[n](v) for v in init[n - 1]], dtype=DTYPES[n])
    else:
        c = Copier(span)
        c.X = [float(v) for v in init[0]]
        c.add_variable('Y', [int(v) for v in init[1]], dtype=int)
    return c, span


def same(a, b):
    a = np.asarray(a)
    b = np.asarray(b)
    if a.shape != b.shape:
        return False
    if a.dtype.kind == 'f' or b.dtype.kind == 'f':
        try:
            af, bf = a.astype(float), b.astype(float)
        except (TypeError, ValueError):
            return False
        return bool(np.all((af == bf) | (np.isnan(af) & np.isnan(bf))))
    return bool(np.all(a == b))


def observe(c, ids, typ, form):
    """Read every variable through every path that needs no position arithmetic:
    attribute, name key, position, and each period's own label.  An exception raised by the
    code under test on a path is an observation ('raised:<class>'), compared like any value."""
    out = {}
    for n, name in NAMES.items():
        arr_attr = getattr(c, name)
        arr_key = c[name]

        def by_label(l):
            try:
                return np.asarray(c[name, typ.label(l, form)]).tolist()
            except Exception as e:
                return f'raised:{type(e).__name__}'

        out[name] = {
            'attr': arr_attr.tolist(),
            'key': arr_key.tolist(),
            'pos': [arr_attr[i].item() for i in range(len(ids))],
            'label': [by_label(l) for l in ids],
            'dtype': arr_attr.dtype.kind,
        }
    return out


def store_diffs(obs, store):
    diffs = []
    for n, name in NAMES.items():
        exp = store[n - 1]
        o = obs[name]
        for path in ('attr', 'key', 'pos', 'label'):
            if any(isinstance(x, (str, list)) for x in o[path]) or not same(o[path], exp):
                diffs.append(f'{name}:{path}')
        if o['dtype'] != np.dtype(DTYPES[n]).kind:
            diffs.append(f'{name}:dtype')
    return diffs


def lab(typ, form, l):
    return None if l == 0 else typ.label(l, form)


def uses_coarse(op):
    return op['a'] > 10 or op['b'] > 10


def apply_op(c, op, typ, form):
    """Perform one write; returns the name of the exception class raised ('none')."""
    name = NAMES[op['n']]
    cast = DTYPES[op['n']]
    kind = op['op']
    try:
        if kind == 'setlabel':
            c[name, typ.label(op['a'], form)] = cast(op['v'][0])
        elif kind == 'setslice':
            sl = slice(lab(typ, form, op['a']), lab(typ, form, op['b']), None if op['s'] == 0 else op['s'])
            c[name, sl] = cast(op['v'][0]) if op['sc'] else [cast(v) for v in op['v']]
        elif kind == 'setpos':
            getattr(c, name)[op['i'] - 1] = cast(op['v'][0])
            c[name][op['i'] - 1] = cast(op['v'][0])
        elif kind == 'setattr':
            setattr(c, name, [cast(v) for v in op['v']])
        elif kind == 'setitem':
            c[name] = [cast(v) for v in op['v']]
        else:
            raise AssertionError(kind)
    except AssertionError:
        raise
    except Exception as e:  # the class is compared with the spec; nothing is swallowed
        return type(e).__name__, str(e)[:120]
    return 'none', ''


def features(op):
    f = []
    if op['op'] in ('setslice', 'getslice'):
        if uses_coarse(op):
            f.append('coarse-end')
        if op['a'] == 0 or op['b'] == 0:
            f.append('open-end')
        if op['s'] > 1:
            f.append('step>1')
        if op['op'] == 'setslice' and not op['sc']:
            f.append('seq')
    return '+'.join(f)


def key_for(phase, typ, form, what, op=None):
    k = f'{phase}[{typ.name}{"/" + form if form != "obj" else ""}] {what}'
    if op is not None and features(op):
        k += ' ' + features(op)
    return k


def replay_access(rec, typ, form, cls):
    """One record on one (type, form, class).  Returns list of (key, detail)."""
    found = []
    ids = rec['span']
    _CUR['ids'], _CUR['alt'] = tuple(ids), (len(rec['log']) + sum(ids)) % 2 == 1
    c, span = build(rec, typ, cls)
    obs0 = observe(c, ids, typ, form)
    d0 = store_diffs(obs0, rec['init'])
    if d0:
        found.append((key_for('init', typ, form, 'paths-disagree:' + ','.join(d0)), {'observed': obs0}))
        return found
    for step, ent in enumerate(rec['log']):
        op = ent['op']
        if uses_coarse(op) and not typ.coarse:
            return found  # this span type has no coarse labels: behaviour not realisable here
        exc, msg = apply_op(c, op, typ, form)
        if exc != op['exc']:
            what = ('keyerror-missing' if op['exc'] == 'KeyError' and exc == 'none' else
                    f'unexpected-{exc}' if op['exc'] == 'none' else f'{exc}-instead-of-{op["exc"]}')
            found.append((key_for(op['op'], typ, form, what, op), {'step': step, 'op': op, 'raised': exc, 'message': msg}))
            return found
        obs = observe(c, ids, typ, form)
        d = store_diffs(obs, ent['store'])
        if d:
            paths = sorted(set(x.split(':')[1] for x in d))
            what = 'changed-on-keyerror' if op['exc'] == 'KeyError' else 'cells-differ'
            if not {'attr', 'key', 'pos', 'label'} <= set(paths):
                what += ':' + ','.join(paths)   # the access paths disagree among themselves
            found.append((key_for(op['op'], typ, form, what, op), {'step': step, 'op': op, 'observed': obs, 'expected_store': ent['store'], 'diffs': d}))
            return found
    final = rec['log'][-1]['store']
    # the reads
    for n, l, raised, val in rec['reads']['labels']:
        name = NAMES[n]
        rop = {'op': 'getlabel', 'n': n, 'a': l, 'b': 0, 's': 0}
        try:
            got = c[name, typ.label(l, form)]
            exc = 'none'
        except Exception as e:
            got, exc = None, type(e).__name__
        if raised:
            if exc != 'KeyError':
                found.append((key_for('getlabel', typ, form, 'keyerror-missing' if exc == 'none' else f'{exc}-instead-of-KeyError'),
                              {'read': rop, 'got': repr(got), 'raised': exc}))
                break
        elif exc != 'none':
            found.append((key_for('getlabel', typ, form, f'unexpected-{exc}'), {'read': rop, 'raised': exc}))
            break
        elif not (np.ndim(got) == 0 and same(got, val)):
            found.append((key_for('getlabel', typ, form, 'read-differs'), {'read': rop, 'got': repr(got), 'expected': val}))
            break
    for n, a, b, s, raised, vals in rec['reads']['slices']:
        rop = {'op': 'getslice', 'n': n, 'a': a, 'b': b, 's': s}
        if uses_coarse(rop) and not typ.coarse:
            continue
        name = NAMES[n]
        sl = slice(lab(typ, form, a), lab(typ, form, b), None if s == 0 else s)
        try:
            got = c[name, sl]
            exc = 'none'
        except Exception as e:
            got, exc = None, type(e).__name__
        if raised:
            if exc != 'KeyError':
                found.append((key_for('getslice', typ, form, 'keyerror-missing' if exc == 'none' else f'{exc}-instead-of-KeyError', rop),
                              {'read': rop, 'got': repr(got), 'raised': exc}))
                break
        elif exc != 'none':
            found.append((key_for('getslice', typ, form, f'unexpected-{exc}', rop), {'read': rop, 'raised': exc}))
            break
        elif not same(got, vals):
            found.append((key_for('getslice', typ, form, 'read-differs', rop), {'read': rop, 'got': repr(got), 'expected': vals}))
            break
    # reads change nothing
    d = store_diffs(observe(c, ids, typ, form), final)
    if d:
        found.append((key_for('reads', typ, form, 'store-changed-by-reads'), {'diffs': d}))
    return found


# ---------------------------------------------------------------------------
# solve_period(label) == solve_t(Pos(label)),  solve(start=a, end=b) == the periods of a:b


def solve_applicable(rec):
    if len(rec['log']) < 1:
        return None
    op = rec['log'][0]['op']
    if op['n'] != 1:
        return None
    if op['op'] == 'setlabel':
        return 'solve_period'
    if op['op'] == 'setslice' and op['sc'] and op['s'] in (0, 1) and not uses_coarse(op):
        return 'solve'
    return None


def replay_solve(rec, typ, form):
    """The first operation of the record, realised by the solver: the expected cells are the spec's store
    after SetLabel(X, label, v) / SetSlice(X, a, b, 1, v)."""
    found = []
    which = solve_applicable(rec)
    ent = rec['log'][0]
    op = ent['op']
    ids = rec['span']
    m, span = build(rec, typ, 'model')
    v = float(op['v'][0])
    m.V = v
    init = rec['init']
    before_status = m.status.copy()
    try:
        with warnings.catch_warnings():
            warnings.simplefilter('ignore')
            if which == 'solve_period':
                r = m.solve_period(typ.label(op['a'], form))
            else:
                r = m.solve(start=lab(typ, form, op['a']), end=lab(typ, form, op['b']))
        exc = 'none'
    except Exception as e:
        r, exc = None, type(e).__name__
    if exc != op['exc']:
        if exc == 'KeyError' and op['exc'] == 'none':
            # which lookup result made the solver refuse the label?
            probe = op['a'] if op['a'] != 0 else op['b']
            try:
                loc = m._locate_period_in_span(typ.label(probe, form)) if probe else None
                tname = type(loc).__module__.split('.')[0] + '.' + type(loc).__name__ if not isinstance(loc, int) else 'int'
                tname = tname.replace('numpy.', 'np.')
            except Exception as e2:
                tname = 'lookup-' + type(e2).__name__
            fam = 'numpy-span' if typ.family == 'numpy' else f'{typ.name}-span'
            key = f'{which}-{fam}-keyerror-{tname}'
        else:
            key = key_for(which, typ, form, f'{exc}-instead-of-{op["exc"]}')
        found.append((key, {'op': op, 'raised': exc, 'span_type': typ.name}))
        return found
    exp_x = ent['store'][0]
    changed = [i for i in range(len(ids)) if exp_x[i] != init[0][i]]
    if not same(m.X, exp_x) or not same(m['Y'], ent['store'][1]):
        found.append((key_for(which, typ, form, 'cells-differ'), {'op': op, 'X': m.X.tolist(), 'expected': exp_x}))
        return found
    exp_status = ['.' if i in changed else '-' for i in range(len(ids))]
    if list(m.status) != exp_status or (exc == 'KeyError' and list(m.status) != list(before_status)):
        found.append((key_for(which, typ, form, 'status-differs'), {'op': op, 'status': list(m.status), 'expected': exp_status}))
    if exc == 'none':
        if which == 'solve_period' and r is not True:
            found.append((key_for(which, typ, form, 'result-differs'), {'op': op, 'result': repr(r)}))
        if which == 'solve':
            ok = (isinstance(r, tuple) and len(r) == 3 and [int(t) for t in r[1]] == changed and list(r[2]) == [True] * len(changed)
                  and len(r[0]) == len(changed) and all(same_label(a, typ.label(ids[i], 'obj')) for a, i in zip(r[0], changed)))
            if not ok:
                found.append((key_for(which, typ, form, 'result-differs'), {'op': op, 'result': repr(r), 'expected_positions': changed}))
    return found


def same_label(a, b):
    try:
        return bool(a == b)
    except Exception:
        return False


# ---------------------------------------------------------------------------


def nontrivial(rec):
    """A behaviour is non-trivial if some operation or read addresses a present label (something is located)."""
    return any(e['op']['exc'] == 'none' and e['op']['op'] in ('setlabel', 'setslice') for e in rec['log']) or \
        any(not r[4] for r in rec['reads']['slices'])


def main():
    payload = json.load(open(sys.argv[1]))
    all_types = payload.get('all_types', True)
    all_classes = payload.get('all_classes', True)
    all_forms = payload.get('all_forms', True)
    seed = payload.get('seed', 0)
    only = payload.get('only')  # replay of one finding: {'type':..., 'form':..., 'cls':..., 'phase':...}
    out = {'n': 0, 'nontrivial': 0, 'distinct': 0, 'mismatches': [], 'keys': {}, 'by_type': {}, 'ops': {}}
    with warnings.catch_warnings():
        warnings.simplefilter('ignore')
        for idx, rec in enumerate(payload['records']):
            out['distinct'] += 1
            if nontrivial(rec):
                out['nontrivial'] += 1
            for e in rec['log']:
                out['ops'][e['op']['op']] = out['ops'].get(e['op']['op'], 0) + 1
            types = [t for t in TYPES if t.kind == rec['kind'] and t.realisable(rec['span'])]
            combos = [(t, f) for t in types for f in (t.forms if all_forms else [t.forms[(idx + seed) % len(t.forms)]])]
            if only:
                combos = [(TYPE_BY_NAME[only['type']], only['form'])]
            elif not all_types and combos:
                combos = [combos[(idx + seed) % len(combos)]]
            for j, (typ, form) in enumerate(combos):
                classes = ['container', 'model'] if all_types and all_classes else [['container', 'model'][(idx + j + seed) % 2]]
                if only:
                    classes = [only['cls']] if only.get('cls') in ('container', 'model') else []
                runs = []
                for cls in classes:
                    out['n'] += 1
                    out['by_type'][typ.name] = out['by_type'].get(typ.name, 0) + 1
                    for key, detail in replay_access(rec, typ, form, cls):
                        runs.append((key, dict(detail, cls=cls, phase='access')))
                if solve_applicable(rec) and (not only or only.get('phase') == 'solve'):
                    out['n'] += 1
                    out['by_type'][typ.name + ':solve'] = out['by_type'].get(typ.name + ':solve', 0) + 1
                    for key, detail in replay_solve(rec, typ, form):
                        runs.append((key, dict(detail, cls='model', phase='solve')))
                for key, detail in runs:
                    n = out['keys'].get(key, 0)
                    out['keys'][key] = n + 1
                    if n < 2:
                        out['mismatches'].append({'key': key, 'record': rec, 'type': typ.name, 'form': form, 'detail': detail})
    print(json.dumps(out, default=str))


if __name__ == '__main__':
    main()
