"""spec -> code for C13: realise the inputs enumerated by Splitter.tla on the real
fsic.parse_model / build_model and compare the outcome with what the specification
says must happen.

Worker module: `python -m harness.replay_splitter <payload.json>`; prints a JSON summary.

The specification (spec/Splitter.tla, emitted by SplitterMC.EmitInv) works on character
CLASSES.  One record = one class string `s` plus the verdict of the spec:
    legal  subset of {"error", "statements"}   legal outcome kinds
    k      number of statements; ext[i] = [first, last] (1-based positions in the input)
    vb[i]  1: statement i is inserted verbatim, 0: it must yield exactly one equation
    err / why   the error the spec demands (why = reason) when legal == ["error"]
    h      length of the fixed head of the string (context slices)

EXPANSION (fixed, documented): every class code of the free tail is replaced by each of its
members, the product over all positions is taken; positions of the fixed head (`h`) take the
first member only.  The union over all class strings of length <= N is therefore exactly
"all strings over the 27-character alphabet up to length N".

    L  letter        A b e t          +  operator     + - * /
    1  digit         1                x  non-ASCII    é
    n  newline       \\n               '  quote        '
    every other code stands for itself:  _ space = ( ) [ ] { } < > ` # . ,

The inverse table (`abstract`) maps arbitrary text (mutation fuzzing) to a class string.

Verdict per concrete string (the expected side comes from the record, never from a Python
re-implementation of the parser):
  * parse_model must terminate (alarm after 2 s of CPU time, wall-clock backstop 120 s; a timeout counts only if
    it is reproduced on a second call)
  * the outcome class must be legal: one of the parser's own errors only if "error" is
    legal; a return only if "statements" is legal; any other exception class is foreign
  * no side effect: canaries on builtins.print / open / input / exit, the exec-visible
    sentinel `probe`, sys.stdout / sys.stderr, fsic.parser module globals, np.geterr(),
    warnings.filters, sys.modules, os.environ, cwd listing
  * if it returned: build_model succeeds, Model(range(3)) instantiates, every series the
    generated code reads exists; each statement of the spec, parsed alone, yields exactly one
    equation / verbatim block of the demanded kind, and the blocks of the built model are
    exactly the union of those (identical statements legitimately merge, DESIGN 8)
"""
from __future__ import annotations

import builtins
import io
import itertools
import json
import os
import random
import re
import resource
import signal
import sys
import tempfile
import warnings

import numpy as np

import fsic
import fsic.parser as fparser
from fsic.exceptions import ParserError, SymbolError

OWN = (ParserError, SymbolError, IndentationError)

MEMBERS = {'L': 'Abet', '1': '1', 'n': '\n', '+': '+-*/', 'x': 'é\\', "'": "'"}      # class x: characters with no role in the splitter (a letter outside ASCII, the backslash)
for _c in '_ =()[]{}<>`#.,':
    MEMBERS[_c] = _c
assert len(MEMBERS) == 21 and sum(len(v) for v in MEMBERS.values()) == 28


def abstract(text: str) -> str:
    """Inverse of the expansion table for arbitrary text (fuzzing): character -> class code."""
    out = []
    for i, ch in enumerate(text):
        if ch == '\n':
            out.append('n')
        elif ch == '\r' and text[i + 1:i + 2] == '\n':
            out.append(' ')      # CRLF: str.splitlines() ends the line at the pair; position-wise the '\r' is a trailing blank
        elif ch in '\r\x0b\x0c\x1c\x1d\x1e\x85\u2028\u2029':
            out.append('n')      # the other characters str.splitlines() breaks lines at
        elif ch in '_ =()[]{}<>`#.,':
            out.append(ch)
        elif ch == '\t':
            out.append(' ')
        elif ch in '\'"':
            out.append("'")
        elif ch.isascii() and ch.isalpha():
            out.append('L')
        elif ch.isascii() and ch.isdigit():
            out.append('1')
        elif not ch.isascii():
            out.append('x')
        else:
            out.append('+')
    return ''.join(out)


def expand(rec):
    s, h = rec['s'], rec.get('h', 0)
    pools = [MEMBERS[c][0] if i < h else MEMBERS[c] for i, c in enumerate(s)]
    for tup in itertools.product(*pools):
        yield ''.join(tup)


# --------------------------------------------------------------------------
# canaries


class _Alarm(BaseException):
    pass


_armed = False


def _on_alarm(signum, frame):
    if _armed:          # a signal that arrives after the guarded call has ended is ignored
        raise _Alarm()


def _arm(cpu_s: float) -> None:
    """Per-call alarm: `cpu_s` seconds of CPU time of this process (ITIMER_VIRTUAL - a loaded machine cannot make a
    verdict; DESIGN 10: no wall-clock in any verdict) and a 120 s wall-clock backstop for a call that sleeps."""
    global _armed
    signal.setitimer(signal.ITIMER_VIRTUAL, cpu_s)
    signal.setitimer(signal.ITIMER_REAL, 120.0)
    _armed = True


def _disarm() -> None:
    global _armed
    _armed = False
    signal.setitimer(signal.ITIMER_VIRTUAL, 0)
    signal.setitimer(signal.ITIMER_REAL, 0)


class Absorb:
    """Exec-visible sentinel: calling it is recorded; every operation on it returns it again, so
    an executed statement carries on exactly as far as it would with any other defined name."""

    def __init__(self, hits, name):
        object.__setattr__(self, '_hits', hits)
        object.__setattr__(self, '_name', name)

    def __call__(self, *a, **k):
        self._hits.append(self._name)
        return self

    def __getattr__(self, item):
        if item.startswith('__'):
            raise AttributeError(item)
        return self

    def __bool__(self):
        return True

    def __hash__(self):
        return 0


def _absorbing(self, *a, **k):
    return self


for _m in ('add radd sub rsub mul rmul truediv rtruediv floordiv rfloordiv mod rmod pow rpow neg pos abs invert '
           'lt le gt ge eq ne getitem and rand or ror xor rxor lshift rshift matmul').split():
    setattr(Absorb, f'__{_m}__', _absorbing)


class Tap(io.TextIOBase):
    def __init__(self, hits, name):
        self.hits, self.name = hits, name

    def write(self, s):
        if s:
            self.hits.append(self.name)
        return len(s)

    def flush(self):
        pass


class Canaries:
    def __init__(self):
        self.hits = []
        self.real_stdout, self.real_stderr = sys.stdout, sys.stderr
        self.real = {n: getattr(builtins, n) for n in ('print', 'open', 'input', 'exit', 'quit')}
        compile('é = 1', '<warm-up>', 'exec')      # CPython imports unicodedata lazily for non-ASCII identifiers
        self.cwd = tempfile.mkdtemp(prefix='c13-cwd-')
        os.chdir(self.cwd)

        def mk(name, ret=None):
            def canary(*a, **k):
                self.hits.append(name)
                return ret() if ret else None
            return canary
        builtins.print = mk('print')
        builtins.open = mk('open', lambda: io.StringIO(''))
        builtins.input = mk('input', lambda: '')
        builtins.exit = mk('exit')
        builtins.quit = mk('exit')
        builtins.probe = Absorb(self.hits, 'call')
        sys.stdout = Tap(self.hits, 'stdout')
        sys.stderr = Tap(self.hits, 'stderr')
        self.base = self.snapshot()

    @staticmethod
    def _freeze(v):
        if isinstance(v, dict):
            return ('d', tuple((k, id(x)) for k, x in v.items()))
        if isinstance(v, (list, set, tuple)):
            return ('l', tuple(id(x) for x in v))
        return None

    def snapshot(self):
        g = vars(fparser)
        return {
            'parser-globals': {k: (id(v), self._freeze(v)) for k, v in g.items()},
            'np.geterr': dict(np.geterr()),
            'warnings.filters': (id(warnings.filters), tuple(map(id, warnings.filters))),
            'warnings.showwarning': id(warnings.showwarning),
            'sys.modules': len(sys.modules),
            'os.environ': len(os.environ),
            'builtins': len(vars(builtins)),
        }

    def cheap_changed(self):
        """Names of the canaries that differ from the baseline (called after every parse)."""
        out = []
        if self.hits:
            out += sorted(set(self.hits))
        b = self.base
        g = vars(fparser)
        if len(g) != len(b['parser-globals']) or any(k not in b['parser-globals'] or b['parser-globals'][k][0] != id(v)
                                                     or b['parser-globals'][k][1] != self._freeze(v) for k, v in g.items()):
            out.append('parser-globals')
        if np.geterr() != b['np.geterr']:
            out.append('np.geterr')
        if (id(warnings.filters), tuple(map(id, warnings.filters))) != b['warnings.filters']:
            out.append('warnings.filters')
        if id(warnings.showwarning) != b['warnings.showwarning']:
            out.append('warnings.showwarning')
        if len(sys.modules) != b['sys.modules']:
            out.append('sys.modules')
        if len(os.environ) != b['os.environ']:
            out.append('os.environ')
        if len(vars(builtins)) != b['builtins']:
            out.append('builtins')
        return out

    def cwd_changed(self):
        return bool(os.listdir(self.cwd))

    def rearm(self):
        """Re-establish the baseline after a reported side effect so that later cases are judged on their own."""
        del self.hits[:]
        np.seterr(**self.base['np.geterr'])
        for f in os.listdir(self.cwd):
            try:
                os.unlink(os.path.join(self.cwd, f))
            except OSError:
                pass
        self.base = self.snapshot()

    def close(self):
        sys.stdout, sys.stderr = self.real_stdout, self.real_stderr
        for n, f in self.real.items():
            setattr(builtins, n, f)
        try:
            os.chdir('/')
            os.rmdir(self.cwd)
        except OSError:
            pass


# --------------------------------------------------------------------------
# one call of the real parser


def where_of(exc: BaseException, text: str) -> str:
    """Feature of a foreign exception: where in the parser it arose (finding key only).  Decided on frame and
    local-variable names, not on line numbers or source text."""
    tb = exc.__traceback__
    frames = []
    while tb is not None:
        frames.append(tb.tb_frame)
        tb = tb.tb_next
    if any(f.f_code.co_filename == '<string>' for f in frames):
        return 'exec-syntax-check'            # raised by the statement itself while parse_model ran it
    last = None
    for f in frames:
        if f.f_code.co_filename.endswith(os.path.join('fsic', 'parser.py')):
            last = f
    if last is None:
        return 'outside-parser'
    name = last.f_code.co_name
    if name == 'parse_model' and last is frames[-1] and 'e' in last.f_locals and 'problem_statements' in last.f_locals \
            and 'symbols' not in last.f_locals:
        return 'syntax-check'                 # raised by exec/compile of the statement without a frame of its own
    if name == 'parse_equation' and last is frames[-1] and 'template' in last.f_locals and 'symbols' not in last.f_locals:
        # str.format on the template (parser.py: equation = template.format(...); code = template.format(...))
        rest = re.sub(r'\{\s*[_A-Za-z][_A-Za-z0-9]*\s*\}', '', text)
        return 'str.format-braces' if ('{' in rest or '}' in rest) else 'str.format-term-mismatch'
    if name == 'build_model' and last is frames[-1]:
        return 'exec-class-definition'
    return name


def call_parse(text: str):
    """-> (kind, payload): ('ret', symbols) | ('own', class name) | ('foreign', (class name, where, msg)) | ('timeout', None)"""
    try:
        try:
            _arm(2.0)
            r = fsic.parse_model(text)
            return 'ret', r
        finally:
            _disarm()
    except OWN as e:
        return 'own', type(e).__name__
    except _Alarm:
        return 'timeout', None
    except BaseException as e:  # foreign class: reported, never swallowed
        return 'foreign', (type(e).__name__, where_of(e, text), str(e)[:160])


class _CountingConverter:
    def __init__(self):
        self.blocks = []

    def __call__(self, symbol):
        self.blocks.append((symbol.type.name, symbol.equation, symbol.code))
        return 'pass'


_build_cache = {}
_SELF_NAME = re.compile(r'self\._(?!_dict__\[)([A-Za-z_][A-Za-z0-9_]*)\s*\[')
# names with a leading underscore are read through the instance dictionary: self.__dict__['__x'][t]
_SELF_DICT = re.compile(r"self\.__dict__\['_([A-Za-z_][A-Za-z0-9_]*)'\]\s*\[")
_SELF_ITEM = re.compile(r"self\['([A-Za-z_][A-Za-z0-9_]*)'")


def build_check(symbols):
    """Build the class from `symbols` with the real build_model; -> dict(problem=None|str, blocks=[...])."""
    key = tuple(symbols)
    hit = _build_cache.get(key)
    if hit is not None:
        return hit
    res = {'problem': None, 'detail': None, 'blocks': []}
    try:
        try:
            _arm(10.0)
            Model = fsic.build_model(list(symbols))
            stage = 'instantiate'
            m = Model(range(3))
            stage = 'definition'
            conv = _CountingConverter()
            fsic.build_model_definition(list(symbols), converter=conv)
            res['blocks'] = conv.blocks
            names = set(m.names)
            missing = []
            for typ, eqn, code in conv.blocks:
                if typ != 'ENDOGENOUS':
                    continue
                for n in _SELF_NAME.findall(code) + _SELF_DICT.findall(code) + _SELF_ITEM.findall(code):
                    if n not in names and n not in missing:
                        missing.append(n)
            if missing:
                fn = {s.name for s in symbols if s.type.name == 'FUNCTION'}
                res['problem'] = ('dropped-symbol:name-used-as-variable-and-function' if all(n in fn for n in missing)
                                  else 'dropped-symbol:series-read-by-code-not-in-model')
                res['detail'] = {'missing': missing}
        finally:
            _disarm()
    except _Alarm:
        res['problem'] = 'build-nontermination'
    except BaseException as e:
        st = locals().get('stage', 'build_model')
        res['problem'] = f'build-fails:{type(e).__name__}:{where_of(e, "") if st == "build_model" else st}'
        res['detail'] = {'message': str(e)[:300]}
    if len(_build_cache) < 60000:
        _build_cache[key] = res
    return res


def blocks_of(symbols):
    """(type, equation, code) of the equation-bearing symbols of a parse result (for a single statement)."""
    return [(s.type.name, s.equation, s.code) for s in symbols
            if s.type.name in ('ENDOGENOUS', 'VERBATIM') and s.equation is not None and s.code is not None]


def lhs_feature(stmt: str) -> str:
    """Feature of a statement that contributed more than one block (finding key only)."""
    body = '\n'.join(ln.split('#', 1)[0] for ln in stmt.split('\n'))
    try:
        lv = [t.name for t in fparser.parse_terms(body.split('=', 1)[0]) if t.type.name == 'VARIABLE']
    except Exception:
        return 'lhs-unparseable'
    return 'several-lhs-terms' if len(lv) > 1 else 'single-lhs-term'


def drop_feature(stmt: str) -> str:
    """Feature of a statement that parsed but contributed no block (finding key only, not a verdict)."""
    body = '\n'.join(ln.split('#', 1)[0] for ln in stmt.split('\n'))
    if '=' not in body:
        return 'no-equals-sign'
    left, right = body.split('=', 1)
    try:
        lt = fparser.parse_terms(left)
        rt = fparser.parse_terms(right)
    except Exception:
        return 'terms-unparseable'
    lv = [t.name for t in lt if t.type.name == 'VARIABLE']
    if not lv:
        return 'no-assignable-lhs'
    fn = {t.name for t in rt + lt if t.type.name == 'FUNCTION'}
    if any(n in fn for n in lv):
        return 'lhs-name-also-called-as-function'
    return 'lhs-present'


# --------------------------------------------------------------------------
# judging one concrete string against one record


def judge(text: str, rec, can: Canaries, full: bool = True):
    """-> (outcome label, list of (key, observed-detail)).  `full`: the record carries the spec's statement extents
    (enumeration); otherwise only the clauses that need no statement count are checked (bulk fuzzing)."""
    kind, val = call_parse(text)
    if kind == 'timeout':
        kind, val = call_parse(text)
        if kind == 'timeout':
            can.rearm()
            return 'timeout', [('nontermination:parse_model', {'text': text})]
    found = []
    changed = can.cheap_changed()
    if changed:
        for c in changed:
            if c in ('print', 'open', 'input', 'exit', 'call', 'stdout', 'stderr'):
                found.append((f'executes-statement:{c}-at-parse-time', {'canary': c}))
            else:
                found.append((f'side-effect:{c}', {'canary': c}))
        can.rearm()
    legal = rec['legal'] if rec is not None else ['error', 'statements']
    if kind == 'own':
        if 'error' not in legal:
            found.append((f'rejects-empty-script:{val}', {'raised': val}))
        return val, found
    if kind == 'foreign':
        cls, where, msg = val
        found.append((f'foreign-exception:{cls}:{where}', {'raised': cls, 'where': where, 'message': msg}))
        return 'foreign:' + cls, found
    symbols = val
    if 'statements' not in legal:
        why = rec.get('why')
        key = f'silent-drop:{why}' if why in ('unclosed-fence', 'no-assignable-lhs') else f'accepted-malformed:{why}'
        found.append((key, {'returned': repr(symbols)[:300], 'spec': {'err': rec.get('err'), 'why': why}}))
        return 'returned-illegal', found
    b = build_check(symbols)
    if can.cheap_changed():
        for c in can.cheap_changed():
            found.append((f'side-effect-of-build:{c}', {'canary': c}))
        can.rearm()
    if b['problem']:
        found.append((b['problem'], {'detail': b['detail'], 'symbols': repr(symbols)[:400]}))
    if rec is None or not full:
        return 'returned', found
    model_blocks = b['blocks'] if not (b['problem'] or '').startswith('build') else blocks_of(symbols)
    union = []
    for i, (a, z) in enumerate(rec['ext']):
        stmt = text[a - 1:z]
        if rec['k'] == 1 and stmt == text:
            alone = ('ret', symbols)
        else:
            alone = call_parse(stmt)
        if alone[0] != 'ret':
            found.append((f'extent-mismatch:statement-alone-{alone[0]}', {'statement': stmt, 'alone': repr(alone[1])[:200]}))
            continue
        bl = blocks_of(alone[1])
        if len(bl) == 0:
            found.append((f'silent-drop:{drop_feature(stmt)}', {'statement': stmt, 'alone': repr(alone[1])[:300]}))
        elif len(bl) > 1:
            found.append((f'several-equations-from-one-statement:{lhs_feature(stmt)}', {'statement': stmt, 'blocks': bl}))
        else:
            want = 'VERBATIM' if rec['vb'][i] else 'ENDOGENOUS'
            if bl[0][0] != want:
                found.append((f'block-kind:{bl[0][0]}-where-{want}-specified', {'statement': stmt, 'blocks': bl}))
        for x in bl:
            if x not in union:
                union.append(x)
    if not any(k_.startswith(('extent-mismatch', 'silent-drop', 'several-equations')) for k_, _ in found):
        if sorted(map(repr, union)) != sorted(map(repr, model_blocks)):
            found.append(('model-blocks-differ-from-union-of-statements',
                          {'model': model_blocks, 'union': union, 'statements': rec['k']}))
    if rec['k'] == 0 and (symbols or model_blocks):
        found.append(('symbols-from-blank-script', {'symbols': repr(symbols)[:300]}))
    return 'returned', found


# --------------------------------------------------------------------------
# mutation fuzzing of valid scripts

SEEDS = [
    # identifiers, keyword-prefixed names, names colliding with function names
    'Y = C + I + G',
    'is_open = Pin + not_X',
    '_ = __x + e1 - t_',
    'Y = exp + exp(X)',
    'max = max(A, B)',
    'log_ = log(X) + log',
    # parameters and errors with inner spaces, lags and leads
    'C = {alpha_1} * YD + {alpha_2} * H[-1]',
    'C = { alpha } * YD[ -1 ] + < e >',
    'Y = X[-12] + X[+2] + X[1] + <eps>[-1] + {b}[0]',
    'H = H[-1] + YD - C',
    "K = K['2000'] + X[`2001`]",
    # operators, unary minus, powers, nested and multi-line parentheses
    'Y = -X + 2 * (A - B) / (1 + {r}) ** 2',
    'Y = ((A + B) * (C - (D / 2)))',
    'Y = (A +\n     B +\n     C)',
    '(Y =\n    A * 2\n    - B)',
    'V = A ** 0.5 * B ** -1',
    # comments and blank lines
    '# national accounts\nY = C + I  # identity\n\nC = {a} * Y[-1]',
    'A = 1\n\n\n# nothing\nB = A * 2',
    # replaced, other and namespaced functions
    'Y = exp(X) + log(Z) + max(A, B) - min(A, 0)',
    'Y = abs(X) + np.sqrt(Z) * np.mean(W)',
    'Y = max(1, 2) + abs(-1)',
    'Y = probe(2) + X',
    'Y = print(7)',
    'Y = 1 / 0',
    "Y = open('c13.txt', 'w')",
    # comparisons and conditional expressions
    'Y = X if X > 0 else 0',
    'Y = (A if A >= B else B) + (1 if C == 2 else 0) * (D != E) + (F <= G) + (H < J)',
    'Y = A and B or not C',
    # verbatim fragments: partial, whole-line, fenced
    'Y = X + `self.helper(t)` * 2',
    '`self.counter = 0`',
    '```\nfor i in range(2):\n    self.n = i\n```',
    'A = B\n```\nself.flag = True\n```\nC = A + 1',
    # several equations with shared variables
    'Y = C + I\nC = {a} * Y\nI = {b} * (Y - Y[-1])',
    'A = B + 1\nB = A[-1] * 2\nD = A + B\nE = D[1]',
    'X = Y\nY = Z\nZ = X[-1]',
    'Y = C + I\nY = C + I',
    # stray-brace and format-sensitive shapes
    'Y = {a} + {b}[-1] * <u>',
    'Y = A[0] + B[-1]\nZ = {g}*Y',
    'Y{[é]} = X',
    'X{.1}=Y',
    'Household_consumption_total_real_2020_constant_prices = gross_domestic_product_at_market_prices_in_2020 * {average_propensity_to_consume_out_of_income}',
    'A = B\r\nC = A + 1\r\n',
    'Y = A{.1} + B{!r} + C{:>3}',
    'Y = {a[0]} + {b.c}',
    'Y = X[] + Z[ ]',
    '```\nself.Y[t] = = 1\n```',
    # long names, digits, dots
    'GDP_real_2020 = consumption_1 + investment_2 + 0.5 * stock.level',
    'Y = 1.5e3 * X + .5',
    # indentation and spacing variants that are valid
    'Y   =   C+I',
    'Y=C+I\n',
]

_TOKEN = re.compile(r"\*\*|<=|>=|==|!=|```|[A-Za-z_][A-Za-z_0-9]*|\d+\.?\d*|\s+|.", re.DOTALL)
_OPEN, _CLOSE = '([{<`', ')]}>`'


def mutate(script: str, rng: random.Random) -> str:
    toks = _TOKEN.findall(script)
    for _ in range(rng.choice((1, 1, 1, 2, 3))):
        if not toks:
            break
        op = rng.choice(('delete', 'duplicate', 'swap', 'unbalance'))
        i = rng.randrange(len(toks))
        if op == 'delete':
            del toks[i]
        elif op == 'duplicate':
            toks.insert(i, toks[i])
        elif op == 'swap':
            j = rng.randrange(len(toks))
            toks[i], toks[j] = toks[j], toks[i]
        else:
            br = [k for k, t in enumerate(toks) if t in _OPEN or t in _CLOSE or t == '```']
            if br and rng.random() < 0.6:
                del toks[rng.choice(br)]          # remove one bracket of a pair
            else:
                toks.insert(i, rng.choice(list(_OPEN + _CLOSE) + ['```\n', '\n```']))   # insert a stray one
    return ''.join(toks)


def fuzz_inputs(seed: int, per_seed: int):
    """Deterministic list of (origin, text): every seed unmutated, then the mutants round-robin over the seeds
    (mutant j of every seed before mutant j+1 of any), so that any leading part of the list covers all seeds."""
    out = [(f'seed{i}', s) for i, s in enumerate(SEEDS)]
    seen = {s for _, s in out}
    rngs = [random.Random(seed * 1000003 + i) for i in range(len(SEEDS))]
    for j in range(per_seed):
        for i, s in enumerate(SEEDS):
            m = mutate(s, rngs[i])
            if m not in seen:
                seen.add(m)
                out.append((f'seed{i}/m{j}', m))
    return out


# --------------------------------------------------------------------------


def main():
    payload = json.load(open(sys.argv[1]))
    resource.setrlimit(resource.RLIMIT_AS, (6 << 30, 6 << 30))
    signal.signal(signal.SIGALRM, _on_alarm)
    signal.signal(signal.SIGVTALRM, _on_alarm)
    mode = payload['mode']
    if mode == 'abstract':       # parent asks for the fuzz inputs and their class strings (no fsic call)
        items = fuzz_inputs(payload['seed'], payload['per_seed'])
        print(json.dumps([{'origin': o, 'text': t, 's': abstract(t)} for o, t in items]))
        return
    can = Canaries()
    out = {'n': 0, 'classes': 0, 'nontrivial': 0, 'outcomes': {}, 'keys': {}, 'mismatches': [], 'builds': 0, 'samples': []}

    def note(text, rec, label, found, origin=None):
        out['n'] += 1
        out['outcomes'][label] = out['outcomes'].get(label, 0) + 1
        for key, obs in found:
            n = out['keys'].get(key, 0)
            out['keys'][key] = n + 1
            if n < 2:
                out['mismatches'].append({'key': key, 'text': text, 'record': rec, 'observed': obs, 'origin': origin,
                                          'outcome': label})

    try:
        if mode == 'enum':
            def records():
                for f in payload.get('files', []):
                    with can.real['open'](f) as fh:      # builtins.open is a canary here
                        for line in fh:
                            yield json.loads(line)
                yield from payload.get('records', [])
            for rec in records():
                out['classes'] += 1
                nt = rec['k'] >= 1
                for text in expand(rec):
                    label, found = judge(text, rec, can)
                    note(text, rec, label, found)
                    if nt:
                        out['nontrivial'] += 1
                if can.cwd_changed():
                    note(rec['s'], rec, 'cwd', [('side-effect:file-created-in-cwd', {'files': os.listdir(can.cwd)})])
                    can.rearm()
                if len(out['samples']) < 3 and nt and rec['legal'] != ['error']:
                    out['samples'].append({'class_string': rec['s'], 'spec': {k: rec[k] for k in ('legal', 'k', 'ext', 'vb')},
                                           'first_expansion': next(expand(rec))})
        elif mode == 'exact':    # replay of one finding: exact text + its record
            for it in payload['items']:
                label, found = judge(it['text'], it.get('record'), can, full=it.get('record') is not None and 'ext' in it['record'])
                if can.cwd_changed():
                    found.append(('side-effect:file-created-in-cwd', {'files': os.listdir(can.cwd)}))
                    can.rearm()
                note(it['text'], it.get('record'), label, found, it.get('origin'))
        elif mode == 'fuzz':
            for it in payload['items']:
                rec = it.get('record')
                out['classes'] += 1
                label, found = judge(it['text'], rec, can, full=rec is not None)
                if can.cwd_changed():
                    found.append(('side-effect:file-created-in-cwd', {'files': os.listdir(can.cwd)}))
                    can.rearm()
                note(it['text'], rec, label, found, it.get('origin'))
                if label == 'returned':
                    out['nontrivial'] += 1
        else:
            raise SystemExit(f'unknown mode {mode}')
    finally:
        can.close()
    out['builds'] = len(_build_cache)
    print(json.dumps(out, default=str))


if __name__ == '__main__':
    main()
