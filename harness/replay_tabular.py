"""spec -> code: realise Tabular.tla terminal behaviours on the real fsic export/import functions.

Three kinds of record (all expected values are the ones TLC emitted):
  model   - build the model state, optionally solve(), export with the flag set, compare the DataFrame's
            index / columns / dtype kinds / cells with the spec table; from_dataframe(data columns) vs the
            spec's re-imported model
  linker  - BaseLinker.to_dataframes: one table per submodel and one for the linker
  symbols - dataframe_to_symbols(symbols_to_dataframe(symbols)) vs the spec's round-tripped list, on the
            abstract lists TLC enumerated and on the symbol lists fsic.parse_model produces for a script corpus
            (the expected None-pattern of each parsed symbol is looked up in the catalogue TLC emitted)

pandas' own coercions are observed, not modelled: the adapter reads what pandas returned (dtype kind,
cell by cell) and compares it with what the spec says the table must contain.

Worker module: `python -m harness.replay_tabular <payload.json>`; prints a JSON summary.
"""
from __future__ import annotations

import json
import math
import sys
import warnings

import numpy as np
import pandas as pd

import fsic
import fsic.tools
from fsic.parser import Symbol, Type

NAN, UNSOL, SOLVED, NONE = 100, 200, 201, 999
STR = {200: '-', 201: '.', 210: 'p', 211: 'qq', 212: 'r'}
DTYPES = {'f': float, 'i': int, 'b': bool, 's': '<U2'}


# -- realisation ---------------------------------------------------------------

_order = [0]   # 0 ascending labels, 1 descending, 2 neither (set per record; the time indexes and ranges stay ascending)


def _arrange(xs):
    if _order[0] == 1:
        return xs[::-1]
    if _order[0] == 2 and len(xs) > 2:
        return xs[1:] + xs[:1]
    return xs


def labels_for(kind, n):
    if kind == 'range':
        return range(5, 5 + n)
    if kind == 'list':
        return _arrange([f'p{i}' for i in range(1, n + 1)])
    if kind == 'ndarray':
        return np.array(_arrange(list(range(3, 3 + n))))
    if kind == 'pdIndex':
        return pd.Index(_arrange([7 * i for i in range(1, n + 1)]))
    if kind == 'pdPeriodA':
        return pd.period_range('2000', periods=n, freq='Y')
    if kind == 'pdPeriodQ':
        return pd.period_range('2000Q3', periods=n, freq='Q')
    if kind == 'pdDatetime':
        return pd.date_range('2000-01-30', periods=n, freq='D')
    raise ValueError(kind)


def kind_of(span):
    if isinstance(span, range):
        return 'range'
    if isinstance(span, list):
        return 'list'
    if isinstance(span, np.ndarray):
        return 'ndarray'
    if isinstance(span, pd.PeriodIndex):
        return 'pdPeriodQ' if span.freqstr.startswith('Q') else 'pdPeriodA'
    if isinstance(span, pd.DatetimeIndex):
        return 'pdDatetime'
    if isinstance(span, pd.Index):
        return 'pdIndex'
    return type(span).__name__


def cell(v, dt):
    if dt == 'f':
        return float('nan') if v == NAN else float(v)
    if dt == 'i':
        return int(v)
    if dt == 'b':
        return bool(v)
    return STR[v]


BIG = 2 ** 53   # integer data lie beyond the range float64 represents exactly: an export through floats shows


def cells(vs, dt, data=True):
    if dt == 'i' and data:
        return [int(v) + BIG if v != 0 else 0 for v in vs]   # (0 is also the constructor's default for a variable that was not exported)
    return [cell(v, dt) for v in vs]


_classes = {}


def model_class(cls_names):
    key = tuple(cls_names)
    if key not in _classes:
        Gen = fsic.build_model(fsic.parse_model('Y = X + 1'))
        _classes[key] = type('M', (Gen,), {'NAMES': list(cls_names)})
    return _classes[key]


def build_model(ms, span):
    M = model_class(ms['cls'])
    cdt = ms.get('cdt', 'f')
    init = {n: cells(ms['ser'][n]['v'], cdt) for n in ms['cls']}
    mdl = M(span, **init) if cdt == 'f' else M(span, dtype=DTYPES[cdt], **init)
    for n in ms['names'][len(ms['cls']):]:
        s = ms['ser'][n]
        mdl.add_variable(n, cells(s['v'], s['dt']), dtype=DTYPES[s['dt']])
    return mdl


def same_cells(got, exp, dt):
    if len(got) != len(exp):
        return False
    for g, e in zip(got, exp):
        if dt in ('f',):
            try:
                g = float(g)
            except (TypeError, ValueError):
                return False
            if not (g == e or (math.isnan(g) and math.isnan(e))):
                return False
        elif dt == 'b':
            if not (isinstance(g, (bool, np.bool_)) and bool(g) == e):
                return False
        elif dt == 'i':
            if not (isinstance(g, (int, np.integer)) and not isinstance(g, (bool, np.bool_)) and int(g) == e):
                return False
        else:
            if not (isinstance(g, str) and g == e):
                return False
    return True


def dtype_kind(dtype):
    """The adapter's reading of a pandas dtype: f / i / b, or s for anything that holds text."""
    k = getattr(dtype, 'kind', 'O')
    if k in 'fib':
        return k
    if k == 'u':
        return 'i'
    if k in 'OUST' or pd.api.types.is_string_dtype(dtype):
        return 's'
    return k


def state_diffs(mdl, ms, labels):
    """Realised model vs the spec's model state (values, dtype kinds, status, iterations, order)."""
    out = []
    d = mdl.__dict__
    if list(d['names']) != ms['names']:
        out.append('names')
    for n in ms['names']:
        s = ms['ser'][n]
        arr = d.get('_' + n)
        if arr is None or dtype_kind(arr.dtype) != s['dt'] or not same_cells(arr.tolist(), cells(s['v'], s['dt']), s['dt']):
            out.append(f'series:{n}')
    if not same_cells(d['_status'].tolist(), cells(ms['st'], 's'), 's'):
        out.append('status')
    if not same_cells(d['_iterations'].tolist(), cells(ms['it'], 'i', data=False), 'i'):
        out.append('iterations')
    if len(list(mdl.span)) != len(labels) or any(a != b for a, b in zip(list(mdl.span), list(labels))):
        out.append('span')
    return out


def table_diffs(df, t, ser_dt, labels):
    """DataFrame vs spec table: index, columns, dtype kinds, cells."""
    out = []
    if not isinstance(df, pd.DataFrame):
        return [('type', type(df).__name__)]
    idx = list(df.index)
    exp_idx = [list(labels)[i - 1] for i in t['index']]
    if len(idx) != len(exp_idx) or any(a != b for a, b in zip(idx, exp_idx)):
        out.append(('index', None))
    if list(df.columns) != t['columns']:
        out.append(('columns', None))
        return out
    for i, c in enumerate(t['columns']):
        col = df.iloc[:, i]
        dt = t['dtk'][i]
        if dtype_kind(col.dtype) != dt:
            out.append(('dtype', c))
        if not same_cells(col.tolist(), cells(t['cells'][i], dt, data=(c != 'iterations')), dt):
            out.append(('cells', c))
    return out


# -- model records ---------------------------------------------------------------

def flags_kw(fl):
    return {'status': fl['status'], 'iterations': fl['iterations'], 'include_internal': fl['internal']}


def run_model(rec, idx):
    diffs = []
    m0, ms, fl = rec['m0'], rec['m'], rec['fl']
    kind = m0['kind']
    _order[0] = (idx // 3) % 3
    labels = labels_for(kind, len(m0['span']))
    mdl = build_model(m0, labels)
    d0 = state_diffs(mdl, m0, labels)
    if d0:
        diffs.append({'where': 'construct', 'what': d0})
        return diffs
    if rec['solved']:
        with warnings.catch_warnings():
            warnings.simplefilter('ignore')
            mdl.solve()
        d1 = state_diffs(mdl, ms, labels)
        if d1:
            diffs.append({'where': 'solve', 'what': d1})
            return diffs
    kw = flags_kw(fl)
    route = idx % 3
    if route == 0 and fl['status'] and fl['iterations'] and not fl['internal']:
        df = mdl.to_dataframe()  # the defaults
    elif route == 1:
        df = fsic.tools.model_to_dataframe(mdl, **kw)
    else:
        df = mdl.to_dataframe(**kw)
    ser_dt = {n: ms['ser'][n]['dt'] for n in ms['names']}
    for what, col in table_diffs(df, rec['table'], ser_dt, labels):
        dt = 'index' if col is None else ('solution' if col in ('status', 'iterations') else ser_dt[col])
        diffs.append({'where': 'table', 'what': what, 'column': col, 'dt': dt, 'got_columns': [str(c) for c in df.columns],
                      'got_dtypes': [str(x) for x in df.dtypes], 'got': df.to_dict('list') if what == 'cells' else None})
    # the model is not changed by exporting
    d2 = state_diffs(mdl, ms, labels)
    if d2:
        diffs.append({'where': 'export-side-effect', 'what': d2})
    if diffs:
        return diffs
    # import from the data columns
    data = df[rec['data']['columns']]
    M = model_class(m0['cls'])
    try:
        back = M.from_dataframe(data) if m0.get('cdt', 'f') == 'f' else M.from_dataframe(data, dtype=DTYPES[m0['cdt']])
    except Exception as e:
        diffs.append({'where': 'from_dataframe', 'what': 'exception', 'got': f'{type(e).__name__}: {e}'[:300]})
        return diffs
    b = rec['back']
    exp_back = dict(b, names=b['names'])
    d3 = state_diffs(back, exp_back, labels)
    if d3:
        diffs.append({'where': 'from_dataframe', 'what': d3})
    got_kind = kind_of(back.span)
    if b['kind'] != 'list' and got_kind != b['kind']:
        diffs.append({'where': 'from_dataframe', 'what': ['span-kind'], 'got': got_kind, 'expected': b['kind']})
    if b['kind'] != 'list':
        # a time index must still answer the lookups it answered before the round trip
        try:
            ok = back['X', labels[1]] == mdl['X', labels[1]] or (math.isnan(back['X', labels[1]]) and math.isnan(mdl['X', labels[1]]))
            ok = ok and len(back['X', str(labels[0]):str(labels[1])]) == len(mdl['X', str(labels[0]):str(labels[1])])
        except Exception as e:
            ok = False
        if not ok:
            diffs.append({'where': 'from_dataframe', 'what': ['span-lookup'], 'got': got_kind})
    if not diffs:
        # the table is a snapshot: later writes to the model do not reach it, edits of the table do not reach the model
        frozen = df.copy(deep=True)
        for nme in ms['names']:
            arr = mdl.__dict__['_' + nme]
            if arr.dtype.kind in 'fi':
                arr[:] = arr + 1
            elif arr.dtype.kind == 'b':
                arr[:] = ~arr
        if not frozen.equals(df):
            diffs.append({'where': 'table', 'what': 'shares-memory-with-model', 'dt': 'any'})
        else:
            before = {nme: mdl.__dict__['_' + nme].copy() for nme in ms['names']}
            try:
                for j in range(df.shape[1]):
                    if df.dtypes.iloc[j].kind in 'fi':
                        df.iloc[:, j] = df.iloc[:, j] * 0 - 5
            except Exception:
                pass
            if any(not np.array_equal(before[nme], mdl.__dict__['_' + nme], equal_nan=(before[nme].dtype.kind == 'f')) for nme in ms['names']):
                diffs.append({'where': 'table', 'what': 'shares-memory-with-model', 'dt': 'any'})
    return diffs


def model_key(rec, diffs):
    d = diffs[0]
    kind = rec['m0']['kind']
    if d['where'] == 'table':
        flags = ''.join(k[0] for k in ('status', 'iterations', 'internal') if rec['fl'][k]) or 'none'
        if d['what'] == 'columns':
            return f"tabular table columns flags={flags} internal-vars={'yes' if any(n.startswith('_') for n in rec['m']['names']) else 'no'}"
        return f"tabular table {d['what']} dt={d['dt']} span={kind if d['what'] == 'index' else 'any'}"
    if d['where'] == 'from_dataframe':
        what = d['what'] if isinstance(d['what'], str) else '+'.join(sorted(set(x.split(':')[0] for x in d['what'])))
        return f"tabular from_dataframe {what} span={kind}"
    return f"tabular {d['where']} {'+'.join(sorted(set(x.split(':')[0] for x in d['what'])))} span={kind}"


# -- linker records --------------------------------------------------------------

_lclasses = {}


def linker_class(cls_names):
    key = tuple(cls_names)
    if key not in _lclasses:
        _lclasses[key] = type('L', (fsic.BaseLinker,), {'ENDOGENOUS': [cls_names[0]], 'EXOGENOUS': list(cls_names[1:]),
                                                        'NAMES': list(cls_names), 'CHECK': [cls_names[0]]})
    return _lclasses[key]


def run_linker(rec, idx):
    diffs = []
    lk, fl = rec['lk'], rec['fl']
    kind = lk['own']['kind']
    subs = {}
    for s in lk['subs']:
        _order[0] = (idx // 3) % 3
        labels = labels_for(kind, len(s['m']['span']))
        base = dict(s['m'])
        solved = s['m']['st'][0] == SOLVED
        if solved:
            # realise "solved beforehand": start from the unsolved values the spec's SolveAll started from
            start = json.loads(json.dumps(s['m']))
            its = s['m']['it']
            start['ser']['Y']['v'] = [y if it == 1 else 0 for y, it in zip(s['m']['ser']['Y']['v'], its)]
            start['st'] = [UNSOL] * len(its)
            start['it'] = [-1] * len(its)
            mdl = build_model(start, labels)
            with warnings.catch_warnings():
                warnings.simplefilter('ignore')
                mdl.solve()
        else:
            mdl = build_model(base, labels)
        d = state_diffs(mdl, s['m'], labels)
        if d:
            return [{'where': 'construct-submodel', 'what': d}]
        subs[s['id']] = mdl
    own = lk['own']
    L = linker_class(own['cls'])
    init = {n: cells(own['ser'][n]['v'], 'f') for n in own['cls']}
    try:
        linker = L(subs, name=lk['name'], **init)
    except Exception as e:
        return [{'where': 'construct-linker', 'what': ['exception'], 'got': f'{type(e).__name__}: {e}'[:300]}]
    for n in own['names'][len(own['cls']):]:
        s = own['ser'][n]
        linker.add_variable(n, cells(s['v'], s['dt']), dtype=DTYPES[s['dt']])
    labels = labels_for(kind, len(own['span']))
    d = state_diffs(linker, own, labels)
    if d:
        return [{'where': 'construct-linker', 'what': d}]
    kw = flags_kw(fl)
    tables = fsic.tools.linker_to_dataframes(linker, **kw) if idx % 2 else linker.to_dataframes(**kw)
    exp_ids = [t['id'] for t in rec['tables']]
    if not isinstance(tables, dict) or list(tables.keys()) != exp_ids:
        return [{'where': 'linker-tables', 'what': 'keys', 'got': [str(k) for k in getattr(tables, 'keys', lambda: [])()], 'expected': exp_ids}]
    for t in rec['tables']:
        src = own if t['id'] == lk['name'] else [s['m'] for s in lk['subs'] if s['id'] == t['id']][0]
        ser_dt = {n: src['ser'][n]['dt'] for n in src['names']}
        for what, col in table_diffs(tables[t['id']], t['t'], ser_dt, labels):
            diffs.append({'where': 'linker-tables', 'what': what, 'table': t['id'], 'column': col,
                          'got_columns': [str(c) for c in tables[t['id']].columns], 'got_dtypes': [str(x) for x in tables[t['id']].dtypes]})
    return diffs


def linker_key(rec, diffs):
    d = diffs[0]
    what = d['what'] if isinstance(d['what'], str) else '+'.join(sorted(set(x.split(':')[0] for x in d['what'])))
    which = ''
    if 'table' in d:
        which = ' of=linker' if d['table'] == rec['lk']['name'] else ' of=submodel'
    return f"tabular {d['where']} {what}{which} span={rec['lk']['own']['kind']} submodels={len(rec['lk']['subs'])}"


# -- symbols -----------------------------------------------------------------------

NAMES = {210: 'Y', 211: 'H', 212: 'X', 213: 'N', 214: 'alpha_1', 215: 'eps', 216: 'exp', 217: 'if'}
EQS = {300: 'Y[t] = X[t] + 1', 301: 'H[t] = H[t-1] + N[t-2]', 302: '```\nself.Q[t] = 5\n```'}
CODES = {400: 'self._Y[t] = self._X[t] + 1', 401: 'self._H[t] = self._H[t-1] + self._N[t-2]', 402: 'self.Q[t] = 5'}
FIELDS = ('name', 'type', 'lags', 'leads', 'equation', 'code')


def real_symbol(s):
    def opt(v, table=None):
        if v == NONE:
            return None
        return table[v] if table else v
    return Symbol(name=opt(s['name'], NAMES), type=Type(s['type']), lags=opt(s['lags']), leads=opt(s['leads']),
                  equation=opt(s['equation'], EQS), code=opt(s['code'], CODES))


def field_diffs(got, exp):
    """Field-by-field comparison of two symbols; returns [(field, how)] for the differing ones."""
    out = []
    if not isinstance(got, Symbol):
        return [('symbol', type(got).__name__)]
    for f in FIELDS:
        g, e = getattr(got, f), getattr(exp, f)
        if type(g) is type(e) and g == e:
            continue
        if isinstance(e, int) and not isinstance(e, bool) and isinstance(g, (int, np.integer)) and not isinstance(g, bool) and int(g) == e and f != 'type':
            continue
        if e is None and isinstance(g, float) and math.isnan(g):
            out.append((f, 'None->NaN'))
        elif e is None:
            out.append((f, f'None->{type(g).__name__}'))
        else:
            out.append((f, f'{type(e).__name__}->{type(g).__name__}' if type(g) is not type(e) else 'value'))
    return out


def round_trip(symbols):
    try:
        table = fsic.tools.symbols_to_dataframe(symbols)
        back = fsic.tools.dataframe_to_symbols(table)
        return back, None
    except Exception as e:  # outcome of the code under test
        return None, f'{type(e).__name__}: {e}'[:300]


def symbols_diffs(symbols, expected):
    back, exc = round_trip(symbols)
    if exc is not None:
        return [{'where': 'symbols', 'what': 'exception', 'got': exc}]
    if not isinstance(back, list) or len(back) != len(expected):
        return [{'where': 'symbols', 'what': 'length', 'got': len(back) if isinstance(back, list) else type(back).__name__}]
    diffs = []
    for i, (g, e) in enumerate(zip(back, expected)):
        fd = field_diffs(g, e)
        if fd or g != e:
            diffs.append({'where': 'symbols', 'what': 'fields', 'row': i, 'type': e.type.name, 'fields': fd or [('symbol', '!=')],
                          'got': repr(g)[:300], 'expected': repr(e)[:300]})
    return diffs


def symbols_key(diffs, symbols):
    d = diffs[0]
    if d['what'] == 'exception':
        nonecols = sorted(f for f in ('lags', 'leads') if symbols and all(getattr(s, f) is None for s in symbols))
        if nonecols and d['got'].startswith('TypeError'):
            return 'symbols-roundtrip-typeerror-when-no-symbol-has-lags'
        return f"symbols-roundtrip exception={d['got'].split(':')[0]}"
    if d['what'] == 'length':
        return 'symbols-roundtrip length'
    hows = sorted({h for x in diffs for _, h in x['fields']})
    fields = sorted({f for x in diffs for f, _ in x['fields']})
    if hows == ['None->NaN'] and set(fields) <= {'name', 'equation', 'code'}:
        return 'symbols-roundtrip-none-becomes-nan'
    return f"symbols-roundtrip {'+'.join(hows)} fields={'+'.join(fields)}"


def pattern(sym):
    return f"{int(sym.type)}:" + ''.join('N' if getattr(sym, f) is None else 'v' for f in ('name', 'lags', 'leads', 'equation', 'code'))


def run_symbols(rec):
    symbols = [real_symbol(s) for s in rec['syms']]
    expected = [real_symbol(s) for s in rec['back']]
    return symbols, symbols_diffs(symbols, expected)


SCRIPTS = [
    'Y = X',
    'Y = X + 1',
    'C = {alpha_1} * YD + {alpha_2} * H[-1]',
    'C = {alpha_1} * YD + {alpha_2} * H[-1]\nYD = Y - T\nY = C + G\nT = {theta} * Y\nH = H[-1] + YD - C',
    'Y = X[-1] + X[-2] + Z[1]',
    'Y = Y[-1] + <eps>',
    'Y = {a} * X + <e>',
    'Y = exp(X)',
    'Y = log(X) + exp(Z[-1])',
    'Y = max(A, B)',
    'Y = min(A, B[1])',
    'Y = A if Z > 0 else B',
    'Y = exp(log(X[1])) if Z > 0 else max(A, B)',
    'Y = (A and B) or not C',
    'Y = A if (B in C) else D',
    'Y = 1',
    'Y = 1\nZ = 2',
    '(M) = N[-2]',
    'Y = X\nX = Y[-1]',
    '```\nself.Q[t] = 5\n```',
    'Y = X\n```\nself.Q[t] = 5\n```',
    '```\nself.Q[t] = 5\n```\n```\nprint(t)\n```',
    'Y = X\n```\nself.Q[t] = 5\n```\nZ = Y[-1]',
    'Y = abs(X)',
    'Y = np.sqrt(X)',
    'Y = np.mean(X[-1])',
    'Y = float(X) + int(Z)',
    'Y = X ** 2 / (1 + Z)',
    'Y = -X',
    'Y = X\n# a comment\nZ = Y',
    'Y = (X +\n     Z)',
    'Y = {a}\nZ = {a} * Y',
    'Y = <e>\nZ = <e>[-1]',
    'Y = X[1]\nZ = X[-1]',
    'Y[1] = X',
    'Y = X[-3]',
    'A = B\nB = C\nC = D\nD = E[-1]',
    'Y = {alpha}*exp(X) if Z[-1] > <eps> else max(log(A[1]), B)',
    'Y_1 = x_2 + _z',
    'GDP = C + I + G + X - M',
    '',
    'Y = lambda_ + X',
]


def run_scripts(catalogue):
    out = {'n': 0, 'lists': 0, 'symbols': 0, 'mismatches': [], 'keys': {}, 'unparsed': [], 'patterns': {}, 'nontrivial': 0}
    for i, script in enumerate(SCRIPTS):
        try:
            with warnings.catch_warnings():
                warnings.simplefilter('ignore')
                symbols = fsic.parse_model(script)
        except Exception as e:
            out['unparsed'].append([i, f'{type(e).__name__}'])
            continue
        out['lists'] += 1
        out['n'] += 1
        out['symbols'] += len(symbols)
        for s in symbols:
            p = pattern(s)
            out['patterns'][p] = out['patterns'].get(p, 0) + 1
            if p not in catalogue:
                raise RuntimeError(f'symbol shape {p} of {s!r} is not in the catalogue emitted by TLC')
            if catalogue[p] != p:
                raise RuntimeError(f'catalogue maps {p} to {catalogue[p]}: the specification does not state a round trip')
        if any(getattr(s, f) is None for s in symbols for f in FIELDS):
            out['nontrivial'] += 1
        # the spec's expectation for every shape in the list is the shape itself (catalogue), i.e. the list itself
        diffs = symbols_diffs(symbols, list(symbols))
        if diffs:
            key = symbols_key(diffs, symbols)
            n = out['keys'].get(key, 0)
            out['keys'][key] = n + 1
            if n < 2:
                out['mismatches'].append({'key': key, 'record': {'mode': 'script', 'script': script, 'index': i}, 'diffs': diffs[:6]})
    return out


# -- main ------------------------------------------------------------------------

def main():
    payload = json.load(open(sys.argv[1]))
    if 'catalogue' in payload:
        only = payload.get('only_script')
        if only is not None:
            global SCRIPTS
            SCRIPTS = [only]
        print(json.dumps(run_scripts(payload['catalogue']), default=str))
        return
    out = {'n': 0, 'nontrivial': 0, 'distinct': 0, 'mismatches': [], 'keys': {}, 'modes': {}}
    off = payload.get('offset', 0)
    for i, rec in enumerate(payload['records']):
        idx = i + off
        mode = rec['mode']
        out['n'] += 1
        out['modes'][mode] = out['modes'].get(mode, 0) + 1
        if mode == 'model':
            diffs = run_model(rec, idx)
            key = model_key(rec, diffs) if diffs else None
            if len(rec['m']['names']) > 2 or rec['solved']:
                out['nontrivial'] += 1
        elif mode == 'linker':
            diffs = run_linker(rec, idx)
            key = linker_key(rec, diffs) if diffs else None
            out['nontrivial'] += 1
        elif not rec.get('producible', True):
            out['n'] -= 1  # a shape the parser cannot produce: catalogue entry only, decided by TLC, not replayed
            out['modes'][mode] -= 1
            out['modes']['symbol-shapes'] = out['modes'].get('symbol-shapes', 0) + 1
            continue
        else:
            symbols, diffs = run_symbols(rec)
            key = symbols_key(diffs, symbols) if diffs else None
            if any(v == NONE for s in rec['syms'] for v in s.values()):
                out['nontrivial'] += 1
        if diffs:
            n = out['keys'].get(key, 0)
            out['keys'][key] = n + 1
            if n < 2:
                out['mismatches'].append({'key': key, 'record': rec, 'index': idx, 'diffs': diffs[:6]})
    out['distinct'] = out['n']
    print(json.dumps(out, default=str))


if __name__ == '__main__':
    main()
