"""spec -> code for C16: realise the case records emitted by TimeSeriesMC.tla on the real
fsic.functions.lag/lead/diff/dlog and VectorContainer.eval and compare with the result the
specification expects (carried in the record; nothing is recomputed here).

Worker module: `python -m harness.replay_timeseries <payload.json>`; prints a JSON summary.

payload: {'records': [...], 'kinds': [...span kinds...] | None, 'seed': int}
record (ts): {kind:'ts', op, x, p, fill, open, alias, out:{k,v,e,nm}, fp:[positions filled by definition]}
record (ev): {kind:'ev', scen, span:[label ids], vars:{name:[..]}, locs:{name:{k,v,..}}, expr:<tree>, out:{k,v,e,nm}}
Value codes: finite = the integer itself, NaN = 100; NONE = 99 is an omitted slice component.
"""
from __future__ import annotations

import ast
import json
import sys
import warnings

import numpy as np

import fsic
import fsic.functions
from fsic.core.containers import VectorContainer
import fsic.core.containers as _containers

NAN, NONE = 100, 99
KINDS = ['range', 'liststr', 'ndarray', 'pdindex', 'period']
NAME_MAPS = [
    {'X': 'X', 'Y': 'Y', 'Q': 'Q', 'k': 'k'},
    {'X': 'GDP', 'Y': 'Y1', 'Q': 'gdp', 'k': 'n_'},   # undefined name differs from a variable only by case
    {'X': '_x', 'Y': 'é1', 'Q': '_q', 'k': '_'},      # underscore-prefixed and non-ASCII identifiers
]
BIG = 2 ** 53 + 1
HELPERS = ('lag', 'lead', 'diff', 'dlog', 'exp', 'log', 'nofn')


def real(v):
    return float('nan') if v == NAN else float(v)


def real_array(vs, dtype=float):
    return np.array([real(v) for v in vs], dtype=dtype)


def same_values(a, b):
    """NaN-aware, shape-aware equality of two numeric arrays / scalars."""
    a = np.asarray(a)
    b = np.asarray(b)
    if a.shape != b.shape:
        return False
    if a.dtype.kind not in 'fiub' or b.dtype.kind not in 'fiub':
        return False
    af, bf = a.astype(float), b.astype(float)
    return bool(np.all((af == bf) | (np.isnan(af) & np.isnan(bf))))


def show(x):
    if isinstance(x, np.ndarray):
        return {'type': 'ndarray', 'dtype': str(x.dtype), 'shape': list(x.shape), 'values': [repr(float(v)) for v in x.ravel()[:12]]}
    if isinstance(x, BaseException):
        return {'type': 'exception', 'class': type(x).__name__, 'message': str(x)[:200]}
    return {'type': type(x).__name__, 'repr': repr(x)[:200]}


# ---------------------------------------------------------------------------
# ts records: lag / lead / diff / dlog


def builtins_state():
    b = fsic.functions.builtins
    return (id(b), tuple(b.keys()), tuple(id(v) for v in b.values()), id(_containers._builtins))


_BUILTINS_REF = fsic.functions.builtins
_BUILTINS_0 = builtins_state()
_BUILTINS_FUNCS = dict(fsic.functions.builtins)


def builtins_changed():
    s = builtins_state()
    if fsic.functions.builtins is not _BUILTINS_REF or s != _BUILTINS_0:
        return True
    return any(fsic.functions.builtins[k] is not v for k, v in _BUILTINS_FUNCS.items())


def ts_key(fn, rec, what, dtype):
    n, p = len(rec['x']), rec['p']
    if fn in ('diff', 'dlog') and p == 0 and what == 'value':
        return 'diff-d0-returns-input-instead-of-zero-differences'
    pclass = 'p0' if p == 0 else ('pos' if p > 0 else 'neg') + ('-inside' if abs(p) < n else '-ge-n')
    fillc = {NAN: 'nan', 0: 'zero', 7: 'seven'}.get(rec['fill'], str(rec['fill']))
    return f"ts-{fn}-{pclass}-{'empty' if n == 0 else 'nonempty'}-fill-{fillc}-{dtype}-{what}"


def call_helper(fn, x, p, fill, style):
    f = getattr(fsic.functions, fn)
    kw = {}
    if not (style % 2 == 1 and fill == NAN):      # odd styles rely on the default fill_value=nan
        kw['fill_value'] = float('nan') if fill == NAN else fill
    if p == 1 and style % 4 >= 2:                  # styles 2,3 rely on the default p/d = 1
        return f(x, **kw)
    if style % 8 >= 4:                             # styles 4..7 pass the shift by keyword
        kw['d' if fn in ('diff', 'dlog') else 'p'] = p
        return f(x, **kw)
    return f(x, p, **kw)


def run_ts(rec, idx, out):
    """One ts record -> executions of the named helper (float64, and int64 when the fill is an integer),
    plus dlog for diff records."""
    op, p, fill = rec['op'], rec['p'], rec['fill']
    exp = rec['out']
    variants = [('float64', idx % 8)]
    if fill != NAN:
        variants.append(('int64', (idx + 3) % 8))
    jobs = [(op, dt, st) for dt, st in variants]
    if fill != NAN:
        jobs.append((op, 'int64-big', (idx + 1) % 8))     # integers that float64 cannot hold exactly
    if op == 'diff':
        jobs.append(('dlog', 'float64', (idx + 5) % 8))
        jobs.append(('dlog', 'float64-signed', (idx + 6) % 8))
    for fn, dt, style in jobs:
        out['n'] += 1
        if fn == 'dlog' and dt == 'float64-signed':
            # negative, zero and positive elements: dlog is *defined* as diff(log x, d), so it is NaN wherever log x is
            x = real_array(rec['x'], float) - 1.0
            x[1::3] = -x[1::3] - 2.0
        elif fn == 'dlog':
            x = real_array(rec['x'], float) + 1.0     # strictly positive, exactly representable
        elif dt == 'int64-big':
            x = real_array(rec['x'], np.dtype('int64')) + BIG
        else:
            x = real_array(rec['x'], np.dtype(dt))
        before = x.tobytes()
        before_meta = (x.shape, x.dtype, x.flags.writeable)
        with warnings.catch_warnings():
            warnings.simplefilter('ignore')
            try:
                r = call_helper(fn, x, p, fill, style)
                exc = None
            except Exception as e:  # compared with the spec's outcome below, never swallowed
                r, exc = None, e
        problems = []
        if x.tobytes() != before or (x.shape, x.dtype, x.flags.writeable) != before_meta:
            problems.append(('input-modified', 'input array differs after the call'))
        if builtins_changed():
            problems.append(('builtins-changed', 'fsic.functions.builtins differs after the call'))
        if rec['open']:
            # diff with d < 0: outside the property; any exception or any array of the input's length
            if exc is None and not (isinstance(r, np.ndarray) and r.shape == x.shape):
                problems.append(('length', 'unconstrained case returned something that is not an array of the input length'))
        elif exc is not None:
            problems.append((f'exception-{type(exc).__name__}', f'raised {type(exc).__name__}: {exc}'))
        elif not isinstance(r, np.ndarray) or r.ndim != 1:
            problems.append(('type', f'result is not a 1-D array: {show(r)}'))
        elif r.shape != (len(rec['x']),):
            problems.append(('length', f'result length {r.shape} != input length {len(rec["x"])}'))
        elif fn == 'dlog':
            with np.errstate(all='ignore'):
                lx = np.log(x)
            fp = set(rec['fp'])
            bad = []
            for i in range(len(lx)):
                if i in fp:
                    ok = same_values(r[i], real(fill))
                else:
                    with np.errstate(all='ignore'):
                        ref = lx[i] - lx[i - p]
                    if not np.isfinite(ref):
                        ok = same_values(r[i], ref)
                    else:
                        ok = bool(np.isfinite(r[i]) and abs(r[i] - ref) <= 4 * np.spacing(max(abs(ref), abs(lx[i]), abs(lx[i - p]))))
                if not ok:
                    bad.append(i)
            if bad:
                problems.append(('value', f'dlog differs at positions {bad}'))
        elif dt == 'int64-big':
            want = [int(v) if (i in set(rec['fp']) or fn == 'diff') else int(v) + BIG for i, v in enumerate(exp['v'])]
            got = [int(v) if float(v) == int(v) else v for v in np.asarray(r).tolist()]
            if got != want:
                problems.append(('value', f'values differ from the specification on integers beyond 2**53: {got} vs {want}'))
        else:
            if not same_values(r, real_array(exp['v'])):
                problems.append(('value', 'values differ from the specification'))
        for what, text in problems:
            key = ts_key(fn, rec, what, dt)
            add_mismatch(out, key, rec, {'fn': fn, 'dtype': dt, 'style': style},
                         {'what': what, 'text': text, 'result': show(exc if exc is not None else r)},
                         repro_ts(fn, rec, dt, style))


def repro_ts(fn, rec, dt, style):
    fill = 'np.nan' if rec['fill'] == NAN else repr(rec['fill'])
    xs = [v + 1 for v in rec['x']] if fn == 'dlog' else rec['x']
    return (f"import numpy as np, fsic.functions as F\nx = np.array({xs}, dtype='{'float64' if fn == 'dlog' else dt}')\n"
            f"print(F.{fn}(x, {rec['p']}, fill_value={fill}))  # specification: {rec['out']['v']} (100 = NaN"
            f"{'; dlog: log-differences of x, fill at ' + str(rec['fp']) if fn == 'dlog' else ''})")


# ---------------------------------------------------------------------------
# ev records: VectorContainer.eval

_span_cache = {}


def ascending_consecutive(ids):
    return all(b == a + 1 for a, b in zip(ids, ids[1:]))


def kinds_for(ids):
    return KINDS if ascending_consecutive(ids) else ['liststr', 'ndarray', 'pdindex']


def label_text(kind, i):
    if kind in ('range', 'period'):
        return str(1990 + i)
    if kind == 'liststr':
        return f'p {i} Q'          # labels with inner blanks
    return str(2000 + 5 * (i - 10))     # ndarray, pdindex: non-consecutive integer labels


def make_span(kind, ids):
    key = (kind, tuple(ids))
    if key not in _span_cache:
        import pandas as pd
        if kind == 'range':
            span = range(1990 + ids[0], 1990 + ids[-1] + 1)     # non-zero origin
        elif kind == 'liststr':
            span = [f'p {i} Q' for i in ids]
        elif kind == 'ndarray':
            span = np.array([2000 + 5 * (i - 10) for i in ids])
        elif kind == 'pdindex':
            span = pd.Index([2000 + 5 * (i - 10) for i in ids])
        elif kind == 'period':
            span = pd.period_range(start=str(1990 + ids[0]), periods=len(ids), freq='Y')
        else:
            raise ValueError(kind)
        _span_cache[key] = (span, span_print(span))
    return _span_cache[key][0]


def spans_intact():
    return all(span_print(span) == fp for span, fp in _span_cache.values())


def span_print(span):
    return (type(span).__name__, len(span), repr(list(span)))


def render(e, kind, names, style):
    """Spec tree -> expression text.  Binary operands that are themselves binary are parenthesised, as is
    a binary operand of a subscript, so the text parses back to exactly the tree (checked by `roundtrip`)."""
    t = e[0]
    sp = ' ' if style == 1 else ''

    def comp(v):
        return '' if v == NONE else str(v)

    def lab(v):
        return '' if v == NONE else '`' + label_text(kind, v) + '`'

    def operand(c):
        s = render(c, kind, names, style)
        return f'({s})' if c[0] == 'bin' else s

    if t == 'var':
        return names.get(e[1], e[1])
    if t == 'call':
        arg = render(e[2], kind, names, style)
        if e[3] == 1 and style == 2:
            return f'{e[1]}({arg})'
        return f'{e[1]}({arg}, {e[3]})'
    if t == 'pidx':
        return f'{operand(e[1])}[{sp}{e[2]}{sp}]'
    if t == 'lidx':
        return f'{operand(e[1])}[{sp}{lab(e[2])}{sp}]'
    if t in ('psl', 'lsl'):
        f = comp if t == 'psl' else lab
        body = f'{f(e[2])}{sp}:{sp}{f(e[3])}'
        if e[4] != NONE:
            body += f'{sp}:{sp}{e[4]}'
        return f'{operand(e[1])}[{sp}{body}{sp}]'
    if t == 'bin':
        return f'{operand(e[2])} {e[1]} {operand(e[3])}'
    raise ValueError(t)


def roundtrip(text, kind, names):
    """Parse the rendered text with Python's own parser (labels spelled as identifiers) back into a spec tree."""
    inv = {v: k for k, v in names.items()}
    labels = {}

    def sub(m):
        labels[f'L_{len(labels)}'] = m
        return f'L_{len(labels) - 1}'

    import re
    src = re.sub(r'`([^`]*)`', lambda m: sub(m.group(1)), text)

    def lab_id(name):
        txt = labels[name]
        for i in range(10, 30):
            if label_text(kind, i) == txt:
                return i
        raise ValueError(txt)

    def const(n):
        if n is None:
            return NONE
        if isinstance(n, ast.UnaryOp) and isinstance(n.op, ast.USub):
            return -const(n.operand)
        if isinstance(n, ast.Constant):
            return n.value
        raise ValueError(ast.dump(n))

    def islab(n):
        return isinstance(n, ast.Name) and n.id in labels

    def go(n):
        if isinstance(n, ast.Name):
            return ['var', inv.get(n.id, n.id)]
        if isinstance(n, ast.Call):
            p = const(n.args[1]) if len(n.args) > 1 else 1
            return ['call', n.func.id, go(n.args[0]), p]
        if isinstance(n, ast.BinOp):
            op = {ast.Add: '+', ast.Sub: '-', ast.Mult: '*'}[type(n.op)]
            return ['bin', op, go(n.left), go(n.right)]
        if isinstance(n, ast.Subscript):
            s = n.slice
            if isinstance(s, ast.Slice):
                if islab(s.lower) or islab(s.upper):
                    return ['lsl', go(n.value), lab_id(s.lower.id) if s.lower is not None else NONE,
                            lab_id(s.upper.id) if s.upper is not None else NONE, const(s.step)]
                return ['psl', go(n.value), const(s.lower), const(s.upper), const(s.step)]
            if islab(s):
                return ['lidx', go(n.value), lab_id(s.id)]
            return ['pidx', go(n.value), const(s)]
        raise ValueError(ast.dump(n))

    return go(ast.parse(src, mode='eval').body)


def features(e, acc=None):
    acc = acc if acc is not None else {'nodes': set(), 'backtick': False, 'psl_stop': False, 'lsl_stop': False, 'diff0': False, 'ops': 0}
    t = e[0]
    if t == 'var':
        return acc
    acc['nodes'].add(t)
    acc['ops'] += 1
    if t == 'call':
        if e[1] == 'diff' and e[3] == 0:
            acc['diff0'] = True
        features(e[2], acc)
    elif t == 'bin':
        features(e[2], acc)
        features(e[3], acc)
    else:
        if t in ('lidx', 'lsl'):
            acc['backtick'] = True
        if t == 'psl' and e[3] != NONE:
            acc['psl_stop'] = True
        if t == 'lsl' and e[3] != NONE:
            acc['lsl_stop'] = True
        features(e[1], acc)
    return acc


PURITY = ('container-changed', 'builtins-changed', 'locals-changed', 'span-changed')


def ev_key(rec, kind, what, feats):
    if what in PURITY:
        return f'eval-{what}'
    if what == 'undefined-name-not-mentioned':
        return f"eval-undefined-name-not-mentioned-{rec['scen']}"
    # features of the case that are known ways for the code to deviate; a case showing exactly one of them
    # gets that feature's key, a case showing several gets a key naming the combination
    suspects = []
    if feats['backtick'] and feats['psl_stop']:
        suspects.append(('eval-positional-slice-shifted-when-backtick-present', 'posslice-backtick'))
    if feats['diff0']:
        suspects.append(('diff-d0-returns-input-instead-of-zero-differences', 'diff-d0'))
    if len(suspects) == 1:
        return suspects[0][0]
    if suspects:
        return 'eval-combined-' + '+'.join(t for _, t in suspects)
    return f"eval-{rec['scen']}-{kind}-{'+'.join(sorted(feats['nodes'])) or 'name'}-{what}"


def project(c):
    """Everything observable about the container: index, every series (identity, dtype, bytes), the attribute
    list, strictness, the span object, and the raw instance dictionary's keys."""
    d = c.__dict__
    return {
        'index': list(d['index']),
        'series': {n: (id(d['_' + n]), d['_' + n].dtype, d['_' + n].shape, d['_' + n].tobytes()) for n in d['index']},
        'attributes': list(d['_attributes']),
        'strict': d['_strict'],
        'span': (id(d['span']), len(d['span'])),   # contents: see spans_intact()
        'keys': sorted(d.keys()),
    }


def run_ev(rec, idx, out, kinds):
    global _BUILTINS_0
    expr = rec['expr']
    ids = rec['span']
    feats = features(expr)
    exp = rec['out']
    vars_ = rec['vars'] if isinstance(rec['vars'], dict) else {}
    locs = rec['locs'] if isinstance(rec['locs'], dict) else {}
    use = kinds_for(ids)
    if not feats['backtick']:
        # without a backtick eval never consults the span: two span types per record, rotating
        use = [use[idx % len(use)], use[(idx + 1 + idx // len(use) % (len(use) - 1)) % len(use)]]
    use = [k for k in use if kinds is None or k in kinds]
    for j, kind in enumerate(use):
        names = NAME_MAPS[(idx + j) % len(NAME_MAPS)]
        style = (idx + j) % 3
        text = render(expr, kind, names, style)
        if j == idx % len(use):
            back = roundtrip(text, kind, names)
            if back != expr:
                raise AssertionError(f'renderer does not reproduce the specification tree: {expr} -> {text!r} -> {back}')
        span = make_span(kind, ids)
        c = VectorContainer(span)
        for n in sorted(vars_):
            c.add_variable(names.get(n, n), real_array(vars_[n]))
        loc = {}
        for n in sorted(locs):
            b = locs[n]
            loc[names.get(n, n)] = real_array(b['v']) if b['k'] == 'vec' else real(b['v'][0])
        loc_before = {k: (id(v), v.tobytes() if isinstance(v, np.ndarray) else v) for k, v in loc.items()}
        before = project(c)
        out['n'] += 1
        with warnings.catch_warnings(record=True):
            try:
                r = c.eval(text, locals=loc) if (loc or idx % 2) else c.eval(text)
                exc = None
            except Exception as e:  # compared with the specification's outcome below
                r, exc = None, e
        problems = []
        if project(c) != before:
            problems.append(('container-changed', 'container projection differs after eval'))
        if out['n'] % 64 == 0 and not spans_intact():
            problems.append(('span-changed', 'a span object differs after eval'))
        if builtins_changed():
            problems.append(('builtins-changed', f'fsic.functions.builtins differs after eval: {list(fsic.functions.builtins.keys())}'))
        if {k: (id(v), v.tobytes() if isinstance(v, np.ndarray) else v) for k, v in loc.items()} != loc_before:
            problems.append(('locals-changed', "caller's locals differ after eval"))
        if exp['k'] == 'err':
            if exc is None:
                problems.append((f"value-instead-of-{exp['e']}", f"returned {show(r)} where {exp['e']} is expected"))
            elif type(exc).__name__ != exp['e']:
                problems.append((f"exception-{type(exc).__name__}-instead-of-{exp['e']}", f'raised {type(exc).__name__}: {exc}'))
            elif exp['e'] == 'AttributeError' and f"'{names.get(exp['nm'], exp['nm'])}'" not in str(exc):
                problems.append(('undefined-name-not-mentioned', f'message does not name the undefined name: {exc}'))
        elif exc is not None:
            problems.append((f'exception-{type(exc).__name__}-instead-of-value', f'raised {type(exc).__name__}: {exc}'))
        elif exp['k'] == 'vec':
            want = real_array(exp['v'])
            if not isinstance(r, np.ndarray) or r.ndim != 1:
                problems.append(('shape', f'expected a 1-D array of length {len(want)}, got {show(r)}'))
            elif r.shape != want.shape:
                problems.append(('shape', f'expected length {len(want)}, got {r.shape}'))
            elif not same_values(r, want):
                problems.append(('value', 'values differ from the specification'))
        elif exp['k'] == 'sc':
            if np.ndim(r) != 0 or isinstance(r, (list, tuple)):
                problems.append(('shape', f'expected a scalar, got {show(r)}'))
            elif not same_values(r, real(exp['v'][0])):
                problems.append(('value', 'values differ from the specification'))
        else:
            raise AssertionError(f"unexpected outcome kind in record: {exp['k']}")
        for what, text_ in problems:
            key = ev_key(rec, kind, what, feats)
            add_mismatch(out, key, rec, {'span_kind': kind, 'expression': text, 'style': style, 'names': names},
                         {'what': what, 'text': text_, 'result': show(exc if exc is not None else r)},
                         repro_ev(rec, kind, names, text, loc))
        if builtins_changed():
            # keep later cases meaningful: report once per case, then put the table back
            fsic.functions.builtins.clear()
            fsic.functions.builtins.update(_BUILTINS_FUNCS)
            _BUILTINS_0 = builtins_state()
    return feats


def repro_ev(rec, kind, names, text, loc):
    span = {'range': 'range({a}, {b})', 'liststr': '{l}', 'ndarray': 'np.array({l})', 'pdindex': 'pd.Index({l})',
            'period': "pd.period_range(start='{a}', periods={n}, freq='Y')"}[kind]
    ids = rec['span']
    labs = [label_text(kind, i) for i in ids]
    l = labs if kind == 'liststr' else [int(x) for x in labs]
    span = span.format(a=labs[0], b=int(labs[-1]) + 1 if kind in ('range', 'period') else 0, l=l, n=len(ids))
    lines = ['import numpy as np, pandas as pd', 'from fsic.core.containers import VectorContainer', f'c = VectorContainer({span})']
    vars_ = rec['vars'] if isinstance(rec['vars'], dict) else {}
    for n in sorted(vars_):
        vals = ['np.nan' if v == NAN else float(v) for v in vars_[n]]
        lines.append(f"c.add_variable({names.get(n, n)!r}, np.array({vals}))".replace("'np.nan'", 'np.nan'))
    larg = ''
    if loc:
        larg = ', locals={' + ', '.join(f'{k!r}: ' + (f'np.array({v.tolist()})' if isinstance(v, np.ndarray) else repr(v)) for k, v in loc.items()) + '}'
    exp = rec['out']
    want = exp['e'] + (f" naming {exp['nm']}" if exp['nm'] else '') if exp['k'] == 'err' else f"{exp['k']} {exp['v']} (100 = NaN)"
    lines.append(f"print(repr(c.eval({text!r}{larg})))  # specification: {want}")
    return '\n'.join(lines)


# ---------------------------------------------------------------------------


def add_mismatch(out, key, rec, variant, observed, repro):
    n = out['keys'].get(key, 0)
    out['keys'][key] = n + 1
    if n < 2:
        out['mismatches'].append({'key': key, 'record': rec, 'variant': variant, 'observed': observed,
                                  'expected': rec['out'], 'repro': repro})


def nontrivial(rec):
    if rec['kind'] == 'ts':
        return bool(rec['x']) and rec['p'] != 0 and not rec['open']
    return rec['expr'][0] != 'var'


def main():
    payload = json.load(open(sys.argv[1]))
    out = {'n': 0, 'nontrivial': 0, 'distinct': 0, 'mismatches': [], 'keys': {}, 'by_kind': {}}
    seen = set()
    seed = payload.get('seed', 0)
    for idx, rec in enumerate(payload['records']):
        sig = json.dumps(rec, sort_keys=True)
        if sig not in seen:
            seen.add(sig)
            if nontrivial(rec):
                out['nontrivial'] += 1
        if rec['kind'] == 'ts':
            run_ts(rec, idx + seed, out)
            out['by_kind']['ts'] = out['by_kind'].get('ts', 0) + 1
        else:
            f = run_ev(rec, idx + seed, out, payload.get('kinds'))
            tag = 'ev-backtick' if f['backtick'] else 'ev-positional'
            out['by_kind'][tag] = out['by_kind'].get(tag, 0) + 1
    out['distinct'] = len(seen)
    if not spans_intact():
        raise AssertionError('a span object shared between containers was modified during the run')
    print(json.dumps(out, default=str))


if __name__ == '__main__':
    main()
