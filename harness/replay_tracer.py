"""spec -> code for Tracer.tla: each behaviour is run on a TracerMixin model (traced) and on a
plain twin (untraced); all solution observables must be equal between the twins and equal to
the spec; the recorded Trace must equal the spec's segment; with tracing off nothing is written.

Worker: python -m harness.replay_tracer payload.json
"""
from __future__ import annotations

import json
import sys
import warnings

import numpy as np

from fsic.exceptions import NonConvergenceError, SolutionError

from . import replay_solver as rs


def label_of(e):
    return {'start': 'start', 'before': 'before', 'end': 'end'}.get(e['l'], e['n'])


def call(m, entry, cfg, opts, tpos, span, extra):
    label = list(span)[tpos]
    with warnings.catch_warnings():
        warnings.simplefilter('ignore')
        try:
            if entry == 'solve_t':
                r = m.solve_t(cfg['t'], **opts, **extra)
            elif entry == 'solve_period':
                r = m.solve_period(label, **opts, **extra)
            else:
                r = m.solve(start=label, end=label, **opts, **extra)
                r = r[2][0] if isinstance(r, tuple) and len(r) == 3 and len(r[2]) == 1 else repr(r)
            return {'kind': 'True' if r is True else 'False' if r is False else repr(r), 'cause': 'none'}
        except (ValueError, IndexError, SolutionError, NonConvergenceError) as e:
            return {'kind': type(e).__name__, 'cause': rs.classify_exc(e.__cause__), 'msg': str(e)[:120]}
        except Exception as e:
            return {'kind': type(e).__name__, 'cause': rs.classify_exc(e.__cause__), 'msg': str(e)[:120]}


def observables(m, tpos, nv):
    d = m.__dict__
    out = {n: d['_' + n].copy() for n in d['index'] if n != 'trace'}
    return out, {'nB': d['_v_nB'], 'nA': d['_v_nA'], 'nP': d['_v_nP']}


def run_one(rec, variant):
    cfg, fin = rec['cfg'], rec['fin']
    nv = len(cfg['c0'])
    scale = variant['scale']
    diffs = []
    traced, tpos, span = rs.build(rec, variant, tracer=True)
    plain, _, _ = rs.build(rec, variant, tracer=False)
    if variant['trace'] == 'true':
        # trace=True traces every variable of the model: include non-numeric ones added at run time
        for mm in (traced, plain):
            mm.add_variable('S', 'ab', dtype='<U2')
            mm.add_variable('B', True, dtype=bool)
    L = cfg['L']
    opts = dict(min_iter=cfg['min'], max_iter=cfg['max'], tol=rs.real_tol(cfg['tol'], scale, variant['tolmode']),
                offset=cfg['offset'], failures=cfg['failures'], errors=cfg['errors'], catch_first_error=cfg['cfe'])
    names_arg = {'true': True, 'list': ['X1', 'Z'], 'single': 'X1'}[variant['trace']]
    names = {'true': list(traced.names), 'list': ['X1', 'Z'], 'single': ['X1']}[variant['trace']]
    extra = {'trace': names_arg} if rec['tracing'] else ({'trace': False} if variant['offmode'] == 'false' else {})
    r1 = call(traced, variant['entry'], cfg, opts, tpos, span, extra)
    r2 = call(plain, variant['entry'], cfg, opts, tpos, span, {})
    o1, c1 = observables(traced, tpos, nv)
    o2, c2 = observables(plain, tpos, nv)
    obs = {'traced': r1, 'plain': r2, 'counts': c1}
    # (1) non-interference: traced vs untraced twin
    if (r1['kind'], r1['cause']) != (r2['kind'], r2['cause']):
        diffs.append('twin-res')
    if c1 != c2:
        diffs.append('twin-counts')
    for n in o2:
        if not rs.same(o1[n], o2[n]):
            diffs.append(f'twin-state:{n}')
    # (2) both equal to the specification
    if r1['kind'] != fin['res']['kind'] or r1['cause'] != fin['res']['cause']:
        diffs.append('res')
    if str(o1['status'][tpos]) != fin['st'] or int(o1['iterations'][tpos]) != fin['it']:
        diffs.append('st/it')
    if not rs.same([o1[f'X{i + 1}'][tpos] for i in range(nv)], [rs.real(v, scale) for v in fin['cells']]):
        diffs.append('cells')
    for f in ('nB', 'nA', 'nP'):
        if c1[f] != fin[f]:
            diffs.append(f)
    # (3) the trace itself
    tr = traced['trace']
    for p in range(L):
        if p != tpos and not tr[p].is_empty():
            diffs.append('trace-other-period')
    seg = rec['tr']
    T = tr[tpos]
    if not rec['tracing']:
        if not T.is_empty() or T.index != []:
            diffs.append('trace-written-when-off')
    else:
        exp_labels = [label_of(e) for e in seg]
        if variant['entry'] == 'solve' and cfg['min'] > cfg['max']:
            exp_labels = []  # solve() rejects min_iter > max_iter itself: TracerMixin.solve_t is never entered
            seg = []
        obs['labels'] = [str(x) for x in T.index]
        if list(T.index) != exp_labels:
            diffs.append('trace-labels')
        elif not exp_labels:
            pass  # nothing recorded, nothing to compare
        elif list(T.names) != names:
            diffs.append('trace-names')
        else:
            vals = np.asarray(T.values)
            if vals.shape != (len(names), len(seg)):
                diffs.append('trace-shape')
            else:
                for col, e in enumerate(seg):
                    for row, nm in enumerate(names):
                        if nm.startswith('X') and int(nm[1:]) <= nv:
                            want = rs.real(e['snap'][int(nm[1:]) - 1], scale)
                            got = float(vals[row, col])
                            if not (got == want or (np.isnan(got) and np.isnan(want))):
                                diffs.append('trace-snapshot')
                                break
                    else:
                        continue
                    break
        # repeated solve: a second call appends a second segment (default reset=False)
        if variant.get('repeat') and 'trace-labels' not in diffs:
            rs_model = traced
            d = rs_model.__dict__
            for i in range(nv):
                d[f'_X{i + 1}'][tpos] = rs.real(cfg['c0'][i], scale)
                src = tpos + cfg['offset']
                if cfg['offset'] != 0 and 0 <= src < L and src != tpos:
                    d[f'_X{i + 1}'][src] = rs.real(cfg['src'][i], scale)
            d['_W'][tpos] = 20.25 + tpos
            d['_status'][tpos] = cfg['st0']
            d['_iterations'][tpos] = cfg['it0']
            d['_v_nB'] = d['_v_nA'] = d['_v_nP'] = 0
            d['_v_iters'] = []
            second = names_arg if variant['repeat'] == 'same' else (['X1'] if variant['trace'] != 'single' else ['X1', 'Z'])
            r3 = call(rs_model, variant['entry'], cfg, opts, tpos, span, {'trace': second})
            obs['second'] = r3
            if (r3['kind'], r3['cause']) != (fin['res']['kind'], fin['res']['cause']):
                diffs.append('second-solve-res' if variant['repeat'] == 'same' else 'second-solve-other-names-res')
            elif variant['repeat'] == 'same' and list(rs_model['trace'][tpos].index) != exp_labels + exp_labels:
                diffs.append('second-solve-labels')
            elif variant['repeat'] == 'same' and exp_labels:
                # the tabular view of the trace is the trace: one row per snapshot (repeated labels included), one column per name
                T2 = rs_model['trace'][tpos]
                try:
                    df = T2.to_dataframe()
                    okdf = (list(df.index) == list(T2.index) and list(df.columns) == list(T2.names)
                            and df.shape == (len(T2.index), len(T2.names))
                            and all(str(a) == str(b) for a, b in zip(df.to_numpy().T.ravel().tolist(), np.asarray(T2.values).ravel().tolist())))
                except Exception as e:
                    okdf = False
                if not okdf:
                    diffs.append('trace-dataframe')
            if variant['repeat'] == 'same' and len(seg) >= 4 and not diffs and 'second' in obs:
                # a long history of one period (well over a hundred snapshots): every further solve from the same starting
                # state appends the same segment again, for every traced variable
                reps = 2
                limit = 12000 if len(seg) > 1000 else 130     # a deep behaviour is repeated until the period holds > 12 000 snapshots
                while reps * len(seg) <= limit:
                    for i in range(nv):
                        d[f'_X{i + 1}'][tpos] = rs.real(cfg['c0'][i], scale)
                        src = tpos + cfg['offset']
                        if cfg['offset'] != 0 and 0 <= src < L and src != tpos:
                            d[f'_X{i + 1}'][src] = rs.real(cfg['src'][i], scale)
                    d['_W'][tpos] = 20.25 + tpos
                    d['_status'][tpos] = cfg['st0']
                    d['_iterations'][tpos] = cfg['it0']
                    d['_v_nB'] = d['_v_nA'] = d['_v_nP'] = 0
                    d['_v_iters'] = []
                    rn = call(rs_model, variant['entry'], cfg, opts, tpos, span, {'trace': second})
                    reps += 1
                    if (rn['kind'], rn['cause']) != (fin['res']['kind'], fin['res']['cause']):
                        diffs.append('repeated-solve-res')
                        break
                Tn = rs_model['trace'][tpos]
                if not diffs:
                    if list(Tn.index) != exp_labels * reps:
                        diffs.append('long-trace-labels')
                    else:
                        vals = np.asarray(Tn.values)
                        if vals.shape != (len(names), len(seg) * reps):
                            diffs.append('long-trace-shape')
                        else:
                            first = vals[:, :len(seg)]
                            for r_ in range(1, reps):
                                blk = vals[:, r_ * len(seg):(r_ + 1) * len(seg)]
                                try:
                                    eq = np.all((blk == first) | ((blk != blk) & (first != first)))
                                except Exception:
                                    eq = np.array_equal(blk, first)
                                if not eq:
                                    diffs.append('long-trace-snapshots')
                                    break
    return diffs, obs


def key_of(rec, variant, diffs, obs):
    d = '+'.join(sorted(set(x.split(':')[0] for x in diffs)))
    if diffs == ['second-solve-other-names-res']:
        return f"tracer second traced solve with a different-length name list: {obs['second']['kind']}"
    return (f"tracer[{variant['entry']} trace={variant['trace']}] {d} spec={rec['fin']['res']['kind']}/{rec['fin']['st']} "
            f"traced={obs['traced']['kind']} plain={obs['plain']['kind']}")


def main():
    payload = json.load(open(sys.argv[1]))
    variants = payload['variants']
    out = {'n': 0, 'nontrivial': 0, 'distinct': 0, 'mismatches': [], 'keys': {}}
    for idx, rec in enumerate(payload['records']):
        out['distinct'] += 1
        if rec['hist'] and rec['tracing']:
            out['nontrivial'] += 1
        vs = variants if payload.get('all_variants') else [variants[(idx + payload.get('seed', 0)) % len(variants)]]
        for v in vs:
            out['n'] += 1
            diffs, obs = run_one(rec, v)
            if diffs:
                key = key_of(rec, v, diffs, obs)
                c = out['keys'].get(key, 0)
                out['keys'][key] = c + 1
                if c < 2:
                    out['mismatches'].append({'key': key, 'record': rec, 'variant': v, 'diffs': diffs, 'observed': obs})
    print(json.dumps(out, default=str))


if __name__ == '__main__':
    main()
