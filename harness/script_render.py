"""Rendering of Script.tla programs (postfix token records) to fsic model-script text under
a layout and a name map, plus the inverse used to cross-check the renderer (Python `ast`
of the plain rendering must reproduce the spec tree).

Tree nodes: ('var', kind, name_id, idx) ('num', lit) ('neg', a) ('paren', a) ('bin', op, a, b)
            ('cmp', op, a, b) ('call', f, (args...)) ('cond', a, c, b)
"""
from __future__ import annotations

import ast
import random
from typing import Any, Dict, List, Sequence, Tuple

NAMED = 1000

NAME_MAPS: Dict[str, List[str]] = {
    'plain': ['A', 'B', 'C', 'D', 'E5', 'F', 'G', 'H', 'X1', 'X10', 'X100', 'Y', 'Ya', 'Z', 'Zz', 'W'],
    'adversarial': ['is_open', '_x', 'not_X', '_', '__x', 'e', 'X_if_Y', 'x_t', 'T', 'andy', 'or_', 'In', 'lambda1', 'e1', 'E', 'pass_'],
    'adversarial2': ['t', 'self_', 'Pin', 'or_1', '_x9_', 'lambda_', 'tt', 't1', 'self', 'np_', 'exp_', 'logX', 'maxi', 'Min', 'x', 'X'],
    'funcnames': ['exp', 'max', 'log', 'min', 'abs', 'np', 'sqrt', 'sum', 'print', 'float', 'int', 'len', 'all', 'any', 'round', 'pow'],
    # names the model objects use themselves (they build and solve as variables)
    # (lags, leads, check, endogenous, dtype, engine - like status and iterations - are reserved: the constructor itself adds them)
    'attrnames': ['index', 'size', 'values', 'copy', 'span', 'names', 'eval', 'nbytes', 'strict', 'solve', 'solve_t', 'iter_periods', 'to_dataframe',
                  'replace_values', 'add_variable', 'exec'],
    'vnames': [f'V{i}' for i in range(1, 61)],
    'long': ['Household_consumption_total_real', 'gross_domestic_product_2', 'k', 'V_1_2_3', 'Z' * 30, 'q_', 'a' * 40, 'b1_' * 10,
             'Cc', 'Dd', 'Ee', 'Ff', 'Gg', 'Hh', 'Ii', 'Jj'],
}


def to_tree(postfix: Sequence[Dict[str, Any]]):
    st: List[Any] = []
    for tk in postfix:
        t = tk['t']
        if t == 'var':
            st.append(('var', tk['s'], tk['n'], tk['k']))
        elif t == 'num':
            st.append(('num', tk['s']))
        elif t == 'verb':
            st.append(('verb', tk['s']))
        elif t in ('neg', 'paren', 'not'):
            st.append((t, st.pop()))
        elif t in ('bin', 'cmp', 'bool'):
            b = st.pop()
            a = st.pop()
            st.append((t, tk['s'], a, b))
        elif t == 'call':
            args = [st.pop() for _ in range(tk['n'])][::-1]
            st.append(('call', tk['s'], tuple(args)))
        elif t == 'cond':
            b = st.pop()
            c = st.pop()
            a = st.pop()
            st.append(('cond', a, c, b))
        else:
            raise ValueError(t)
    assert len(st) == 1, postfix
    return st[0]


def strip_parens(tree):
    k = tree[0]
    if k == 'paren':
        return strip_parens(tree[1])
    if k in ('var', 'num', 'verb'):
        return tree
    if k in ('neg', 'not'):
        return (k, strip_parens(tree[1]))
    if k in ('bin', 'cmp', 'bool'):
        return (k, tree[1], strip_parens(tree[2]), strip_parens(tree[3]))
    if k == 'call':
        return ('call', tree[1], tuple(strip_parens(a) for a in tree[2]))
    if k == 'cond':
        return ('cond', strip_parens(tree[1]), strip_parens(tree[2]), strip_parens(tree[3]))
    raise ValueError(k)


# -- lexical tokens -----------------------------------------------------------
# A lexical token is (text, cls); cls drives where a layout may put whitespace.

# python precedence: conditional < or < and < not < comparison < + - < * / < unary - < **
PREC = {'cond': 1, 'or': 1.2, 'and': 1.4, 'not': 1.6, 'cmp': 2, '+': 3, '-': 3, '*': 4, '/': 4, 'neg': 5, '**': 6}


def term_tokens(kind, name, idx, opts):
    toks = []
    if kind == 'p':
        toks += [('{', 'lbrace'), (name, 'name'), ('}', 'rbrace')]
    elif kind == 'e':
        toks += [('<', 'langle'), (name, 'name'), ('>', 'rangle')]
    else:
        toks += [(name, 'name')]
    if idx == NAMED:
        lab = opts.get('named', '`2000`')
        toks += [('[', 'lbrack'), (lab, 'label'), (']', 'rbrack')]
    elif idx != 0 or opts.get('explicit0'):
        toks.append(('[', 'lbrack'))
        if idx < 0:
            toks += [('-', 'sign'), (str(-idx), 'digits')]
        elif idx > 0 and opts.get('plus'):
            toks += [('+', 'sign'), (str(idx), 'digits')]
        else:
            toks.append((str(idx), 'digits'))
        toks.append((']', 'rbrack'))
    return toks


def expr_tokens(tree, names, opts, minprec=0):
    k = tree[0]
    if k == 'var':
        return term_tokens(tree[1], names[tree[2] - 1], tree[3], opts)
    if k == 'num':
        return [(tree[1], 'num')]
    if k == 'verb':
        return [('`' + tree[1] + '`', 'verb')]   # one lexical token: layouts never touch its inside
    if k == 'paren':
        return [('(', 'lpar')] + expr_tokens(tree[1], names, opts, 0) + [(')', 'rpar')]
    if k == 'call':
        out = [(tree[1], 'func'), ('(', 'lcall')]
        for i, a in enumerate(tree[2]):
            if i:
                out.append((',', 'comma'))
            out += expr_tokens(a, names, opts, 0)
        return out + [(')', 'rpar')]
    if k == 'neg':
        p = PREC['neg']
        inner = [('-', 'unary')] + expr_tokens(tree[1], names, opts, p)
    elif k == 'bin':
        op = tree[1]
        p = PREC[op]
        if op == '**':
            inner = expr_tokens(tree[2], names, opts, 7) + [(op, 'op')] + expr_tokens(tree[3], names, opts, 5)
        else:
            inner = expr_tokens(tree[2], names, opts, p) + [(op, 'op')] + expr_tokens(tree[3], names, opts, p + 1)
    elif k == 'bool':
        p = PREC[tree[1]]
        inner = expr_tokens(tree[2], names, opts, p) + [(tree[1], 'kw')] + expr_tokens(tree[3], names, opts, p + 0.1)
    elif k == 'not':
        p = PREC['not']
        inner = [('not', 'kw')] + expr_tokens(tree[1], names, opts, p)
    elif k == 'cmp':
        p = PREC['cmp']
        inner = expr_tokens(tree[2], names, opts, 3) + [(tree[1], 'op')] + expr_tokens(tree[3], names, opts, 3)
    elif k == 'cond':
        p = PREC['cond']
        inner = (expr_tokens(tree[1], names, opts, 1.2) + [('if', 'kw')] + expr_tokens(tree[2], names, opts, 1.2)
                 + [('else', 'kw')] + expr_tokens(tree[3], names, opts, 1.2))
    else:
        raise ValueError(k)
    if p < minprec or opts.get('fullparens'):
        return [('(', 'lpar')] + inner + [(')', 'rpar')]
    return inner


LAYOUTS = ['canon', 'compact', 'wide', 'tabs', 'comments', 'multiline', 'explicit0', 'plus', 'fullparens',
           'space_before_bracket', 'space_after_sign', 'crlf']
# layouts under which fsic is documented / expected to behave identically (C14 catalogue)
C14_LAYOUTS = ['canon', 'compact', 'wide', 'tabs', 'comments', 'multiline', 'explicit0', 'plus', 'fullparens',
               'space_before_bracket', 'space_after_sign', 'crlf']


def join(tokens: List[Tuple[str, str]], layout: str, rng: random.Random) -> str:
    out = ''
    prev = None
    for text, cls in tokens:
        gap = ''
        if prev is not None:
            pt, pc = prev
            inside_term = pc in ('lbrace', 'langle', 'lbrack', 'sign') or cls in ('rbrace', 'rangle', 'rbrack')
            tight = (pc in ('lpar', 'lcall', 'unary', 'func') or cls in ('rpar', 'comma', 'lcall')
                     or (cls == 'lbrack') or inside_term)
            if pc == 'kw' or cls == 'kw':
                gap = ' '
            elif layout in ('canon', 'comments', 'multiline', 'explicit0', 'plus', 'fullparens', 'crlf'):
                gap = '' if tight else ' '
                if pc == 'comma':
                    gap = ' '
            elif layout == 'compact':
                gap = ''
                if pc == 'op' and cls == 'unary' and pt in ('-', '+'):  # a - -b must not become a--b? (valid, but keep readable)
                    gap = ' '
            elif layout == 'wide':
                if cls == 'lbrack' or pc == 'func' or pc == 'sign' or cls == 'lcall':
                    gap = ''
                elif inside_term:
                    gap = ' '
                else:
                    gap = '  '
            elif layout == 'tabs':
                gap = '' if tight else '\t'
                if pc == 'comma':
                    gap = '\t'
            elif layout == 'space_before_bracket':
                gap = ' ' if cls == 'lbrack' else ('' if tight else ' ')
            elif layout == 'space_after_sign':
                gap = ' ' if pc == 'sign' else ('' if tight else ' ')
            else:
                raise ValueError(layout)
        out += gap + text
        prev = (text, cls)
    return out


def render_statement(stmt, names, layout, rng):
    opts = {'explicit0': layout == 'explicit0', 'plus': layout == 'plus', 'fullparens': layout == 'fullparens',
            'named': '`2000`'}
    lhs = stmt['lhs']
    tree = to_tree(stmt['rhs'])
    ltoks = term_tokens(lhs['s'], names[lhs['n'] - 1], lhs['k'], opts)
    rtoks = expr_tokens(tree, names, opts, 0)
    eq = ('=', 'op')
    if layout == 'multiline':
        # parenthesise the right-hand side and break the line after every top-level token boundary that is an operator
        text_l = join(ltoks + [eq], 'canon', rng)
        parts, cur, depth = [], [], 0
        for tk in rtoks:
            cur.append(tk)
            if tk[1] in ('lpar', 'lcall'):
                depth += 1
            elif tk[1] == 'rpar':
                depth -= 1
            elif tk[1] == 'op' and depth == 0:
                parts.append(cur)
                cur = []
        parts.append(cur)
        return text_l + ' (' + '\n        '.join(join(p, 'canon', rng) for p in parts) + ')'
    return join(ltoks + [eq] + rtoks, layout, rng)


def verbatim_code(j, form):
    """Python text of the j-th verbatim statement: it reports its own execution if the model offers `vmark`.
    line: one backticked assignment; fence: a fenced block whose report sits in an assert (its truth is the call's side
    effect, so a build route that strips asserts loses it); same: the same text whichever statement it is."""
    call = f"getattr(self, 'vmark', int)({j})"
    if form == 'same':
        return "_v = getattr(self, 'vmark', int)(0)"
    return f'_v = {call}' if form == 'line' else f'if True:\n    assert {call} in (None, {j})'


def verbatim_text(j, form):
    return f'```\n{verbatim_code(j, form)}\n```' if form == 'fence' else f'`{verbatim_code(j, form)}`'


def program_items(stmts, verbat=()):
    """Script order: ('eq', index) and ('verb', number) items (a verbatim statement follows `after` equations)."""
    items = []
    vs = list(enumerate(verbat or (), start=1))
    for k in range(len(stmts) + 1):
        items += [('verb', j) for j, v in vs if v['after'] == k]
        if k < len(stmts):
            items.append(('eq', k))
    return items


def render_program(stmts, names, layout='canon', seed=0, order=None, verbat=()):
    rng = random.Random(seed)
    lines = []
    items = program_items(stmts, verbat)
    if order is not None:
        items = [('eq', i) for i in order] if not verbat else [items[i] for i in order]
    first = True
    for kind, i in items:
        if kind == 'verb':      # verbatim statements are written as they are under every layout
            if layout == 'comments':
                lines += ['# a verbatim statement follows (', '']
            lines.append(verbatim_text(i, verbat[i - 1]['form']))
            if layout in ('comments', 'wide'):
                lines.append('')
            continue
        text = render_statement(stmts[i], names, layout, rng)
        if layout == 'comments':
            if first:
                lines.append('# 1) leading comment = with an equals sign and an unmatched bracket')
                lines.append('')
            head, *rest = text.split('\n')
            text = '\n'.join([head + '  # (trailing comment with a `backtick`: ' + names[0] + ' = 1'] + rest)
            lines.append(text)
            lines.append('')
            lines.append('   ')
            lines.append('# ` (a lone backtick)')
        else:
            lines.append(text)
        first = False
    if layout == 'crlf':      # Windows line endings
        return '\r\n'.join(lines) + '\r\n'
    return '\n'.join(lines)


# -- inverse: Python ast of a plain rendering -> tree (renderer cross-check and code/equation comparison) ----


def ast_to_tree(node, leaf):
    """leaf(node) -> tree for a Name / Subscript / Attribute chain that denotes a term, or None."""
    lf = leaf(node)
    if lf is not None:
        return lf
    if isinstance(node, ast.Constant):
        return ('numv', node.value)
    if isinstance(node, ast.UnaryOp) and isinstance(node.op, ast.USub):
        return ('neg', ast_to_tree(node.operand, leaf))
    if isinstance(node, ast.BinOp):
        op = {ast.Add: '+', ast.Sub: '-', ast.Mult: '*', ast.Div: '/', ast.Pow: '**'}[type(node.op)]
        return ('bin', op, ast_to_tree(node.left, leaf), ast_to_tree(node.right, leaf))
    if isinstance(node, ast.BoolOp):
        op = 'and' if isinstance(node.op, ast.And) else 'or'
        acc = ast_to_tree(node.values[0], leaf)   # Python flattens a and b and c: fold to the left-nested tree
        for v in node.values[1:]:
            acc = ('bool', op, acc, ast_to_tree(v, leaf))
        return acc
    if isinstance(node, ast.UnaryOp) and isinstance(node.op, ast.Not):
        return ('not', ast_to_tree(node.operand, leaf))
    if isinstance(node, ast.Compare):
        if len(node.ops) != 1:
            raise ValueError('chained comparison')
        op = {ast.Lt: '<', ast.LtE: '<=', ast.Gt: '>', ast.GtE: '>=', ast.Eq: '==', ast.NotEq: '!='}[type(node.ops[0])]
        return ('cmp', op, ast_to_tree(node.left, leaf), ast_to_tree(node.comparators[0], leaf))
    if isinstance(node, ast.Call):
        return ('call', ast.unparse(node.func), tuple(ast_to_tree(a, leaf) for a in node.args))
    if isinstance(node, ast.IfExp):
        return ('cond', ast_to_tree(node.body, leaf), ast_to_tree(node.test, leaf), ast_to_tree(node.orelse, leaf))
    raise ValueError(f'unsupported ast node {ast.dump(node)}')


def num_value(lit: str):
    return ast.literal_eval(lit)


def normalise_nums(tree):
    """Spec tree with literal strings replaced by their Python values (for comparison with ast trees)."""
    k = tree[0]
    if k == 'num':
        return ('numv', num_value(tree[1]))
    if k == 'verb':
        return ('numv', eval(tree[1]))      # the fragments used are constant expressions
    if k == 'var':
        return tree
    if k in ('neg', 'paren', 'not'):
        return (k, normalise_nums(tree[1]))
    if k in ('bin', 'cmp', 'bool'):
        return (k, tree[1], normalise_nums(tree[2]), normalise_nums(tree[3]))
    if k == 'call':
        return ('call', tree[1], tuple(normalise_nums(a) for a in tree[2]))
    if k == 'cond':
        return ('cond', normalise_nums(tree[1]), normalise_nums(tree[2]), normalise_nums(tree[3]))
    raise ValueError(k)
