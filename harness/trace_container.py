"""code -> spec for container operations: `c_op` events recorded by the hooks (FSIC_VERIF=1 FSIC_VERIF_OPS=1) from
the repository's tests and from random drivers, judged event by event by spec/ContainerTrace.tla."""
from __future__ import annotations

import json
import os
import subprocess
from concurrent.futures import ThreadPoolExecutor
from typing import Any, Dict, List, Sequence

from . import core

CLAUSES = {'C09': ['shape', 'kept', 'grow', 'atomic', 'strict', 'duplicate', 'unknown', 'misfit'], 'C11': ['copy'], 'C12': ['reindex']}
OPS = {'C09': None, 'C11': {'copy'}, 'C12': {'reindex'}}
BATCH = 1500


def ops_env(path: str) -> Dict[str, str]:
    env = core.worker_env(True, path)
    env['FSIC_VERIF_OPS'] = '1'
    return env


def record_suite(ctx: core.Ctx, select: Sequence[str], tag: str) -> str:
    path = str(core.subdir('rec') / f'{tag}.ndjson')
    env = ops_env(path)
    env['PYTHONPATH'] = str(core.REPO)
    cmd = [core.PY, '-m', 'pytest', '-q', '-p', 'no:cacheprovider', '--timeout=600', '-q', *select]
    p = subprocess.run(cmd, cwd=core.REPO, env=env, capture_output=True, text=True, timeout=1800)
    if p.returncode not in (0, 1):
        raise core.MachineryError(f'pytest with container hooks failed to run: rc={p.returncode}\n{p.stdout[-2000:]}{p.stderr[-2000:]}')
    ctx.extra.setdefault('trace_sources', {})[tag] = {'pytest_rc': p.returncode, 'tail': p.stdout.strip().splitlines()[-1:]}
    if not os.path.exists(path):
        raise core.MachineryError('container hooks produced no trace (are FSIC_VERIF / FSIC_VERIF_OPS wired in?)')
    return path


def record_driver(ctx: core.Ctx, payloads: List[Dict[str, Any]], tag: str) -> List[str]:
    files = [str(core.subdir('rec') / f'{tag}-{i}.ndjson') for i in range(len(payloads))]
    outs = core.run_workers('harness.drive_containers', payloads, hooks=True, trace_files=files)
    ctx.extra.setdefault('trace_sources', {})[tag] = {'runs': sum(o.get('runs', 0) for o in outs), 'ops': sum(o.get('ops', 0) for o in outs)}
    return files


def _obj(d: Dict[str, Any]) -> Dict[str, Any]:
    return {'L': int(d.get('L', -1)), 'strict': bool(d.get('strict', False)), 'attrs': [str(a) for a in d.get('attrs', [])],
            'vars': [{'n': str(v[0]), 'dt': str(v[1]), 'ndim': int(v[2]), 'len': int(v[3]), 'h': str(v[4])} for v in d.get('vars', [])]}


def read_ops(path: str, ops=None) -> List[Dict[str, Any]]:
    """Normalised event records (total: every field ContainerTrace.tla reads is present)."""
    out = []
    if not os.path.exists(path):
        return out
    for line in open(path):
        try:
            e = json.loads(line)
        except Exception:
            continue
        if e.get('ev') != 'c_op' or 'pre' not in e or 'post' not in e:
            continue
        if ops is not None and e['op'] not in ops:
            continue
        opd = e.get('opd') or {'cls': 'none', 'ndim': -1, 'len': -1}
        res = e.get('res')
        out.append({'seq': int(e['seq']), 'pid': int(e.get('pid', 0)), 'op': e['op'], 'cls': str(e.get('cls')), 'names': [str(n) for n in e.get('names', [])],
                    'opd': {'cls': str(opd.get('cls')), 'ndim': int(opd.get('ndim', -1)), 'len': int(opd.get('len', -1))},
                    'sub': bool(e.get('sub', False)), 'exc': e.get('exc') or 'none',
                    'pre': _obj(e['pre']), 'post': _obj(e['post']),
                    'hasres': res is not None, 'res': _obj(res or {}), 'rescls': str(e.get('res_cls', '')), 'resself': bool(e.get('res_is_self', False))})
    return out


def judge(events: List[Dict[str, Any]], tag: str):
    """Run ContainerTrace.tla over the events (batches in parallel); returns (bad entries with their events, TLC totals)."""
    if not events:
        return [], {'states': 0, 'generated': 0, 'wall': 0.0}
    batches = [events[i:i + BATCH] for i in range(0, len(events), BATCH)]
    cfg = 'INIT TraceInit\nNEXT TraceNext\nINVARIANT EmitInv\nCHECK_DEADLOCK FALSE\n'

    def one(i: int):
        path = core.subdir('ctrace') / f'{tag}-{i}.json'
        path.write_text(json.dumps(batches[i]))
        r = core.run_tlc('ContainerTrace', cfg, workers=1, tag=f'{tag}-{i}', env={'TRACE_FILE': str(path)}, heap='2g', timeout=1800)
        core.require_ok(r, f'ContainerTrace batch {i}')
        if len(r.records) != 1 or r.records[0]['consumed'] != len(batches[i]) or r.records[0]['of'] != len(batches[i]):
            raise core.MachineryError(f'ContainerTrace batch {i}: expected one verdict record consuming {len(batches[i])} events, got {r.records[:1]}')
        return r
    with ThreadPoolExecutor(max_workers=core.NCPU) as ex:
        results = list(ex.map(one, range(len(batches))))
    bad = []
    for i, r in enumerate(results):
        for b in r.records[0]['bad']:
            bad.append({'why': list(b['why']), 'event': batches[i][b['i'] - 1]})
    tot = {'states': sum(r.distinct for r in results), 'generated': sum(r.generated for r in results), 'wall': max(r.wall for r in results)}
    return bad, tot


def key_of(b: Dict[str, Any]) -> str:
    e = b['event']
    feats = [e['op']]
    if e['exc'] != 'none':
        feats.append('raised-' + e['exc'])
    if e['opd']['cls'] != 'none':
        feats.append(e['opd']['cls'] + ('' if e['opd']['ndim'] <= 1 else '-2d'))
    if e['pre']['strict']:
        feats.append('strict')
    return f"container-trace {'+'.join(sorted(b['why']))} {' '.join(feats)} cls={e['cls']}"


def validate(ctx: core.Ctx, files: Sequence[str], tag: str) -> None:
    clauses = set(CLAUSES[ctx.prop])
    events = []
    for f in files:
        events += read_ops(f, OPS[ctx.prop])
    if not events:
        raise core.MachineryError(f'no container operations recorded for {tag}')
    bad, tot = judge(events, f'{ctx.prop}-{tag}')
    mine = []
    for b in bad:
        why = [w for w in b['why'] if w in clauses]
        if why:
            mine.append({'why': why, 'event': b['event']})
    ctx.traces_validated += len(events) - len(mine)
    ctx.states += tot['states']
    ctx.transitions += tot['generated']
    stats = {'events': len(events), 'rejected': len(mine), 'failed_ops': sum(1 for e in events if e['exc'] != 'none'),
             'strict_ops': sum(1 for e in events if e['pre']['strict']), 'by_op': {}}
    for e in events:
        stats['by_op'][e['op']] = stats['by_op'].get(e['op'], 0) + 1
    ctx.extra.setdefault('container_traces', {})[tag] = stats
    ctx.tlc_runs.append({'what': f'ContainerTrace.tla over {len(events)} recorded container operations ({tag})', 'generated': tot['generated'],
                         'distinct': tot['states'], 'wall_s': round(tot['wall'], 2), 'constants': f'clauses {sorted(clauses)}'})
    for b in mine:
        ctx.mismatch(key_of(b), {'module': 'ContainerTrace', 'direction': 'code->spec', 'clauses': b['why'], 'event': b['event']})


def replay(data) -> int:
    bad, _ = judge([data['event']], 'replay')
    why = [w for b in bad for w in b['why'] if w in data.get('clauses', [])]
    if why:
        print(f"VIOLATION property={data['property']} replay=<given file> (recorded operation fails clause(s) {why} of ContainerTrace.tla)")
        return 1
    print('replay: recorded operation accepted')
    return 0
