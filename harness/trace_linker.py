"""code -> spec for BaseLinker.solve_t: abstraction of raw hook events into LinkerTrace.tla input."""
from __future__ import annotations

from typing import Any, Dict, List, Optional, Tuple

import numpy as np

from . import trace_solver as ts

UNKNOWN = 9
LINKER_EVENTS = {'enter', 'l_seeded', 'l_before_done', 'l_pre', 'sub_pass', 'l_post', 'l_pass', 'l_after_done', 'l_stamp', 'exit'}
LINKER_CONSTANTS = '  Vals = {}\n  LinkVals = {}'
LINKER_INVARIANTS = ['T_Order', 'T_Stamp', 'T_Unselected', 'T_Unknown']


def split_episodes(events: List[Dict[str, Any]]):
    episodes, open_, stats = [], {}, {}
    for e in events:
        if e['ev'] not in LINKER_EVENTS:
            continue
        key = (e['pid'], e.get('obj'))
        if e['ev'] == 'enter':
            open_.setdefault(key, []).append([e] if e.get('kind') == 'linker' else None)
            continue
        stack = open_.get(key)
        if not stack:
            continue
        cur = stack[-1]
        if cur is not None:
            cur.append(e)
        if e['ev'] == 'exit':
            stack.pop()
            if cur is not None:
                episodes.append(cur)
    return episodes, stats


def _vecs(chk: Dict[str, List[Any]]) -> Dict[str, np.ndarray]:
    return {k: np.array([ts._f(x) for x in v], dtype=np.float64) for k, v in chk.items()}


def abstract_episode(ep: List[Dict[str, Any]]) -> Tuple[Optional[List[Dict[str, Any]]], str]:
    en = ep[0]
    if 'hook_error' in en:
        return None, 'hook_error'
    if en['st0'] is None:
        return None, 't_out_of_range'
    for f in ('min', 'max', 'offset', 't'):
        if not isinstance(en[f], int) or isinstance(en[f], bool):
            return None, f'non_int_{f}'
    if en.get('nargs', 0):
        return None, 'positional_args'
    allsubs = en['all_submodels']
    if len(set(allsubs)) != len(allsubs):
        return None, 'ambiguous_submodel_reprs'
    n = len(allsubs)
    idx = {k: i + 1 for i, k in enumerate(allsubs)}
    selected = en['submodels']
    sel = list(range(1, n + 1)) if selected is None else [idx.get(k, UNKNOWN) for k in selected]
    if len(set(sel)) != len(sel):
        return None, 'repeated_selection'
    try:
        tol = ts._f(en['tol'])
    except (TypeError, ValueError):
        return None, 'non_numeric_tol'
    zeros = [0] * n
    cfg = {'n': n, 'sel': sel, 'min': en['min'], 'max': en['max'], 'tol': 1, 'failures': 'raise' if en['failures'] == 'raise' else 'ignore',
           'offset': en['offset'], 'L': en['L'], 't': en['t'], 'lv': False,
           'lags': [int(en.get('lags', 0))] * n, 'leads': [int(en.get('leads', 0))] * n, 'spanOK': [True] * n,
           'v0': zeros, 'vsrc': zeros, 'l0': 0, 'lsrc': 0}
    sub0 = en['subs0']
    if any(sub0[k][0] is None for k in allsubs):
        return None, 't_out_of_range'
    out = [{'ev': 'enter', 'cfg': cfg, 'sst0': [sub0[k][0] for k in allsubs], 'sit0': [sub0[k][1] for k in allsubs],
            'st0': en['st0'], 'it0': en['it0']}]
    prev = None
    for e in ep[1:]:
        ev = e['ev']
        if ev == 'l_seeded':
            out.append({'ev': ev, 'selected': [idx.get(k, UNKNOWN) for k in e['selected']]})
            prev = _vecs(e['chk'])
        elif ev in ('l_before_done', 'l_after_done', 'l_post'):
            out.append({'ev': ev})
        elif ev == 'l_pre':
            out.append({'ev': ev, 'k': e['k']})
        elif ev == 'sub_pass':
            out.append({'ev': ev, 'sub': idx.get(e['sub'], UNKNOWN), 'k': e['k'], 'sub_it': e['sub_it']})
        elif ev == 'l_pass':
            cur = _vecs(e['chk'])
            if prev is None or set(cur) != set(prev):
                below = False
            else:
                with np.errstate(all='ignore'):
                    below = all(bool(np.all(np.abs(cur[k] - prev[k]) < np.float64(tol))) for k in cur)
            prev = cur
            out.append({'ev': ev, 'k': e['k'], 'below': bool(below)})
        elif ev == 'l_stamp':
            out.append({'ev': ev, 'st': e['st'], 'it': e['it'], 'sst': [e['subs'][k][0] for k in allsubs], 'sit': [e['subs'][k][1] for k in allsubs]})
        elif ev == 'exit':
            kind = ('True' if e['ret'] is True else 'False' if e['ret'] is False else f"ret:{e['ret']}") if e['exc'] is None else e['exc']
            out.append({'ev': 'exit', 'kind': kind, 'st': e['st'], 'it': e['it']})
        else:
            return None, f'unknown_event_{ev}'
    if out[-1]['ev'] != 'exit':
        return None, 'no_exit'
    return out, ''


def validate(raw_episodes, tag):
    return ts.validate_episodes(raw_episodes, tag=tag, abstractor=abstract_episode, module='LinkerTrace',
                                invariants=LINKER_INVARIANTS, constants=LINKER_CONSTANTS)
