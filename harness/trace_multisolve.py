"""code -> spec for solve(): abstraction of solve_enter / nested solve_t exits / solve_exit into MultiSolveTrace.tla input."""
from __future__ import annotations

import re
from typing import Any, Dict, List, Optional, Tuple

from . import trace_solver as ts

CONSTANTS = '  Cfgs = {}'
INVARIANTS = ['T_Visits', 'T_Triple', 'T_Early']
_WRAP = re.compile(r"^np\.\w+\((.*)\)$")


def _norm(r: str) -> str:
    m = _WRAP.match(r)
    return m.group(1) if m else r


def split_episodes(events: List[Dict[str, Any]]):
    """One episode per outermost solve() call of an object: [solve_enter, (enter, exit)*, solve_exit]."""
    episodes, open_ = [], {}
    for e in events:
        key = (e['pid'], e.get('obj'))
        ev = e['ev']
        if ev == 'solve_enter':
            open_.setdefault(key, []).append([e] if e.get('kind') == 'model' else None)
        elif ev == 'solve_exit':
            st = open_.get(key)
            if st:
                cur = st.pop()
                if cur is not None and not st:
                    cur.append(e)
                    episodes.append(cur)
        elif ev in ('enter', 'exit') and open_.get(key):
            cur = open_[key][-1]
            if cur is not None and len(open_[key]) == 1:
                cur.append(e)
    return episodes


def abstract_episode(ep):
    en = ep[0]
    if en.get('span') is None or en.get('nargs', 0):
        return None, 'no_span_or_positional_args'
    if not isinstance(en['min'], int) or not isinstance(en['max'], int):
        return None, 'non_int_bounds'
    L = en['L']
    span = [_norm(x) for x in en['span']]
    if len(set(span)) != len(span):
        return None, 'duplicate_label_reprs'

    def lab(r):
        if r == 'None':
            return 0
        r = _norm(r)
        if r in span:
            return span.index(r) + 1
        if en['span_type'] in ('range', 'list', 'tuple'):
            return L + 1
        return None

    s, e_ = lab(en['start']), lab(en['end'])
    if s is None or e_ is None:
        return None, 'label_not_resolvable_by_repr'
    if L > 0 and L < en['lags'] + en['leads'] + 1:
        return None, 'span_shorter_than_lags_plus_leads'
    cfg = {'L': L, 'lags': en['lags'], 'leads': en['leads'], 'start': s, 'end': e_, 'min': en['min'], 'max': en['max'],
           'errors': 'raise', 'failures': 'raise', 'fault': ['none'] * L, 'prior': False}
    out = [{'ev': 'solve_enter', 'cfg': cfg, 'per0': [{'st': '-', 'it': -1, 'ver': 'init'} for _ in range(L)]}]
    depth = 0
    cur_t = None
    for e in ep[1:-1]:
        if e['ev'] == 'enter':
            depth += 1
            if depth == 1:
                cur_t = e.get('t')
        elif e['ev'] == 'exit':
            depth -= 1
            if depth == 0:
                if not isinstance(cur_t, int) or e['st'] is None:
                    return None, 'nested_t_unresolved'
                p = (cur_t + L if cur_t < 0 else cur_t) + 1
                ret = ('True' if e['ret'] is True else 'False' if e['ret'] is False else f"ret:{e['ret']}") if e['exc'] is None else e['exc']
                out.append({'ev': 'visit', 'p': p, 'st': e['st'], 'it': e['it'], 'ret': ret})
    ex = ep[-1]
    if ex['exc'] is None:
        r = ex['ret']
        if not isinstance(r, dict):
            return None, 'odd_return'
        out.append({'ev': 'solve_exit', 'kind': 'returned', 'indexes': [i + 1 for i in r['indexes']], 'solved': r['solved']})
    else:
        out.append({'ev': 'solve_exit', 'kind': ex['exc'], 'indexes': [], 'solved': []})
    return out, ''


def validate(raw_episodes, tag):
    return ts.validate_episodes(raw_episodes, tag=tag, abstractor=abstract_episode, module='MultiSolveTrace',
                                invariants=INVARIANTS, constants=CONSTANTS)
