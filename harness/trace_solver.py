"""code -> spec for the per-period solver: turn raw hook events (ndjson written by
fsic/_verif.py) into SolverTrace.tla input and run TLC on it.

The only numeric code here is `abstract_episode`: it maps the float check vectors
of one solve_t call to the small-integer domain of Solver.tla so that, with the
abstract tolerance 1, "|current - remembered| < tol" has exactly the truth value
it has on the floats.  The remembered vector follows the *specification's* rule
(RemAfter), never the code's own bookkeeping.
"""
from __future__ import annotations

import json
import math
from typing import Any, Dict, List, Optional, Tuple

import numpy as np

from . import core

NAN, PINF, NINF = 100, 101, 102
BAD = 3  # abstract value never produced by the abstraction: forces a rejection


def _f(x) -> float:
    if x == 'nan':
        return math.nan
    if x == 'inf':
        return math.inf
    if x == '-inf':
        return -math.inf
    return float(x)


def _code(x: float) -> Optional[int]:
    if math.isnan(x):
        return NAN
    if x == math.inf:
        return PINF
    if x == -math.inf:
        return NINF
    return None


def _eq(a: float, b: float) -> bool:
    return a == b or (math.isnan(a) and math.isnan(b))


def read_events(path: str) -> List[Dict[str, Any]]:
    out = []
    with open(path) as f:
        for line in f:
            line = line.strip()
            if line:
                out.append(json.loads(line))
    return out


def split_episodes(events: List[Dict[str, Any]], kind: str = 'model') -> Tuple[List[List[Dict[str, Any]]], Dict[str, int]]:
    """Group events into solve_t episodes (enter .. exit of one object), per process.
    Episodes may nest (a hook calling solve_t on another object); events go to the
    innermost open episode of the same object."""
    stats: Dict[str, int] = {}
    episodes: List[List[Dict[str, Any]]] = []
    open_: Dict[Tuple[int, int], List[List[Dict[str, Any]]]] = {}
    solver_events = {'enter', 'offset', 'before_done', 'pass', 'pass_raised', 'after_done', 'stamp', 'exit'}
    for e in events:
        if e['ev'] not in solver_events:
            continue
        key = (e['pid'], e.get('obj'))
        if e['ev'] == 'enter':
            if e.get('kind') != kind:
                open_.setdefault(key, []).append(None)  # placeholder: foreign episode
                continue
            open_.setdefault(key, []).append([e])
            continue
        stack = open_.get(key)
        if not stack:
            stats['orphan_event'] = stats.get('orphan_event', 0) + 1
            continue
        cur = stack[-1]
        if cur is not None:
            cur.append(e)
        if e['ev'] == 'exit':
            stack.pop()
            if cur is not None:
                episodes.append(cur)
    for stack in open_.values():
        for cur in stack:
            if cur is not None:
                stats['unterminated'] = stats.get('unterminated', 0) + 1
    return episodes, stats


def abstract_episode(ep: List[Dict[str, Any]]) -> Tuple[Optional[List[Dict[str, Any]]], str]:
    """Return (abstract events, reason-if-skipped)."""
    en = ep[0]
    if 'hook_error' in en:
        return None, 'hook_error'
    if en['st0'] is None or any(v is None for v in en['chk0']):
        return None, 't_out_of_range'
    for fld in ('min', 'max', 'offset', 't'):
        if not isinstance(en[fld], int) or isinstance(en[fld], bool):
            return None, f'non_int_{fld}'
    if en.get('nargs', 0):
        return None, 'positional_args'
    nv = len(en['check'])
    try:
        tol = _f(en['tol'])
    except (TypeError, ValueError):
        return None, 'non_numeric_tol'
    errors = en['errors'] if en['errors'] in ('raise', 'skip', 'ignore', 'replace') else 'bogus'
    failures = 'raise' if en['failures'] == 'raise' else 'ignore'
    maxi = en['max']
    c0 = [_f(x) for x in en['chk0']]
    src = [_f(x) for x in en['src']] if en['src'] is not None and all(x is not None for x in en['src']) else None

    def abs0(vec):
        return [(_code(x) if _code(x) is not None else 0) for x in vec]

    cfg = {'min': en['min'], 'max': maxi, 'tol': 1, 'failures': failures, 'errors': errors, 'cfe': bool(en['cfe']),
           'L': en['L'], 't': en['t'], 'lags': int(en.get('lags', 0)), 'leads': int(en.get('leads', 0)), 'offset': en['offset'], 'c0': abs0(c0), 'src': abs0(src if src is not None else c0),
           'st0': en['st0'], 'it0': en['it0']}
    out = [{'ev': 'enter', 'cfg': cfg}]
    # solver's remembered vector, per the specification
    start_real = src if (en['offset'] != 0 and src is not None) else c0
    rem_real = list(start_real)
    rem_abs = abs0(start_real)
    cells_real = list(c0)
    cells_abs = abs0(c0)
    j_done = 0

    def abstract_against_rem(vec_real):
        a = []
        for i, x in enumerate(vec_real):
            c = _code(x)
            if c is not None:
                a.append(c)
            elif _code(rem_real[i]) is not None:
                a.append(0)
            else:
                below = bool(np.abs(np.float64(x) - np.float64(rem_real[i])) < np.float64(tol))
                a.append(rem_abs[i] if below else (rem_abs[i] + 1) % 3)
        return a

    def abstract_same_as_cells(vec_real):
        """Abstraction of a vector that is expected to equal the current cells."""
        return [cells_abs[i] if _eq(x, cells_real[i]) else BAD for i, x in enumerate(vec_real)]

    for e in ep[1:]:
        ev = e['ev']
        if ev == 'offset':
            v = [_f(x) for x in e['chk']]
            if src is None:
                a = [BAD] * nv
            else:
                a = [cfg['src'][i] if _eq(x, src[i]) else BAD for i, x in enumerate(v)]
            cells_real, cells_abs = v, a
            out.append({'ev': 'offset', 'chk': a})
        elif ev in ('before_done', 'after_done'):
            v = [_f(x) for x in e['chk']]
            if all(_eq(x, y) for x, y in zip(v, cells_real)):
                w = []
            else:  # the hook wrote check variables
                w = abstract_against_rem(v)
                cells_real, cells_abs = v, w
            out.append({'ev': ev, 'w': w})
        elif ev in ('pass', 'pass_raised'):
            v = [_f(x) for x in e['chk']]
            a = abstract_against_rem(v)
            o = [{'var': i + 1, 'kind': 'set', 'v': a[i]} for i in range(nv)]
            if ev == 'pass_raised':
                strict = errors == 'raise' and bool(en['cfe'])
                o.append({'var': 0, 'kind': 'warn' if (e.get('is_warning') and strict) else 'exc', 'v': 0})
            cells_real, cells_abs = v, a
            out.append({'ev': ev, 'k': e['k'], 'o': o, 'chk': a})
            if ev == 'pass':
                j_done = e['k']
                anynf_rem = any(_code(x) is not None for x in rem_real)
                anynf_cur = any(_code(x) is not None for x in v)
                if errors == 'replace' and not anynf_rem and anynf_cur and j_done < maxi:
                    rem_real = [0.0 if _code(x) is not None else x for x in v]
                    rem_abs = [0 if _code(x) is not None else a[i] for i, x in enumerate(v)]
                else:
                    rem_real, rem_abs = list(v), list(a)
        elif ev == 'stamp':
            out.append({'ev': 'stamp', 'st': e['st'], 'it': e['it']})
        elif ev == 'exit':
            v = [_f(x) if x is not None else math.nan for x in e['chk']]
            if e['exc'] is None:
                kind = 'True' if e['ret'] is True else 'False' if e['ret'] is False else f'ret:{e["ret"]}'
                cause = 'none'
            else:
                kind = e['exc']
                cause = 'none' if e['cause'] is None else 'warning' if e['cause_is_warning'] else 'other'
            out.append({'ev': 'exit', 'kind': kind, 'cause': cause, 'st': e['st'], 'it': e['it'],
                        'chk': abstract_same_as_cells(v)})
        else:
            return None, f'unknown_event_{ev}'
    if out[-1]['ev'] != 'exit':
        return None, 'no_exit'
    return out, ''


SOLVER_CONSTANTS = '''  Cfgs = {}
  EqOuts = {}
  HookOuts = {}
  HookWrites = {}'''

TRACE_CFG = '''SPECIFICATION TraceSpec
CONSTANTS
{constants}
CONSTRAINT Track
POSTCONDITION Accepted
CHECK_DEADLOCK FALSE
{invariants}
'''

SOLVER_INVARIANTS = ['C02_FirstConv', 'C02_SolvedIffTrue', 'C02_Fail', 'C02_Rejected', 'C02_Complete', 'C02_Hooks',
                     'C06_Raise', 'C06_Skip', 'C06_KeepGoing', 'C06_Statuses', 'C06_Chained', 'C06_NoStoreOnCatch',
                     'C06_NeverJudged', 'C04_OnlyT']


def validate_batches(batches: List[List[List[Dict[str, Any]]]], *, tag: str, invariants=SOLVER_INVARIANTS,
                     module: str = 'SolverTrace', timeout: int = 1800, constants: str = SOLVER_CONSTANTS):
    """Each batch (list of abstract episodes) is validated by one single-worker TLC.
    Returns per-batch dicts: accepted, consumed, total, violated, first_bad_episode."""
    import re
    from concurrent.futures import ThreadPoolExecutor

    cfg_text = TRACE_CFG.format(invariants='\n'.join(f'INVARIANT {i}' for i in invariants), constants=constants)
    work = core.subdir('traces')

    def one(bi: int):
        eps = batches[bi]
        flat = [e for ep in eps for e in ep]
        path = work / f'{tag}-{bi}.json'
        path.write_text(json.dumps(flat))
        res = core.run_tlc(module, cfg_text, workers=1, tag=f'{tag}-{bi}', env={'TRACE_FILE': str(path)},
                           timeout=timeout, heap='2g', deque=True)
        log = open(res.log).read()
        m = re.search(r'<<"CONSUMED", (\d+), "OF", (\d+)>>', log)
        consumed = int(m.group(1)) if m else -1
        total = int(m.group(2)) if m else len(flat)
        accepted = res.rc == 0 and consumed == total and res.violated is None and res.error is None
        bad = None
        if not accepted:
            # locate the episode containing the first event that could not be consumed
            pos = 0
            for ei, ep in enumerate(eps):
                if consumed < pos + len(ep):
                    bad = ei
                    break
                pos += len(ep)
            if bad is None and eps:
                bad = len(eps) - 1
        return {'accepted': accepted, 'consumed': consumed, 'total': total, 'violated': res.violated,
                'error': res.error, 'bad_episode': bad, 'bad_event_offset': None if bad is None else consumed - sum(len(x) for x in eps[:bad]),
                'states': res.distinct, 'generated': res.generated, 'wall': res.wall, 'log': res.log, 'rc': res.rc}

    with ThreadPoolExecutor(max_workers=core.NCPU) as ex:
        return list(ex.map(one, range(len(batches))))


def validate_episodes(raw_episodes: List[List[Dict[str, Any]]], *, tag: str, nbatches: int = core.NCPU,
                      bisect: bool = True, abstractor=None, **tlc_kw):
    """Abstract, batch and validate.  Returns (n_accepted, rejected list, stats).  A rejected batch is
    re-run episode by episode (bisect) so that every rejected episode is identified."""
    stats: Dict[str, int] = {}
    abstract: List[Tuple[List[Dict[str, Any]], List[Dict[str, Any]]]] = []
    for ep in raw_episodes:
        a, why = (abstractor or abstract_episode)(ep)
        if a is None:
            stats[f'skipped_{why}'] = stats.get(f'skipped_{why}', 0) + 1
        else:
            abstract.append((a, ep))
    if not abstract:
        return 0, [], stats, {'states': 0, 'generated': 0}
    idx_batches = core.chunks(list(range(len(abstract))), nbatches)
    results = validate_batches([[abstract[i][0] for i in b] for b in idx_batches], tag=tag, **tlc_kw)
    tot = {'states': sum(r['states'] for r in results), 'generated': sum(r['generated'] for r in results)}
    accepted = 0
    rejected = []
    MAX_REJ_PER_BATCH = 12
    for b, r in zip(idx_batches, results):
        b = list(b)
        rounds = 0
        while True:
            if r['accepted']:
                accepted += len(b)
                break
            if r['consumed'] < 0 and r['violated'] is None:
                raise core.MachineryError(f'trace TLC failed: rc={r["rc"]} error={r["error"]}\n' + ''.join(open(r['log']).readlines()[-30:]))
            bad = r['bad_episode']
            accepted += bad  # episodes before the rejected one were consumed completely
            rejected.append({'result': {k: r[k] for k in ('consumed', 'total', 'violated', 'error', 'bad_event_offset')},
                             'abstract': abstract[b[bad]][0], 'raw': abstract[b[bad]][1]})
            b = b[bad + 1:]
            rounds += 1
            if not b:
                break
            if rounds >= MAX_REJ_PER_BATCH:
                stats['unexamined_after_many_rejections'] = stats.get('unexamined_after_many_rejections', 0) + len(b)
                break
            r = validate_batches([[abstract[i][0] for i in b]], tag=f'{tag}-re{b[0]}', **tlc_kw)[0]
            tot['states'] += r['states']
            tot['generated'] += r['generated']
    return accepted, rejected, stats, tot
