#!/venv/bin/python
"""False-alarm measurement: behaviour-preserving changes written by a fresh sub-agent (refactors, rewordings,
equivalent reformulations) under /verif/benign/<name>/ (patch.diff, meta.json).

For each: scratch worktree of /repo (outside /repo and /verif), apply the patch, confirm the repository's stable
test selection passes, run the quick check of every property the change touches (FSIC_REPO=<copy>) and record whether
any of them printed a VIOLATION (a false alarm, unless inspection shows the change is not preserving after all) or
failed as machinery (exit 2: coupling of the harness to an internal the properties do not constrain).
usage: selftest/benign.py [name ...] [--checks=C02,C06] [--all-checks]
"""
import json
import os
import shutil
import subprocess
import sys
import tempfile
import time

SUITE = ['tests/test_core.py', 'tests/test_extensions.py', 'tests/test_functions.py', 'tests/test_parser.py', 'tests/test_tools.py',
         '--deselect', 'tests/test_tools.py::TestPandasFunctions::test_dataframe_to_symbols']
ALL = [f'C{i:02d}' for i in range(1, 21)]


def run(cmd, env=None, cwd=None, timeout=7200):
    p = subprocess.run(cmd, env=env, cwd=cwd, capture_output=True, text=True, timeout=timeout)
    return p.returncode, p.stdout + p.stderr


def main():
    args = [a for a in sys.argv[1:] if not a.startswith('--')]
    checks_arg = None
    for a in sys.argv[1:]:
        if a.startswith('--checks='):
            checks_arg = a.split('=', 1)[1].split(',')
    root = '/verif/benign'
    for name in sorted(os.listdir(root)):
        d = os.path.join(root, name)
        if (args and name not in args) or not os.path.isdir(d):
            continue
        meta = json.load(open(os.path.join(d, 'meta.json')))
        checks = checks_arg or (ALL if '--all-checks' in sys.argv else sorted(set(meta.get('touches_properties', [])) & set(ALL)))
        w = tempfile.mkdtemp(prefix='fsic-benign-')
        try:
            subprocess.run(['git', '-C', '/repo', 'worktree', 'add', '-q', '--detach', w + '/wt', 'HEAD'], check=True)
            wt = w + '/wt'
            env = dict(os.environ, PYTHONPATH=wt, PYTHONDONTWRITEBYTECODE='1')
            env.pop('FSIC_VERIF', None)
            row = {'repo_commit': subprocess.run(['git', '-C', '/repo', 'log', '--format=%h', '-1'], capture_output=True, text=True).stdout.strip()}
            rc, out = run(['git', 'apply', os.path.join(d, 'patch.diff')], cwd=wt)
            row['patch_applies'] = rc == 0
            if rc == 0:
                rcs, outs = run(['/venv/bin/python', '-m', 'pytest', '-q', '-p', 'no:cacheprovider', '--timeout=900', '-q', *SUITE], env=env, cwd=wt)
                row['suite_with_patch'] = 'pass' if rcs == 0 else f'FAIL rc={rcs}'
                results = {}
                for c in checks:
                    e2 = dict(os.environ, FSIC_REPO=wt, FSIC_VERIF_EVIDENCE=w + '/ev', FSIC_VERIF_REPLAYS=w + '/rp')
                    t0 = time.time()
                    rcc, outc = run(['/verif/check', c, '--tier', 'quick'], env=e2, cwd='/verif')
                    keys = []
                    try:
                        keys = list(json.load(open(f'{w}/ev/{c}.json'))['coverage']['violation_keys'].items())[:6]
                    except Exception:
                        pass
                    results[c] = {'rc': rcc, 'first_keys': keys, 'wall_s': round(time.time() - t0, 1)}
                    if rcc == 2:
                        results[c]['tail'] = outc[-600:]
                    if rcc == 1:
                        # keep the first replay file for inspection
                        os.makedirs(os.path.join(d, 'alarms'), exist_ok=True)
                        for f in sorted(os.listdir(w + '/rp'))[:2] if os.path.isdir(w + '/rp') else []:
                            shutil.copy(os.path.join(w, 'rp', f), os.path.join(d, 'alarms', f))
                row['checks'] = results
                row['alarms'] = sorted(c for c, v in results.items() if v['rc'] == 1)
                row['machinery_failures'] = sorted(c for c, v in results.items() if v['rc'] == 2)
            meta['evaluation'] = row
            json.dump(meta, open(os.path.join(d, 'meta.json'), 'w'), indent=1)
            print(name, json.dumps(row)[:500], flush=True)
        finally:
            subprocess.run(['git', '-C', '/repo', 'worktree', 'remove', '--force', w + '/wt'])
            shutil.rmtree(w, ignore_errors=True)


if __name__ == '__main__':
    main()
