#!/venv/bin/python
"""Self-validation: apply small semantic mutations to a scratch copy of /repo and run checks
against it (FSIC_REPO=<copy>).  Each mutant should turn the listed check red.

usage: selftest/mutants.py [name-substring ...] [--suite] [--tier quick]
"""
import json
import os
import shutil
import subprocess
import sys
import tempfile
import time

M = 'fsic/core/models.py'
I = 'fsic/core/interfaces.py'
K = 'fsic/core/linkers.py'
C = 'fsic/core/containers.py'
P = 'fsic/parser.py'
X = 'fsic/extensions/model.py'
A = 'fsic/extensions/common.py'
F = 'fsic/functions.py'
FO = 'fsic/fortran.py'
T = 'fsic/tools.py'

MUTANTS = [
    # name, file, old, new, checks expected to catch it
    ('tol-le', M, 'if np.all(np.abs(diff) < tol):', 'if np.all(np.abs(diff) <= tol):', ['C02']),
    ('all-any', M, 'if np.all(np.abs(diff) < tol):', 'if np.any(np.abs(diff) < tol):', ['C02']),
    ('miniter-le', M, '            if iteration < min_iter:\n                continue\n\n            diff = current_values', '            if iteration <= min_iter:\n                continue\n\n            diff = current_values', ['C02']),
    ('maxiter-short', M, 'for iteration in range(1, max_iter + 1):\n            previous_values = current_values.copy()', 'for iteration in range(1, max(max_iter, 1)):\n            previous_values = current_values.copy()', ['C02']),
    ('offset-sign', M, "self.__dict__['_' + name][t] = self.__dict__['_' + name][t + offset]", "self.__dict__['_' + name][t] = self.__dict__['_' + name][t - offset]", ['C02']),
    ('offset-guard-off-by-one', M, 'if t_check + offset >= len(self.span):', 'if t_check + offset > len(self.span):', ['C02']),
    ('skip-as-failed', M, "status = SolutionStatus.SKIPPED.value\n                    break", "status = SolutionStatus.FAILED.value\n                    break", ['C06']),
    ('raise-no-status', M, "                if errors == 'raise':\n                    self.status[t] = SolutionStatus.ERROR.value\n                    self.iterations[t] = iteration\n\n                    raise SolutionError(\n                        f'Numerical", "                if errors == 'raise':\n                    self.iterations[t] = iteration\n\n                    raise SolutionError(\n                        f'Numerical", ['C06']),
    ('replace-zero-last', M, "                    if iteration == max_iter:\n                        status = SolutionStatus.FAILED.value\n                        break\n                    else:\n                        current_values[~np.isfinite(current_values)] = 0.0", "                    if iteration > max_iter:\n                        status = SolutionStatus.FAILED.value\n                        break\n                    else:\n                        current_values[~np.isfinite(current_values)] = 0.0", ['C06', 'C02']),
    ('prev-nonfinite-judged', M, "            if np.any(~np.isfinite(previous_values)):\n                continue", "            if np.all(~np.isfinite(previous_values)):\n                continue", ['C06']),
    ('cfe-ignored', M, "                if errors == 'raise' and catch_first_error:\n                    # Immediately", "                if errors == 'raise' and not catch_first_error:\n                    # Immediately", ['C06']),
    ('nonconv-always', M, "if status == SolutionStatus.FAILED.value and failures == 'raise':", "if status == SolutionStatus.FAILED.value and failures != 'ignore_':", ['C02']),
    ('after-hook-twice', M, "                status = SolutionStatus.SOLVED.value\n                break", "                status = SolutionStatus.SOLVED.value\n                self.solve_t_after(t, errors=errors, catch_first_error=catch_first_error, iteration=iteration, **kwargs)\n                break", ['C02']),
    ('precheck-any-errors', M, "if errors == 'raise' and np.any(~np.isfinite(current_values)):", "if errors in ('raise', 'skip') and np.any(~np.isfinite(current_values)):", ['C06', 'C02']),
    # --- multi-period solve (C05)
    ('default-end-off-by-one', I, "            end = self.span[-1 - self.leads]", "            end = self.span[-2 - self.leads] if self.leads else self.span[-1]", ['C05']),
    ('solve-swallows-keyerror', I, "            raise KeyError(end)", "            end = None", ['C05']),
    ('solve-stops-after-skip', I, "            solved[i] = self.solve_t(", "            if i and solved[i - 1] is False and errors == 'skip':\n                break\n            solved[i] = self.solve_t(", ['C05']),
    # --- linker (C08)
    ('linker-stamp-all', K, "        for name in submodels:\n            submodel = self.__dict__['submodels'][name]\n            submodel.status[t] = status", "        for name in self.__dict__['submodels']:\n            submodel = self.__dict__['submodels'][name]\n            submodel.status[t] = status", ['C08']),
    ('linker-order-sorted', K, "        for name in submodels:\n            submodel = self.__dict__['submodels'][name]\n\n            with warnings.catch_warnings(record=True):", "        for name in sorted(submodels, key=str):\n            submodel = self.__dict__['submodels'][name]\n\n            with warnings.catch_warnings(record=True):", ['C08']),
    ('linker-lags-min', K, "                lags =  max(lags, comparator.LAGS)", "                lags =  min(lags, comparator.LAGS)", ['C08']),
    ('linker-miniter-le', K, "            if iteration < min_iter:\n                continue\n\n            diff = {k:", "            if iteration <= min_iter:\n                continue\n\n            diff = {k:", ['C08']),
    # --- tracer (C17)
    ('tracer-evaluates-twice', X, "        super()._evaluate(\n            t, *args, trace=trace, reset=reset, iteration=iteration, **kwargs\n        )", "        super()._evaluate(\n            t, *args, trace=trace, reset=reset, iteration=iteration, **kwargs\n        )\n        if trace and iteration == 2:\n            super()._evaluate(t, *args, trace=trace, reset=reset, iteration=iteration, **kwargs)", ['C17']),
    ('tracer-label-offbyone', X, "            self.trace_t(t, iteration, *args, trace=trace, reset=reset, **kwargs)", "            self.trace_t(t, iteration - 1, *args, trace=trace, reset=reset, **kwargs)", ['C17']),
    # --- parser / generated code (C01, C03, C14, C15, C20)
    ('term-lead-sign', P, "                index = f'[t+{self.index_}]'", "                index = f'[t-{self.index_}]'", ['C01']),
    ('lags-leads-minmax-swapped', P, "        lags = resolve_by_type_pair(self.lags, other.lags, min)\n        leads = resolve_by_type_pair(self.leads, other.leads, max)", "        lags = resolve_by_type_pair(self.lags, other.lags, max)\n        leads = resolve_by_type_pair(self.leads, other.leads, min)", ['C03']),
    ('untyped-template-lags-leads-swapped', P, "    LAGS = {lags}\n    LEADS = {leads}\n\n    def solve_t_before(self, t, *, errors='raise'", "    LAGS = {leads}\n    LEADS = {lags}\n\n    def solve_t_before(self, t, *, errors='raise'", ['C15']),
    ('log-replaced-by-log10', P, "    'log': 'np.log',", "    'log': 'np.log10',", ['C01']),
    ('whitespace-collapse-removes-all', P, "    template = re.sub(r'\\s+',   ' ', template)  # Remove repeated whitespace", "    template = re.sub(r'\\s+',   '', template)  # Remove repeated whitespace", ['C14']),
    ('graph-edges-reversed', T, "                G.add_edge(x, n)", "                G.add_edge(n, x)", ['C20']),
    # --- time-series helpers / eval (C16)
    ('shift-sign', F, "    shifted = np.roll(x, shift=p)", "    shifted = np.roll(x, shift=-p)", ['C16']),
    ('eval-builtins-not-copied', C, "            builtins = copy.deepcopy(_builtins)", "            builtins = _builtins", ['C16']),
    # --- containers
    ('stop-location-not-extended', C, "            stop_location += 1", "            stop_location += 0", ['C10']),
    ('copy-shallow', C, "        copied.__dict__.update({k: copy.deepcopy(v) for k, v in self.__dict__.items()})", "        copied.__dict__.update({k: copy.copy(v) for k, v in self.__dict__.items()})", ['C11']),
    ('names-not-copied', I, "        names = copy.deepcopy(self.NAMES)", "        names = self.NAMES", ['C11']),
    # --- aliases
    ('alias-one-level', A, "            aliases = {k: aliases.get(v, v) for k, v in aliases.items()}", "            aliases = {k: aliases.get(v, v) for k, v in aliases.items()}\n            break", ['C18']),
]



def run(cmd, env=None, cwd=None, timeout=3600):
    p = subprocess.run(cmd, env=env, cwd=cwd, capture_output=True, text=True, timeout=timeout)
    return p.returncode, p.stdout + p.stderr


def main():
    args = [a for a in sys.argv[1:] if not a.startswith('--')]
    suite = '--suite' in sys.argv
    tier = 'quick'
    only_checks = [a for a in args if a.upper().startswith('C') and a[1:].isdigit()]
    subs = [a for a in args if a not in only_checks]
    results = []
    for name, file, old, new, checks in MUTANTS:
        if subs and not any(s in name for s in subs):
            continue
        d = tempfile.mkdtemp(prefix='fsic-mut-')
        try:
            shutil.copytree('/repo/fsic', d + '/fsic', ignore=shutil.ignore_patterns('__pycache__'))
            shutil.copytree('/repo/tests', d + '/tests', ignore=shutil.ignore_patterns('__pycache__', '*.f95'))
            for f in ('pyproject.toml',):
                if os.path.exists('/repo/' + f):
                    shutil.copy('/repo/' + f, d)
            src = open(f'{d}/{file}').read()
            if src.count(old) != 1:
                results.append({'mutant': name, 'error': f'pattern occurs {src.count(old)}x'})
                print(results[-1])
                continue
            open(f'{d}/{file}', 'w').write(src.replace(old, new))
            row = {'mutant': name}
            if suite:
                env = dict(os.environ, PYTHONPATH=d)
                env.pop('FSIC_VERIF', None)
                rc, out = run(['/venv/bin/python', '-m', 'pytest', '-q', '-p', 'no:cacheprovider', '--timeout=900', '-q',
                               'tests/test_core.py', 'tests/test_extensions.py', 'tests/test_functions.py', 'tests/test_parser.py',
                               'tests/test_tools.py', '--deselect', 'tests/test_tools.py::TestPandasFunctions::test_dataframe_to_symbols'], env=env, cwd=d)
                row['suite'] = 'green' if rc == 0 else 'RED'
            for c in (only_checks or checks):
                env = dict(os.environ, FSIC_REPO=d, FSIC_VERIF_EVIDENCE=d + '/evidence', FSIC_VERIF_REPLAYS=d + '/replays')
                t0 = time.time()
                rc, out = run(['/verif/check', c, '--tier', tier], env=env, cwd='/verif')
                viol = [l for l in out.splitlines() if l.startswith('VIOLATION')]
                row[c] = {'rc': rc, 'violations': len(viol), 'wall': round(time.time() - t0, 1)}
                if rc == 2:
                    row[c]['tail'] = out[-600:]
            results.append(row)
            print(json.dumps(row), flush=True)
        finally:
            shutil.rmtree(d, ignore_errors=True)
    # restore evidence written while FSIC_REPO pointed at mutants
    print(json.dumps({'caught': sum(1 for r in results if any(isinstance(v, dict) and v.get('rc') == 1 for v in r.values())), 'total': len(results)}))


if __name__ == '__main__':
    main()
