#!/venv/bin/python
"""Write seeded/README.md from the meta.json files (what each independently written change needs, what caught it)."""
import json
import os

NOTES = {
    'c05_a': 'missed at first (no span with a falsy first label); caught after adding the span kinds range(0, L), [\'\', ...] and [0.0, ...] to the C05 replay',
    'c05_b': 'missed at first (all replay models were fresh); caught after MultiSolve.tla gained `prior` (periods carrying the stamps of an earlier solve)',
    'c06_b': 'missed at first (scripted faults were never fsic SolutionErrors); caught after adding the SolutionError-typed fault flavour to the Solver replay',
    'c01_a': 'missed at first by C01 (only the canonical layout was evaluated; C14 caught the identical change c14_a); caught by C01 after adding the semantic renderings (inner spaces, explicit signs)',
    'c03_a': 'missed at first (C03 built typed classes only; C15 caught the same kind of slip); caught after C03 also builds with_type_hints=False',
    'c04_b': 'missed at first (C04 solved with offset=0 only; C02\'s guard slice covers the same ordering); caught after C04 solves feasible and infeasible periods with offsets too',
    'c10_a': 'missed at first (no falsy label inside a span); caught after adding span types range-through-zero and [\'a\', \'\', 0.0, (), \'e\'] to the C10 replay',
    'r2a_1': 'missed at first (no object history); caught after the C05 replay also runs every behaviour on an object that was solved and then reindexed',
    'r2a_3': 'strengthened from its description before the evaluation ran: values at the top of the float64 range (scale 2**1023) in the two-variable Solver slice',
    'r2b_4': 'strengthened from its description before the evaluation ran: fuzz seed scripts with attribute / conversion / format-spec brace groups',
    'r2b_6': 'strengthened from its description before the evaluation ran: a converter that returns the same text for every symbol',
    'r2c_3': 'strengthened from its description before the evaluation ran: run-time edits of the instance alias map / preferred names as opaque extras in C11 histories',
    'r2c_4': 'strengthened from its description before the evaluation ran: label-slice reads on the original before and on the result after reindex',
    'r2c_5': 'strengthened from its description before the evaluation ran: underscore-prefixed and non-ASCII variable names in eval()',
    'c14_b': 'missed at first (comments of the catalogue had balanced brackets); caught after the comments layout got unmatched brackets',
}

rows = []
root = '/verif/seeded'
for name in sorted(os.listdir(root)):
    p = os.path.join(root, name, 'meta.json')
    if not os.path.exists(p):
        continue
    m = json.load(open(p))
    ev = m.get('evaluation', {})
    caught = [c for c, v in ev.get('checks', {}).items() if v.get('rc') == 1]
    keys = []
    for c, v in ev.get('checks', {}).items():
        keys += [k for k, _ in v.get('first_keys', [])[:2]]
    rows.append((name, m.get('property'), m.get('summary', '').replace('\n', ' ').replace('|', '/'), m.get('needs_to_manifest', '').replace('\n', ' ').replace('|', '/'),
                 ', '.join(caught) or ('NOT CAUGHT' if ev else 'not evaluated'), '; '.join(keys)[:160].replace('|', '/'),
                 ev.get('suite_with_patch', '-'), f"{ev.get('demo_with_patch', '-')}/{ev.get('demo_without_patch', '-')}", NOTES.get(name, '')))

with open(os.path.join(root, 'README.md'), 'w') as f:
    f.write('# Independently written breaking changes\n\n')
    f.write('Each directory holds `patch.diff`, `demo.py` (exit 1 with the patch, 0 without) and `meta.json`. The changes were written by\n'
            'fresh sub-agents that saw only the property text and a scratch worktree of the library - nothing from /verif. Each was\n'
            'confirmed on a scratch worktree (patch applies, the repository suite still passes, the demonstration flips) and then the\n'
            'quick check of its property was run against the patched copy (`selftest/seeds.py`; `FSIC_REPO=<copy>`), never against /repo.\n\n')
    f.write('| seed | property | change | needs to manifest | caught by | first finding keys | suite with patch | demo with/without | note |\n|---|---|---|---|---|---|---|---|---|\n')
    for r in rows:
        f.write('| ' + ' | '.join(str(x) for x in r) + ' |\n')
    n = len(rows)
    c = sum(1 for r in rows if r[4] not in ('NOT CAUGHT', 'not evaluated'))
    f.write(f'\n{c} of {n} evaluated changes are caught by the quick tier of the check of their own property.\n')
print('written', len(rows))
