#!/venv/bin/python
"""Write seeded/README.md from the meta.json files (what each independently written change needs, what caught it)."""
import json
import os

NOTES = {
    'c05_a': 'missed at first (no span with a falsy first label); caught after adding the span kinds range(0, L), [\'\', ...] and [0.0, ...] to the C05 replay',
    'c05_b': 'missed at first (all replay models were fresh); caught after MultiSolve.tla gained `prior` (periods carrying the stamps of an earlier solve)',
    'c06_b': 'missed at first (scripted faults were never fsic SolutionErrors); caught after adding the SolutionError-typed fault flavour to the Solver replay',
    'c01_a': 'missed at first by C01 (only the canonical layout was evaluated; C14 caught the identical change c14_a); caught by C01 after adding the semantic renderings (inner spaces, explicit signs)',
    'c03_a': 'missed at first (C03 built typed classes only; C15 caught the same kind of slip); caught after C03 also builds with_type_hints=False',
    'c04_b': 'missed at first (C04 solved with offset=0 only; C02\'s guard slice covers the same ordering); caught after C04 solves feasible and infeasible periods with offsets too',
    'c10_a': 'missed at first (no falsy label inside a span); caught after adding span types range-through-zero and [\'a\', \'\', 0.0, (), \'e\'] to the C10 replay',
    'r2a_1': 'missed at first (no object history); caught after the C05 replay also runs every behaviour on an object that was solved and then reindexed',
    'r2a_3': 'strengthened from its description before the evaluation ran: values at the top of the float64 range (scale 2**1023) in the two-variable Solver slice',
    'r2b_4': 'strengthened from its description before the evaluation ran: fuzz seed scripts with attribute / conversion / format-spec brace groups',
    'r2b_6': 'strengthened from its description before the evaluation ran: a converter that returns the same text for every symbol',
    'r2c_3': 'strengthened from its description before the evaluation ran: run-time edits of the instance alias map / preferred names as opaque extras in C11 histories',
    'r2c_4': 'strengthened from its description before the evaluation ran: label-slice reads on the original before and on the result after reindex',
    'r2c_5': 'strengthened from its description before the evaluation ran: underscore-prefixed and non-ASCII variable names in eval()',
    'r3a_1': 'strengthened from its description before the evaluation ran: tiny value scale (2**-600) in the Solver replay, where a squared difference underflows',
    'r3a_3': 'missed at first (C04 never passed an offset that points outside the span; the empty-endogenous model added from the description was not enough); caught after C04 also requests out-of-span offsets and demands IndexError with nothing changed',
    'r3a_7': 'strengthened from its description before the evaluation ran: a string and a boolean variable in every traced model',
    'r3b_1': 'strengthened from its description before the evaluation ran: long identifiers among the C13 fuzz seeds',
    'r3b_2': 'missed at first (no layout produced a carriage return, no program had a verbatim statement); caught after Script.tla gained verbatim statements (layer vstmt) and the catalogue a CRLF layout',
    'r3b_3': 'strengthened from its description before the evaluation ran: a caller-placed verbatim symbol ahead of the equations in the C15 converter check',
    'r3b_6': 'strengthened from its description before the evaluation ran: long Fortran equations with parenthesised literal groups (continuation lines)',
    'r3b_7': 'missed at first (no token contained significant inner blanks); caught after Script.tla gained verbatim fragments (PushVerb, layer verb) whose text holds runs of blanks and quotes',
    'r3c_3': 'strengthened from its description before the evaluation ran: a tuple with mutable members as the probe attribute of C11 histories',
    'r3c_4': 'strengthened from its description before the evaluation ran: new spans also given in string spelling in the C12 replay',
    'r3c_5': 'strengthened from its description before the evaluation ran: labels with inner blanks in eval() index brackets',
    'r3c_6': 'missed at first (no alias was spelt like an attribute of the class); caught after the attribute-like name map (size, CODE, values, copy) was added to the C18 replay',
    'r3c_7': 'missed at first (class-level variables were always float); caught after Tabular.tla gained models constructed with dtype=int / dtype=bool',
    'r4a_2': 'first evaluation ended in a machinery failure (exit 2: an unguarded ZeroDivisionError of a generated program with a literal zero divisor in the C04 replay, on the unchanged tree too - introduced with the verbatim-statement layer and repaired); caught once the check ran',
    'r4a_3': 'missed at first (NumPy spans were ascending); caught after descending and permuted NumPy spans were added to the C05 replay',
    'r4b_5': 'missed at first (comments of the catalogue held no backtick); caught after the comments layout got backticks',
    'r4b_6': 'missed at first (CODE was compared with the definition text only for default-converter builds); caught after every converter build, and a default build after it, is compared too',
    'r4b_7': 'first evaluation ended in a machinery failure (same unguarded ZeroDivisionError, C20 replay); caught once the check ran',
    'r4c_3': 'missed at first (every operation received a fresh operand object and K-copy added variables from scalars only); caught after equal array operands are one object across operations and K-copy adds a variable from an array on either side',
    'r4c_7': 'missed at first (labels were ascending everywhere); caught after the C19 replay also uses descending and rotated labels for list / NumPy / pandas Index spans',
    'r5a_4': 'missed at first (scripted silent stores involved no arithmetic, so "which operations count as faults" was never probed); caught after every silent store of the scripted model also performs harmless underflowing / inexact NumPy arithmetic',
    'r5a_6': 'missed at first (no period ever accumulated a hundred snapshots); caught after the C17 replay repeats the traced solve until the period holds more than 130 snapshots and compares every repeated segment',
    'r5b_1': 'missed at first (the only namespaced function of the grammar was np.sqrt); caught after layer nsfunc added a user namespace whose functions share their last name component with the replaced ones (vf.exp, vf.max) and mean something else',
    'r5b_3': 'missed at first (every verbatim statement had its own text, and C13 did not look at whole scripts with verbatim statements); caught after the vstmt layer got a verbatim form with identical text and is also run under C13',
    'r5b_5': 'missed at first (verbatim code held no assert); caught after the fenced verbatim form reports its execution from inside an assert',
    'r5b_6': 'missed at first (at most two leaves per equation with verbatim fragments, and not under C20); caught after layer verb3 (three leaves, two fragments around ordinary terms) was added to C01 and C20',
    'r5c_5': 'missed at first (dlog was only run on strictly positive data); caught after a second dlog pass on data with negative, zero and positive elements',
    'r6a_1': 'missed at first (every behaviour ran on a fresh object); caught after the Solver replay gained objects with a history (solved before, every variable re-bound by a sequence assignment)',
    'r6a_2': 'missed at first (C04 only rejected calls through offsets, on unstamped periods); caught after C04 also makes the min_iter > max_iter and pre-existing-non-finite rejections on fresh and on previously stamped periods',
    'r6a_4': 'missed at first (check values never had both signs at the top of the float64 range); caught after the signed-huge value map was added to the Solver replay',
    'r6a_6': 'missed at first (130 snapshots were the longest trace); caught after Tracer got a deterministic deep slice (tol = 0, 2 000 passes) whose traced solve is repeated until the period holds more than 12 000 snapshots',
    'r6a_7': 'missed at first (exponents were single literals); caught after layer fortran_pow3 (quotients of literals in a parenthesised exponent)',
    'r6b_1': 'missed at first (C01 never used the function-like variable names within one process as calls to the same names); caught after the funcnames map was added to C01',
    'r6b_3': 'first missed (no variable was named like an attribute of the model objects), then a machinery failure (BuildError after a successful parse was not classified); caught after the attrnames map and the classification were added',
    'r6b_4': 'missed at first (a statement was never repeated in another layout); caught after that C14 clause was added - which also surfaced the known finding that compact / wide / multiline repetitions are rejected on the pinned tree (KNOWN_FINDINGS.txt); the seeded change fails further layouts (tabs, explicit [0], inner spaces), reported under their own keys',
    'r6b_5': 'missed at first (every converter returned code); caught after converters that return an empty block / a mere comment were added',
    'r6c_1': 'missed at first (near misses concerned class-level variables only); caught after slice K-near (strict mode; near misses of a variable before and after add_variable creates it)',
    'r6c_2': 'missed at first (absent labels of integer spans were other integers); caught after every other record realises an absent label as the string that spells a present one',
    'r6c_6': 'missed at first (period labels never spelt a name of the model); caught after the span kind whose labels are the alias and variable names',
    'r6c_7': 'missed at first (integer data were small); caught after integer cells were moved beyond 2**53',
    'r7a_1': 'missed at first by the snapshot of the machinery (no replay ever made a non-check endogenous variable non-finite); caught after the WNAN variant of the Solver replay',
    'r7a_2': 'missed at first (C04 ran on the Python engine only); caught after the frame condition is also checked on the Fortran engine with non-finite inputs under every errors policy',
    'r7a_3': 'missed at first (no span had negative integer labels); caught after the span kind range(-2, L-2) was added to the C05 replay',
    'r7a_4': 'missed at first (scripted warnings were NumPy RuntimeWarnings only); caught after the UserWarning flavour of warning-raising statements',
    'r7a_5': 'missed at first (a differing span was always one period longer); caught after spans that differ only in an interior label',
    'r7a_6': 'missed at first (the tabular view of a Trace was never looked at); caught after Trace.to_dataframe() is compared with the trace after repeated solves',
    'r7a_7': 'missed at first (no program combined a product, a unary minus and a power); caught after layer fortran_negpow - which also exposed a defect of my own earlier repair (KNOWN_FINDINGS: ebdfce3, bd65fe4)',
    'r7b_1': 'NOT caught, and left so: the change extends the accepted syntax to identifiers outside ASCII (and mishandles those that NFKC-normalise); such names are not part of the documented equation syntax C01 quantifies over, and on the pinned tree a script that uses one on a right-hand side is already accepted and fails at run time, so "accepted implies faithful" cannot be demanded for them without alarming on the unchanged tree',
    'r7b_2': 'missed at first (the default range was only asked of fresh objects); caught after C03 also asks it of the result of reindex() to a longer and a shorter span',
    'r7b_3': 'missed at first (the backslash was not in the alphabet of C13); caught after it joined the class of characters with no role in the splitter',
    'r7b_4': 'missed at first (numeric literals were 2, 0.5, 0.1 ...); caught after layer nums (very small / very large literals, no digit before or after the point, leading zeros)',
    'r7b_5': 'missed at first (CODE was read right after build_model, from the same untouched list); caught after the caller\'s list is emptied before CODE is read and converter calls are counted per build',
    'r7c_1': 'first evaluation ended in a machinery failure (a private cache attribute made the initial projection differ); caught by ContainerTrace (misfit + shape) once private bookkeeping attributes are tolerated',
    'r7c_2': 'missed at first (DatetimeIndex spans were addressed with Timestamps and strings only); caught after the numpy.datetime64 label form',
    'r7c_3': 'first evaluation ended in a machinery failure (the harness could not read a damaged copy); caught once unreadable objects are classified as a disagreement',
    'r7c_4': 'missed at first (a true fill of a boolean series was always spelt True); caught after the spelling 0.5',
    'r7c_5': 'missed at first (integer series were small); caught after a lag / lead / diff pass on integers beyond 2**53',
    'r7c_6': 'missed at first (the alias-headed table was only compared, never read back); caught after a model is rebuilt from it through from_dataframe()',
    'r7c_7': 'missed at first (the table was compared at the moment of export only); caught after the model is written to and the table edited afterwards',
    'c14_b': 'missed at first (comments of the catalogue had balanced brackets); caught after the comments layout got unmatched brackets',
}

rows = []
root = '/verif/seeded'
for name in sorted(os.listdir(root)):
    p = os.path.join(root, name, 'meta.json')
    if not os.path.exists(p):
        continue
    m = json.load(open(p))
    ev = m.get('evaluation', {})
    caught = [c for c, v in ev.get('checks', {}).items() if v.get('rc') == 1]
    keys = []
    for c, v in ev.get('checks', {}).items():
        keys += [k for k, _ in v.get('first_keys', [])[:2]]
    rows.append((name, m.get('property'), m.get('summary', '').replace('\n', ' ').replace('|', '/'), m.get('needs_to_manifest', '').replace('\n', ' ').replace('|', '/'),
                 ', '.join(caught) or ('NOT CAUGHT' if ev else 'not evaluated'), '; '.join(keys)[:160].replace('|', '/'),
                 ev.get('suite_with_patch', '-'), f"{ev.get('demo_with_patch', '-')}/{ev.get('demo_without_patch', '-')}", NOTES.get(name, '')))

with open(os.path.join(root, 'README.md'), 'w') as f:
    f.write('# Independently written breaking changes\n\n')
    f.write('Each directory holds `patch.diff`, `demo.py` (exit 1 with the patch, 0 without) and `meta.json`. The changes were written by\n'
            'fresh sub-agents that saw only the property text and a scratch worktree of the library - nothing from /verif. Each was\n'
            'confirmed on a scratch worktree (patch applies, the repository suite still passes, the demonstration flips) and then the\n'
            'quick check of its property was run against the patched copy (`selftest/seeds.py`; `FSIC_REPO=<copy>`), never against /repo.\n\n')
    f.write('| seed | property | change | needs to manifest | caught by | first finding keys | suite with patch | demo with/without | note |\n|---|---|---|---|---|---|---|---|---|\n')
    for r in rows:
        f.write('| ' + ' | '.join(str(x) for x in r) + ' |\n')
    n = len(rows)
    c = sum(1 for r in rows if r[4] not in ('NOT CAUGHT', 'not evaluated'))
    f.write(f'\n{c} of {n} evaluated changes are caught by the quick tier of the check of their own property'
            + ('.\n' if c == n else ' (see the note of the one that is not).\n'))
    f.write('\nRound 7 (r7*) was first evaluated against a snapshot of the machinery as it stood before any strengthening for that round: '
            '1 of 20 was caught (`first_evaluation` in the meta.json files); the column "caught by" shows the current machinery.\n')
print('written', len(rows))
