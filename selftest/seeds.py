#!/venv/bin/python
"""Confirm and evaluate the independently written breaking changes under /verif/seeded.

For each seeded/<name>/ (patch.diff, demo.py, meta.json): make a scratch copy of /repo (outside /repo and
/verif), confirm that the demonstration passes without the patch, apply the patch, confirm that the
repository's stable test selection still passes and that the demonstration fails, then run the quick check of
the property (FSIC_REPO=<copy>) and record in meta.json whether it raised a VIOLATION.  The scratch copy is
removed afterwards.  usage: selftest/seeds.py [name ...] [--no-suite] [--checks C02,C06]
"""
import json
import os
import shutil
import subprocess
import sys
import tempfile
import time

SUITE = ['tests/test_core.py', 'tests/test_extensions.py', 'tests/test_functions.py', 'tests/test_parser.py', 'tests/test_tools.py',
         '--deselect', 'tests/test_tools.py::TestPandasFunctions::test_dataframe_to_symbols']


def run(cmd, env=None, cwd=None, timeout=7200):
    p = subprocess.run(cmd, env=env, cwd=cwd, capture_output=True, text=True, timeout=timeout)
    return p.returncode, p.stdout + p.stderr


def main():
    args = [a for a in sys.argv[1:] if not a.startswith('--')]
    no_suite = '--no-suite' in sys.argv
    extra_checks = None
    for a in sys.argv[1:]:
        if a.startswith('--checks='):
            extra_checks = a.split('=', 1)[1].split(',')
    verif = os.environ.get('VERIF_ROOT', '/verif')      # a snapshot of /verif may evaluate while /verif itself is being edited
    root = os.path.join(verif, 'seeded')
    for name in sorted(os.listdir(root)):
        if args and name not in args:
            continue
        d = os.path.join(root, name)
        meta = json.load(open(os.path.join(d, 'meta.json')))
        prop = meta['property']
        w = tempfile.mkdtemp(prefix='fsic-seed-')
        try:
            subprocess.run(['git', '-C', '/repo', 'worktree', 'add', '-q', '--detach', w + '/wt', 'HEAD'], check=True)
            wt = w + '/wt'
            env = dict(os.environ, PYTHONPATH=wt, PYTHONDONTWRITEBYTECODE='1')
            env.pop('FSIC_VERIF', None)
            row = {'repo_commit': subprocess.run(['git', '-C', '/repo', 'log', '--format=%h', '-1'], capture_output=True, text=True).stdout.strip()}
            rc0, _ = run(['/venv/bin/python', os.path.join(d, 'demo.py')], env=env, cwd=wt)
            row['demo_without_patch'] = rc0
            rc, out = run(['git', 'apply', os.path.join(d, 'patch.diff')], cwd=wt)
            row['patch_applies'] = rc == 0
            if rc != 0:
                row['apply_error'] = out[-300:]
            else:
                rc1, out1 = run(['/venv/bin/python', os.path.join(d, 'demo.py')], env=env, cwd=wt)
                row['demo_with_patch'] = rc1
                if not no_suite:
                    rcs, outs = run(['/venv/bin/python', '-m', 'pytest', '-q', '-p', 'no:cacheprovider', '--timeout=900', '-q', *SUITE], env=env, cwd=wt)
                    row['suite_with_patch'] = 'pass' if rcs == 0 else f'FAIL rc={rcs}'
                results = {}
                for c in (extra_checks or [prop]):
                    e2 = dict(os.environ, FSIC_REPO=wt, FSIC_VERIF_EVIDENCE=w + '/ev', FSIC_VERIF_REPLAYS=w + '/rp')
                    t0 = time.time()
                    rcc, outc = run([os.path.join(verif, 'check'), c, '--tier', 'quick'], env=e2, cwd=verif)
                    viol = [l for l in outc.splitlines() if l.startswith('VIOLATION')]
                    keys = []
                    try:
                        keys = list(json.load(open(f'{w}/ev/{c}.json'))['coverage']['violation_keys'].items())[:6]
                    except Exception:
                        pass
                    results[c] = {'rc': rcc, 'violation_lines': len(viol), 'first_keys': keys, 'wall_s': round(time.time() - t0, 1)}
                    if rcc == 2:
                        results[c]['tail'] = outc[-500:]
                row['checks'] = results
                row['caught'] = any(v['rc'] == 1 for v in results.values())
            prev = meta.get('evaluation', {})
            if not row.get('patch_applies') and prev.get('patch_applies'):
                # later fix: commits in /repo touched the same lines: the evaluation made at the commit the change was written for stands
                prev['note'] = f"patch no longer applies at {row['repo_commit']}; evaluation kept from {prev.get('repo_commit')}"
                row = prev
            if 'suite_with_patch' not in row and 'suite_with_patch' in prev:
                row['suite_with_patch'] = prev['suite_with_patch']      # confirmed in an earlier evaluation of the same patch
            meta['evaluation'] = row
            json.dump(meta, open(os.path.join(d, 'meta.json'), 'w'), indent=1)
            print(name, json.dumps(row)[:600], flush=True)
        finally:
            subprocess.run(['git', '-C', '/repo', 'worktree', 'remove', '--force', w + '/wt'])
            shutil.rmtree(w, ignore_errors=True)


if __name__ == '__main__':
    main()
