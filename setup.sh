#!/bin/sh
# Offline set-up: nothing to build; check that the tools and the specifications are usable.
cd "$(dirname "$0")" || exit 2
ROOT=$(pwd)
mkdir -p evidence replays
T=$(mktemp -d) || exit 2          # SANY unpacks its library into java.io.tmpdir: keep that out of /tmp proper
trap 'rm -rf "$T"' EXIT
cd spec || exit 2
for m in *.tla; do
  out=$(java -Djava.io.tmpdir="$T" -cp /opt/veriftools/tla/tla2tools.jar:/opt/veriftools/tla/CommunityModules-deps.jar tla2sany.SANY "$m" 2>&1) || { echo "$out"; exit 2; }
  case "$out" in *"*** Errors"*|*"Fatal errors"*) echo "$out"; exit 2;; esac
done
cd "$ROOT" || exit 2
PYTHONPATH=/repo:$ROOT /venv/bin/python -c "import fsic, numpy, pandas, harness.core; print('setup ok', fsic.__version__)" || exit 2
