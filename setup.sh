#!/bin/sh
# Offline set-up: nothing to build; check that the tools and the specifications are usable.
cd "$(dirname "$0")" || exit 2
set -e
mkdir -p evidence replays
for m in spec/*.tla; do
  java -cp /opt/veriftools/tla/tla2tools.jar:/opt/veriftools/tla/CommunityModules-deps.jar tla2sany.SANY "$m" > /tmp/fsic-sany.$$ 2>&1 || { cat /tmp/fsic-sany.$$; rm -f /tmp/fsic-sany.$$; exit 2; }
done
rm -f /tmp/fsic-sany.$$
PYTHONPATH=/repo:$(pwd) /venv/bin/python -c "import fsic, numpy, pandas, harness.core; print('setup ok', fsic.__version__)"
