------------------------------- MODULE Alias -------------------------------
(***************************************************************************)
(* fsic.extensions.AliasMixin (fsic/extensions/common.py:188-347).         *)
(*                                                                         *)
(* Part (a): the operators of the mixin, transcribed from the code         *)
(*   Shorten, Get (= _resolve_alias), PreferredOk, ExportNames             *)
(* next to their declarative counterparts (Resolve = follow the chain in   *)
(* the map as written, Ambiguous, the C18_Export conditions).              *)
(*                                                                         *)
(* Part (b): a twin machine.  An aliased model (side A) and its canonical  *)
(* twin (side C) receive the same container operation; side A is addressed *)
(* through a nondeterministically chosen alias (or the name itself) of the *)
(* target and runs *like the implementation* (look the name up in the      *)
(* shortened dict, then do the container step on whatever came out); side  *)
(* C is addressed by the variable's own name.  The property layer compares *)
(* the two sides and never looks at the shortened dict.                    *)
(*                                                                         *)
(* Names are strings throughout ("V1".. model variables in model order,    *)
(* "a1".. aliases); an alias map is a sequence of <<alias, target>> pairs  *)
(* because dict order decides which alias names a column.  Values: small   *)
(* integers, NaN = 100 (DESIGN section 4).                                 *)
(***************************************************************************)
EXTENDS Integers, Sequences, FiniteSets, TLC

CONSTANTS MaxV,        \* model variables 1..MaxV
          MaxA,        \* alias names a1..aMaxA
          MaxE,        \* entries in ALIASES (aliases + self-maps)
          MaxChain,    \* longest alias chain (hops to the variable)
          MaxOps,      \* length of the operation history
          MaxCtor,     \* constructor keywords
          L,           \* span length
          PrefMode,    \* "all" | "le1" | "none": which PREFERRED_NAMES subsets
          Kinds,       \* operation kinds explored
          OpdsFull, OpdsLabel, OpdsSlice, OpdsRepl, OpdsCtor,  \* operand classes per path
          Labels, Slices, ReadPaths,
          Admit(_, _), \* which sealed maps this run explores (sharding of map slices)
          AdmitOp(_)   \* which first operations this run explores (sharding of history slices)

NaN == 100
VarSeq == <<"V1", "V2", "V3">>
AlSeq  == <<"a1", "a2", "a3", "a4">>
AllNames == VarSeq \o AlSeq
NameIdx(n) == CHOOSE i \in 1..Len(AllNames) : AllNames[i] = n

ASSUME MaxV \in 1..3 /\ MaxA \in 0..4 /\ L = 3

----------------------------------------------------------------------------
(* dicts as sequences of <<key, value>> pairs with distinct keys *)
Keys(m)   == {m[i][1] : i \in DOMAIN m}
Vals(m)   == {m[i][2] : i \in DOMAIN m}
Has(m, k) == \E i \in DOMAIN m : m[i][1] = k
Get(m, k) == IF Has(m, k) THEN m[CHOOSE i \in DOMAIN m : m[i][1] = k][2] ELSE k   \* dict.get(k, k)

(* ---- (a) transcription of common.py:188-213 ---- *)
NotSelf(e)  == e[1] # e[2]
DropSelf(m) == SelectSeq(m, NotSelf)                               \* :211
Subst(m)    == [i \in DOMAIN m |-> <<m[i][1], Get(m, m[i][2])>>]    \* :208 one substitution round (simultaneous)
RECURSIVE Iter(_, _)
Iter(m, fuel) == IF Keys(m) \cap Vals(m) = {} \/ fuel = 0 THEN m   \* :200-201
                 ELSE Iter(Subst(m), fuel - 1)
(* The code runs the loop first and drops `X -> X` afterwards, which never  *)
(* leaves the loop when a self-map is present (keys and values always share *)
(* X).  Specified result: self-maps are simply dropped.                     *)
Shorten(m) == DropSelf(Iter(DropSelf(m), Len(m) + 1))

(* declarative: the variable a name denotes = end of its chain in the map as written *)
RECURSIVE Resolve(_, _)
Resolve(m, n) == IF Has(m, n) /\ Get(m, n) # n THEN Resolve(m, Get(m, n)) ELSE n

RECURSIVE Walk(_, _, _)
Walk(m, n, fuel) == IF Has(m, n) /\ Get(m, n) # n
                      THEN (IF fuel = 0 THEN "?" ELSE Walk(m, Get(m, n), fuel - 1))
                      ELSE n
WellFormed(m, V) == \A k \in Keys(m) : Walk(m, k, MaxChain) \in V    \* acyclic, no dangling alias, chains <= MaxChain

(* common.py:219-233: ValueError iff two preferred names resolve to the same variable *)
PreferredOk(pref, m) == LET sm == Shorten(m) IN \A p, q \in pref : p # q => Get(sm, p) # Get(sm, q)
Ambiguous(pref, m)   == \E p, q \in pref : p # q /\ Resolve(m, p) = Resolve(m, q)

(* common.py:287-347: the column title of variable v.  "!" = ValueError.    *)
(* (In the code the single-alias branch :317-324 does not raise when both   *)
(* the variable and its alias are preferred; that case cannot arise there   *)
(* because __init__ has already rejected it.  Specified: ambiguity is an    *)
(* error wherever it is met.)                                               *)
AliasesTo(sm, v)   == {sm[i][1] : i \in {j \in DOMAIN sm : sm[j][2] = v}}
LastAliasTo(sm, v) == sm[CHOOSE i \in DOMAIN sm : sm[i][2] = v /\ \A j \in DOMAIN sm : sm[j][2] = v => j <= i][1]
ColFor(sm, pref, v) ==
  LET als == AliasesTo(sm, v) IN
  IF als = {} THEN v
  ELSE IF pref = {} THEN LastAliasTo(sm, v)                           \* :298-299 {v: k}: last alias in dict order wins
  ELSE LET inter == (als \cup {v}) \cap pref IN
       IF Cardinality(inter) > 1 THEN "!"                            \* :337-345
       ELSE IF Cardinality(als) = 1
              THEN (IF v \in pref THEN v ELSE CHOOSE x \in als : TRUE) \* :317-324
       ELSE IF inter = {} THEN v                                     \* :331-333
       ELSE CHOOSE x \in inter : TRUE                                \* :334-336
ExportNames(names, m, pref) ==
  LET sm   == Shorten(m)
      cols == [i \in DOMAIN names |-> ColFor(sm, pref, names[i])]
  IN  [err |-> \E i \in DOMAIN cols : cols[i] = "!", cols |-> cols]

----------------------------------------------------------------------------
(* ---- (b) the twin machine ---- *)
VARIABLES pc,       \* "build" | "pref" | "ctor" | "ops" | "done"
          nv,       \* number of model variables
          amap,     \* ALIASES as written
          pref,     \* PREFERRED_NAMES (a set: the code only tests membership and intersections)
          short,    \* side A's `aliases` dict after __init__
          ctorRes,  \* "none" | "ok" | "ValueError"
          ctorKw,   \* the constructor keywords used: sequence of [name, canon, opd]
          sa, sc,   \* the two sides: [vals : var -> Seq, st : Seq, it : Seq, index : Seq, attrs : set]
          outA, outC, \* outcome of the last operation on each side
          hist,     \* operations so far, each with the store the property expects afterwards
          expo      \* result of the export

vars == <<pc, nv, amap, pref, short, ctorRes, ctorKw, sa, sc, outA, outC, hist, expo>>

Names    == SubSeq(VarSeq, 1, nv)
VarSet   == {VarSeq[i] : i \in 1..nv}
AlIds    == {AlSeq[i] : i \in 1..MaxA}
AliasKeys == Keys(amap) \ VarSet
NamesOf(v) == {n \in VarSet \cup AliasKeys : Resolve(amap, n) = v}
NumAliasKeys == Cardinality(Keys(amap) \ VarSet)

NoSide == [vals |-> <<>>, st |-> <<>>, it |-> <<>>, index |-> <<>>, attrs |-> {}]
NoExpo == [err |-> FALSE, cols |-> <<>>, data |-> <<>>]

Init == /\ pc = "build" /\ nv \in 1..MaxV /\ amap = <<>> /\ pref = {} /\ short = <<>>
        /\ ctorRes = "none" /\ ctorKw = <<>> /\ sa = NoSide /\ sc = NoSide
        /\ outA = "none" /\ outC = "none" /\ hist = <<>> /\ expo = NoExpo

(* one more entry of the ALIASES dict; alias names in first-use order *)
AddEntry ==
  /\ pc = "build" /\ Len(amap) < MaxE
  /\ \/ /\ NumAliasKeys < MaxA
        /\ LET k == AlSeq[NumAliasKeys + 1] IN
           \E t \in (VarSet \cup AlIds) \ {k} : amap' = Append(amap, <<k, t>>)
     \/ \E v \in VarSet \ Keys(amap) : amap' = Append(amap, <<v, v>>)      \* self-map
  /\ UNCHANGED <<pc, nv, pref, short, ctorRes, ctorKw, sa, sc, outA, outC, hist, expo>>

Seal ==
  /\ pc = "build" /\ WellFormed(amap, VarSet) /\ Admit(amap, nv)
  /\ pc' = "pref"
  /\ UNCHANGED <<nv, amap, pref, short, ctorRes, ctorKw, sa, sc, outA, outC, hist, expo>>

PrefUniverse == VarSet \cup AliasKeys
PrefChoices  == CASE PrefMode = "all"  -> SUBSET PrefUniverse
                  [] PrefMode = "le1"  -> {{}} \cup {{p} : p \in PrefUniverse}
                  [] OTHER             -> {{}}
ChoosePref ==
  /\ pc = "pref" /\ pref' \in PrefChoices /\ pc' = "ctor"
  /\ UNCHANGED <<nv, amap, short, ctorRes, ctorKw, sa, sc, outA, outC, hist, expo>>

(* operand values: scalar k, scalar NaN, a full list, a list one short *)
Sc(k, d)    == IF d = "n" THEN NaN ELSE k
Lst(k, n)   == [i \in 1..n |-> IF i = 2 THEN NaN ELSE k + i]
Full(k, d)  == IF d \in {"s", "n"} THEN [i \in 1..L |-> Sc(k, d)] ELSE Lst(k, L)
Zeros       == [i \in 1..L |-> 0]

(* constructor keywords: distinct targets, each through any of its names *)
KwEntry(u, v, d) == [name |-> u, canon |-> v, opd |-> d]
RECURSIVE KwSeqs(_)
KwSeqs(n) == IF n = 0 THEN {<<>>}
             ELSE LET S == KwSeqs(n - 1) IN
                  S \cup { Append(s, KwEntry(u, v, d)) :
                             s \in {x \in S : Len(x) = n - 1}, v \in VarSet, u \in VarSet \cup AliasKeys, d \in OpdsCtor }
KwOk(s) == /\ \A i \in DOMAIN s : Resolve(amap, s[i].name) = s[i].canon
           /\ \A i, j \in DOMAIN s : i < j => NameIdx(s[i].canon) < NameIdx(s[j].canon)
CtorChoices == {s \in KwSeqs(MaxCtor) : KwOk(s)}
KwVal(j, d) == Full(6 + 3 * j, d)

(* common.py:188-242 then interfaces.py:39-134 *)
Construct(kw) ==
  /\ pc = "ctor"
  /\ short' = Shorten(amap)                                                       \* :192-213
  /\ ctorKw' = kw
  /\ IF ~PreferredOk(pref, amap)                                                  \* :219-233
       THEN /\ ctorRes' = "ValueError" /\ pc' = "done"
            /\ UNCHANGED <<sa, sc>>
       ELSE /\ ctorRes' = "ok" /\ pc' = "ops"
            /\ LET sm == Shorten(amap)
                   (* :240-242 {self._resolve_alias(k): v}; interfaces.py:129-134 initial_values.get(name, default) *)
                   IniA(v) == IF \E j \in DOMAIN kw : Get(sm, kw[j].name) = v
                                THEN LET j == CHOOSE j \in DOMAIN kw : Get(sm, kw[j].name) = v /\ \A i \in DOMAIN kw : Get(sm, kw[i].name) = v => i <= j
                                     IN KwVal(j, kw[j].opd)
                                ELSE Zeros
                   IniC(v) == IF \E j \in DOMAIN kw : kw[j].canon = v
                                THEN LET j == CHOOSE j \in DOMAIN kw : kw[j].canon = v IN KwVal(j, kw[j].opd)
                                ELSE Zeros
                   Blank   == [vals |-> <<>>, st |-> [i \in 1..L |-> "-"], it |-> [i \in 1..L |-> -1],
                               index |-> <<"status", "iterations">> \o Names, attrs |-> {}]
               IN  /\ sa' = [Blank EXCEPT !.vals = [v \in VarSet |-> IniA(v)]]
                   /\ sc' = [Blank EXCEPT !.vals = [v \in VarSet |-> IniC(v)]]
  /\ UNCHANGED <<nv, amap, pref, outA, outC, hist, expo>>

(* ---- one container operation on one side, the name already looked up ---- *)
(* o = [kind, name, canon, opd, lab, a, b, name2, canon2]; k = step number   *)
Lo(o) == IF o.a = 0 THEN 1 ELSE o.a
Hi(o) == IF o.b = 0 THEN L ELSE o.b
R(s, out, val) == [s |-> s, out |-> out, val |-> val]

(* containers.py:288-303 *)
SetWhole(s, key, d, k) ==
  IF d = "b" THEN R(s, "DimensionError", <<>>)
  ELSE R([s EXCEPT !.vals[key] = Full(k, d)], "ok", <<>>)

StepOn(s, key, key2, o, k) ==
  CASE o.kind = "attr" ->                                             \* common.py:256-257, containers.py:254-303
         IF key \notin VarSet THEN R([s EXCEPT !.attrs = @ \cup {key}], "ok", <<>>)   \* :277-286 becomes a new attribute
         ELSE SetWhole(s, key, o.opd, k)
    [] o.kind = "item" ->                                             \* common.py:268-279, containers.py:426-430
         IF key \notin VarSet THEN R(s, "KeyError", <<>>) ELSE SetWhole(s, key, o.opd, k)
    [] o.kind = "label" ->                                            \* containers.py:452-453
         IF key \notin VarSet THEN R(s, "KeyError", <<>>)
         ELSE R([s EXCEPT !.vals[key][o.lab] = Sc(k, o.opd)], "ok", <<>>)
    [] o.kind = "slice" ->                                            \* containers.py:447-450
         IF key \notin VarSet THEN R(s, "KeyError", <<>>)
         ELSE LET n == Hi(o) - Lo(o) + 1
                  w == IF o.opd = "l" THEN Lst(k, n) ELSE [i \in 1..n |-> Sc(k, o.opd)]
              IN R([s EXCEPT !.vals[key] = [i \in 1..L |-> IF i >= Lo(o) /\ i <= Hi(o) THEN w[i - Lo(o) + 1] ELSE @[i]]], "ok", <<>>)
    [] o.kind = "replace" ->                                          \* containers.py:488-489: item sets in keyword order
         IF key \notin VarSet THEN R(s, "KeyError", <<>>)
         ELSE LET r1 == SetWhole(s, key, o.opd, k) IN
              IF r1.out # "ok" \/ o.name2 = "" THEN r1
              ELSE IF key2 \notin VarSet THEN R(r1.s, "KeyError", <<>>)
              ELSE SetWhole(r1.s, key2, "s", k + 5)
    [] o.kind = "read" ->                                             \* common.py:253-266, containers.py:247-252, 383-417
         IF key \notin VarSet THEN R(s, IF o.opd = "attr" THEN "AttributeError" ELSE "KeyError", <<>>)
         ELSE R(s, "ok", CASE o.opd \in {"attr", "item"} -> s.vals[key]
                           [] o.opd = "label" -> <<s.vals[key][o.lab]>>
                           [] OTHER -> SubSeq(s.vals[key], Lo(o), Hi(o)))
    [] OTHER ->  (* "solve": solve_t(lab) with the equation  name[t] = name2[t] + 1  written through the names *)
         IF key \notin VarSet \/ key2 \notin VarSet THEN R(s, "SolutionError", <<>>)
         ELSE IF \E v \in VarSet : s.vals[v][o.lab] = NaN THEN R(s, "SolutionError", <<>>)    \* models.py:283-293
         ELSE LET new == s.vals[key2][o.lab] + 1 IN
              R([s EXCEPT !.vals[key][o.lab] = new, !.st[o.lab] = ".",
                          !.it[o.lab] = IF s.vals[key][o.lab] = new THEN 1 ELSE 2], "ok", <<>>)

KeyA(n) == IF n = "" THEN "" ELSE Get(short, n)          \* common.py:249-251

W(kind, u, v, d, lab, a, b, u2, v2) ==
  [kind |-> kind, name |-> u, canon |-> v, opd |-> d, lab |-> lab, a |-> a, b |-> b, name2 |-> u2, canon2 |-> v2]

(* pairs of names that denote two different variables *)
NamePairs == {p \in (VarSet \cup AliasKeys) \X (VarSet \cup AliasKeys) : Resolve(amap, p[1]) # Resolve(amap, p[2])}

OpsOf(kind) ==
  IF kind \notin Kinds THEN {} ELSE
  CASE kind = "attr"    -> {W(kind, u, Resolve(amap, u), d, 0, 0, 0, "", "") : u \in VarSet \cup AliasKeys, d \in OpdsFull}
    [] kind = "item"    -> {W(kind, u, Resolve(amap, u), d, 0, 0, 0, "", "") : u \in VarSet \cup AliasKeys, d \in OpdsFull}
    [] kind = "label"   -> {W(kind, u, Resolve(amap, u), d, l, 0, 0, "", "") : u \in VarSet \cup AliasKeys, d \in OpdsLabel, l \in Labels}
    [] kind = "slice"   -> {W(kind, u, Resolve(amap, u), d, 0, s[1], s[2], "", "") : u \in VarSet \cup AliasKeys, d \in OpdsSlice, s \in Slices}
    [] kind = "replace" -> {W(kind, u, Resolve(amap, u), d, 0, 0, 0, "", "") : u \in VarSet \cup AliasKeys, d \in OpdsRepl}
                           \cup {W(kind, p[1], Resolve(amap, p[1]), "s", 0, 0, 0, p[2], Resolve(amap, p[2])) : p \in NamePairs}
    [] kind = "read"    -> {W(kind, u, Resolve(amap, u), p, IF p = "label" THEN 2 ELSE 0, IF p = "slice" THEN 2 ELSE 0,
                              IF p = "slice" THEN 3 ELSE 0, "", "") : u \in VarSet \cup AliasKeys, p \in ReadPaths}
    [] OTHER            -> {W(kind, p[1], Resolve(amap, p[1]), "-", t, 0, 0, p[2], Resolve(amap, p[2])) :
                              p \in NamePairs, t \in {i \in 1..L : \A v \in VarSet : sc.vals[v][i] # NaN}}

CanOp == pc = "ops" /\ Len(hist) < MaxOps
Op(o) ==
  /\ CanOp
  /\ (Len(hist) = 0 => AdmitOp(o))
  /\ LET k  == Len(hist) + 1
         ra == StepOn(sa, KeyA(o.name), KeyA(o.name2), o, k)       \* through the alias, like the implementation
         rc == StepOn(sc, o.canon, o.canon2, o, k)                 \* the same operation on the variable itself
     IN  /\ sa' = ra.s /\ sc' = rc.s /\ outA' = ra.out /\ outC' = rc.out
         /\ hist' = Append(hist, [op |-> o, out |-> rc.out, val |-> rc.val, valA |-> ra.val,
                                  exp |-> [vals |-> rc.s.vals, st |-> rc.s.st, it |-> rc.s.it]])
  /\ UNCHANGED <<pc, nv, amap, pref, short, ctorRes, ctorKw, expo>>

DoAttr    == CanOp /\ \E o \in OpsOf("attr")    : Op(o)
DoItem    == CanOp /\ \E o \in OpsOf("item")    : Op(o)
DoLabel   == CanOp /\ \E o \in OpsOf("label")   : Op(o)
DoSlice   == CanOp /\ \E o \in OpsOf("slice")   : Op(o)
DoReplace == CanOp /\ \E o \in OpsOf("replace") : Op(o)
DoRead    == CanOp /\ \E o \in OpsOf("read")    : Op(o)
DoSolve   == CanOp /\ \E o \in OpsOf("solve")   : Op(o)
DoConstruct == pc = "ctor" /\ \E kw \in CtorChoices : Construct(kw)

(* to_dataframe(use_aliases=True) of side A at the end of the history *)
Export ==
  /\ pc = "ops" /\ Len(hist) = MaxOps
  /\ LET e == ExportNames(Names, amap, pref) IN
       expo' = [err |-> e.err, cols |-> e.cols, data |-> [i \in DOMAIN Names |-> sa.vals[Names[i]]]]
  /\ pc' = "done"
  /\ UNCHANGED <<nv, amap, pref, short, ctorRes, ctorKw, sa, sc, outA, outC, hist>>

Next == AddEntry \/ Seal \/ ChoosePref \/ DoConstruct \/ DoAttr \/ DoItem \/ DoLabel \/ DoSlice \/ DoReplace
        \/ DoRead \/ DoSolve \/ Export

Spec == Init /\ [][Next]_vars
Done == pc = "done"
Built == pc \in {"ops", "done"}

----------------------------------------------------------------------------
(* ---- property layer ---- *)
TypeOK == /\ pc \in {"build", "pref", "ctor", "ops", "done"}
          /\ Len(amap) <= MaxE /\ Len(hist) <= MaxOps
          /\ \A i, j \in DOMAIN amap : i # j => amap[i][1] # amap[j][1]

(* the shortened dict is exactly "every alias points at its variable", in the order written *)
C18_Shorten ==
  Built =>
    /\ Keys(short) \cap Vals(short) = {}
    /\ Keys(short) = AliasKeys /\ Vals(short) \subseteq VarSet
    /\ \A n \in VarSet \cup AliasKeys : Get(short, n) = Resolve(amap, n)
    /\ \A i, j \in DOMAIN short : i < j =>
         (CHOOSE p \in DOMAIN amap : amap[p][1] = short[i][1]) < (CHOOSE p \in DOMAIN amap : amap[p][1] = short[j][1])

(* equal stores and equal outcomes after every step *)
C18_Twin ==
  Built /\ ctorRes = "ok" =>
    /\ sa.vals = sc.vals /\ sa.st = sc.st /\ sa.it = sc.it
    /\ outA = outC
    /\ \A i \in DOMAIN hist : hist[i].val = hist[i].valA

(* aliases are names only *)
C18_NoStorage ==
  Built /\ ctorRes = "ok" =>
    /\ sa.index = <<"status", "iterations">> \o Names /\ sa.index = sc.index
    /\ \A i \in DOMAIN sa.index : sa.index[i] \notin AliasKeys
    /\ sa.attrs = {} /\ DOMAIN sa.vals = VarSet

(* ambiguous preferences are rejected, by the constructor and by the renaming rules alike *)
C18_Ambiguous ==
  (pc \in {"ops", "done"}) =>
    /\ (ctorRes = "ValueError") <=> Ambiguous(pref, amap)
    /\ ExportNames(Names, amap, pref).err <=> Ambiguous(pref, amap)

(* the export is a renaming of the columns and nothing else *)
C18_Export ==
  (Done /\ ctorRes = "ok") =>
    /\ ~expo.err
    /\ Len(expo.cols) = Len(Names) /\ Len(expo.data) = Len(Names)
    /\ \A i \in DOMAIN Names : Resolve(amap, expo.cols[i]) = Names[i]          \* column i still denotes variable i
    /\ \A i, j \in DOMAIN Names : i # j => expo.cols[i] # expo.cols[j]          \* none duplicated
    /\ \A i \in DOMAIN Names : \A p \in pref : Resolve(amap, p) = Names[i] => expo.cols[i] = p   \* preferred name chosen
    /\ \A i \in DOMAIN Names : expo.data[i] = sc.vals[Names[i]]                 \* no data changed
=============================================================================
