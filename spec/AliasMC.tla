------------------------------ MODULE AliasMC ------------------------------
(* Model-checking instances of Alias and the emission of terminal           *)
(* behaviours for replay into the real AliasMixin.                          *)
EXTENDS Alias, Json

CONSTANTS Shard, NShards,   \* partition of the sealed alias maps
          EmitMod            \* emit one terminal behaviour in EmitMod (all are model-checked)

(* alphabets (cfg files cannot hold tuples) *)
AllKinds   == {"attr", "item", "label", "slice", "replace", "read", "solve"}
NoKinds    == {}
DFull      == {"s", "n", "l", "b"}
DFullS     == {"s", "l", "b"}
DScal      == {"s", "n"}
DScal1     == {"s"}
DSlice     == {"s", "l"}
DRepl      == {"s", "l", "b"}
DRepl1     == {"l"}
DCtor      == {"s", "l"}
DCtorN     == {"s", "n", "l"}
Labs       == {1, 2, 3}
Labs1      == {2}
Slcs       == {<<1, 2>>, <<2, 3>>, <<0, 0>>, <<3, 3>>, <<0, 2>>}
Slcs2      == {<<2, 3>>, <<0, 2>>}
Paths      == {"attr", "item", "label", "slice"}
DOneL      == {"l"}
Slcs1      == {<<2, 3>>}
Paths2     == {"attr", "slice"}

CodeOf(n)  == IF n = "" THEN 0 ELSE NameIdx(n)
RECURSIVE MapSum(_, _)
MapSum(m, i) == IF i = 0 THEN 0 ELSE MapSum(m, i - 1) + i * (CodeOf(m[i][1]) + 5 * CodeOf(m[i][2])) + 3 * i * i
MapHash(m, n) == MapSum(m, Len(m)) + 7 * n
AdmitShard(m, n) == MapHash(m, n) % NShards = Shard

AdmitAll(m, n) == TRUE
AdmitOpAll(o) == TRUE

KindSeq == <<"attr", "item", "label", "slice", "replace", "read", "solve">>
KindIdx(k) == CHOOSE i \in 1..7 : KindSeq[i] = k
DSeq == <<"s", "n", "l", "b", "-", "attr", "item", "label", "slice">>
DIdx(d) == CHOOSE i \in 1..9 : DSeq[i] = d
OpCode(o) == 97 * KindIdx(o.kind) + 31 * CodeOf(o.name) + 7 * DIdx(o.opd) + 3 * o.lab + 5 * o.a + 11 * o.b + 13 * CodeOf(o.name2)
AdmitOpShard(o) == (MapHash(amap, nv) + OpCode(o)) % NShards = Shard
RECURSIVE HistSum(_)
HistSum(i) == IF i = 0 THEN 0 ELSE HistSum(i - 1) + (2 * i + 1) * OpCode(hist[i].op)
RECURSIVE KwSum(_)
KwSum(i) == IF i = 0 THEN 0 ELSE KwSum(i - 1) + i * (CodeOf(ctorKw[i].name) + 3 * DIdx(ctorKw[i].opd))
BehHash == HistSum(Len(hist)) + MapHash(amap, nv) + 17 * Cardinality(pref) + KwSum(Len(ctorKw))

ResolveTable == [i \in 1..Len(AllNames) |->
                   <<AllNames[i], IF AllNames[i] \in VarSet \cup AliasKeys THEN Resolve(amap, AllNames[i]) ELSE "">>]

EmitRec == [nv |-> nv, names |-> Names, amap |-> amap, pref |-> pref,
            short |-> short, resolve |-> SelectSeq(ResolveTable, LAMBDA e : e[2] # ""),
            ctor |-> [res |-> ctorRes, kw |-> ctorKw],
            init |-> IF ctorRes = "ok"
                       THEN [vals |-> [v \in VarSet |-> IF \E j \in DOMAIN ctorKw : ctorKw[j].canon = v
                                                          THEN KwVal(CHOOSE j \in DOMAIN ctorKw : ctorKw[j].canon = v,
                                                                     ctorKw[CHOOSE j \in DOMAIN ctorKw : ctorKw[j].canon = v].opd)
                                                          ELSE Zeros]]
                       ELSE [vals |-> <<>>],
            hist |-> hist,
            fin |-> [vals |-> sc.vals, st |-> sc.st, it |-> sc.it, index |-> sc.index],
            export |-> [err |-> expo.err, cols |-> expo.cols, data |-> expo.data]]
EmitInv == (Done /\ BehHash % EmitMod = 0) => PrintT(ToJson(EmitRec))
=============================================================================
