------------------------------ MODULE Container ------------------------------
(***************************************************************************)
(* The labelled container of fsic: VectorContainer (fsic/core/containers.py)*)
(* and its model-level subclasses ModelInterface (fsic/core/interfaces.py), *)
(* BaseModel (fsic/core/models.py) and BaseLinker (fsic/core/linkers.py),   *)
(* as a machine over the PUBLIC operation alphabet, plus the declarative    *)
(* property layer of C09 (length/dtype/atomicity/strict) and C11            *)
(* (independence of copies, siblings and the class).                        *)
(*                                                                         *)
(* The machine states what the PROPERTY demands of every (operation,        *)
(* operand class): accepted with this result / rejected leaving everything  *)
(* unchanged / unconstrained (DESIGN 4, 6.4, 8).  It is not a transcription *)
(* of today's code (which e.g. stores a nested list as a 2-D array).        *)
(*                                                                         *)
(* Values: finite values are small integers; Half = 50 is the fractional    *)
(* witness 2.5; string cells are codes >= 200 (200..202 two-character       *)
(* strings, 210.. status characters); Solve writes opaque tokens 900 + the  *)
(* index of the Solve operation (the binding adopts the code's values for   *)
(* token cells and keeps them bound per (token, variable, period)).         *)
(***************************************************************************)
EXTENDS Integers, Sequences, FiniteSets, TLC

CONSTANTS Inits,           \* set of initial configurations [objs, cls]
          Alphabet(_, _),  \* Alphabet(objs, k): operations offered after k operations
          Budget,          \* number of operations of a history
          MaxObjs          \* bound on the number of live objects

VARIABLES objs,    \* sequence of objects (id = position)
          cls,     \* class-level lists: class -> [NAMES, CHECK, ENDOGENOUS]
          last,    \* outcome of the last operation: "none" | "accepted" | "rejected" | "unconstrained"
          hint,    \* variable named by a strict near-miss rejection ("" = none, "?" = not constrained)
          lastop,  \* the last operation (record)
          prev,    \* [objs, cls] before the last operation (history variable of the property layer)
          nops     \* operations so far

vars == <<objs, cls, last, hint, lastop, prev, nops>>

Half     == 50
StUnsolved == 210
TokenBase == 900
IsToken(v) == v >= TokenBase

RangeOf(s) == {s[i] : i \in 1..Len(s)}
EmptyFn    == [x \in {} |-> 0]
Max2(a, b) == IF a > b THEN a ELSE b

----------------------------------------------------------------------------
(* Operands (DESIGN 4).  cls: Scalar StrScalar List ListM ListP Tuple Range *)
(* Nested1 Nested2 Arr1 Arr1One Arr1P Arr2NN Arr2N1 Arr2X(exact values shape)*)
(* kind: int float half bool str; base: 1..3.                               *)
NoOpd == [cls |-> "none", kind |-> "none", base |-> 0]
Opd(c, k, b) == [cls |-> c, kind |-> k, base |-> b]

Rank(opd) == CASE opd.cls \in {"Scalar", "StrScalar"} -> 0
               [] opd.cls \in {"List", "ListM", "ListP", "Tuple", "Range", "Arr1", "Arr1One", "Arr1P"} -> 1
               [] OTHER -> 2
IsArray(opd) == opd.cls \in {"Arr1", "Arr1One", "Arr1P", "Arr2NN", "Arr2N1", "Arr2X"}
(* shape of the operand for span length L and nv value rows *)
Shape(opd, L, nv) ==
  CASE Rank(opd) = 0 -> <<>>
    [] opd.cls \in {"List", "Tuple", "Range", "Arr1"} -> <<L>>
    [] opd.cls = "ListM" -> <<L - 1>>
    [] opd.cls \in {"ListP", "Arr1P"} -> <<L + 1>>
    [] opd.cls = "Arr1One" -> <<1>>
    [] opd.cls \in {"Nested1", "Arr2N1"} -> <<L, 1>>
    [] opd.cls = "Nested2" -> <<L, 2>>
    [] opd.cls = "Arr2NN" -> <<L, L>>
    [] opd.cls = "Arr2X" -> <<nv, L>>
Total(sh) == IF Len(sh) = 0 THEN 1 ELSE IF Len(sh) = 1 THEN sh[1] ELSE sh[1] * sh[2]
(* j-th element (row-major) of the operand, as a raw value code *)
Elem(opd, j) ==
  CASE opd.kind = "int"   -> opd.base + j - 1
    [] opd.kind = "float" -> opd.base + j
    [] opd.kind = "half"  -> IF j = 1 THEN Half ELSE opd.base + j - 1
    [] opd.kind = "bool"  -> (opd.base + j) % 2
    [] opd.kind = "str"   -> 200 + ((opd.base + j) % 3)
Raw(opd, L, nv) == [shape |-> Shape(opd, L, nv), vals |-> [j \in 1..Total(Shape(opd, L, nv)) |-> Elem(opd, j)]]

(* casting into a series of dtype dt: f float64, i int64, b bool, s str *)
CastOK(kind, dt) == (kind = "str") <=> (dt = "s")
CastV(v, dt) == CASE dt = "i" -> IF v = Half THEN 2 ELSE v      \* float -> int truncates
                  [] dt = "b" -> IF v = 0 THEN 0 ELSE 1
                  [] OTHER    -> v
KindDt(kind) == CASE kind = "int" -> "i" [] kind = "bool" -> "b" [] kind = "str" -> "s" [] OTHER -> "f"
Width(dt) == IF dt = "b" THEN 1 ELSE 8     \* bytes per element (strings are two UCS4 characters)

(***************************************************************************)
(* Does an operand fit m target cells?  "fit" / "reject" / "free".          *)
(* whole and slice (containers.py:288-303, 447-450): a scalar broadcasts, a *)
(* 1-D operand must have exactly m elements, rank >= 2 never fits; a        *)
(* length-1 ARRAY is unconstrained (NumPy broadcasts it, DESIGN 8), and so  *)
(* is any one-element sequence assigned to a label slice.                  *)
(* label (containers.py:452-453): scalars only.                             *)
(* add (containers.py:166-183): documented flatten - total length decides.  *)
(***************************************************************************)
Fit(opd, m, L, path) ==
  LET sh == Shape(opd, L, 0) IN
  CASE Rank(opd) = 0 -> "fit"
    [] path = "label" -> IF opd.cls = "Arr1One" THEN "free" ELSE "reject"
    [] path = "add" -> IF Rank(opd) = 1
                         THEN (IF sh[1] = L THEN "fit" ELSE IF opd.cls = "Arr1One" THEN "free" ELSE "reject")
                         ELSE (IF Total(sh) # L THEN "reject" ELSE IF IsArray(opd) THEN "free" ELSE "fit")
    [] Rank(opd) = 1 -> IF sh[1] = m THEN "fit"
                        ELSE IF opd.cls = "Arr1One" \/ (path = "slice" /\ sh[1] = 1) THEN "free"   \* NumPy broadcasts one element over a slice
                        ELSE "reject"
    [] OTHER -> "reject"
(* the m values an accepted operand delivers *)
Vals(opd, m) == [j \in 1..m |-> IF Rank(opd) = 0 \/ opd.cls = "Arr1One" THEN Elem(opd, 1) ELSE Elem(opd, j)]

----------------------------------------------------------------------------
(* Classes under test (harness/replay_container.py builds exactly these):   *)
(* model  = fsic.build_model(parse_model('Y = 0.5*Y[-1] + X \n C = 0.5*Y')) *)
(* linker = BaseLinker subclass with core variables G (endogenous), H       *)
ClassLists == [container |-> [NAMES |-> <<>>, CHECK |-> <<>>, ENDOGENOUS |-> <<>>],
               model     |-> [NAMES |-> <<"Y", "C", "X">>, CHECK |-> <<"Y", "C">>, ENDOGENOUS |-> <<"Y", "C">>],
               linker    |-> [NAMES |-> <<"G", "H">>, CHECK |-> <<"G">>, ENDOGENOUS |-> <<"G">>]]
EqVars(c)   == IF c = "model" THEN <<"Y", "C">> ELSE IF c = "linker" THEN <<"G">> ELSE <<>>
ExoName(c)  == IF c = "model" THEN "X" ELSE "H"
BaseAttrs   == <<"_attributes", "span", "index", "_strict">>
ClassAttrs(c) == CASE c = "container" -> BaseAttrs
                   [] c = "model"  -> BaseAttrs \o <<"dtype", "names", "lags", "leads", "endogenous", "check", "engine">>
                   [] c = "linker" -> BaseAttrs \o <<"dtype", "names", "lags", "leads", "endogenous", "check">>
Ser(dt, w, v) == [dt |-> dt, w |-> w, v |-> v]
Const(L, x)   == [i \in 1..L |-> x]

(* a freshly constructed object (containers.py:107-127, interfaces.py:39-134, 276-281, *)
(* models.py:72-85, linkers.py:72-129): instance lists are COPIES of the class lists     *)
Fresh(c, L, sub, K) ==
  [class |-> c, L |-> L, strict |-> FALSE, sub |-> sub, uattr |-> EmptyFn,
   attrs |-> ClassAttrs(c),
   index |-> IF c = "container" THEN <<>> ELSE <<"status", "iterations">> \o K[c].NAMES,
   series |-> IF c = "container" THEN EmptyFn
              ELSE [n \in {"status", "iterations"} \cup RangeOf(K[c].NAMES) |->
                      IF n = "status" THEN Ser("s", 4, Const(L, StUnsolved))
                      ELSE IF n = "iterations" THEN Ser("i", 8, Const(L, -1))
                      ELSE Ser("f", 8, Const(L, 0))],
   names |-> K[c].NAMES, check |-> K[c].CHECK, endogenous |-> K[c].ENDOGENOUS,
   lags |-> IF c = "model" \/ (c = "linker" /\ Len(sub) > 0) THEN 1 ELSE 0, leads |-> 0]

(* the object tree owned by o: itself and (two levels of) submodels *)
Subs(O, o)  == RangeOf(O[o].sub)
Owned(O, o) == {o} \cup Subs(O, o) \cup UNION {Subs(O, s) : s \in Subs(O, o)}
Roots(O)    == {o \in 1..Len(O) : \A p \in 1..Len(O) : o \notin Subs(O, p)}
Leaf(O, o)  == \A s \in Subs(O, o) : O[s].sub = <<>>

(* rows of the `values` matrix: index (container) / names (models), containers.py:525-529, interfaces.py:211-214 *)
VNames(ob)  == IF ob.class = "container" THEN ob.index ELSE ob.names
Values(ob)  == [i \in 1..Len(VNames(ob)) |-> ob.series[VNames(ob)[i]].v]
RECURSIVE SumSeq(_, _)
SumSeq(f, n) == IF n = 0 THEN 0 ELSE f[n] + SumSeq(f, n - 1)
OwnSize(ob)   == Len(VNames(ob)) * ob.L
OwnBytes(ob)  == SumSeq([i \in 1..Len(ob.index) |-> ob.L * ob.series[ob.index[i]].w], Len(ob.index))
Size(O, o)    == SumSeq([i \in 1..Len(O) |-> IF i \in Owned(O, o) THEN OwnSize(O[i]) ELSE 0], Len(O))     \* linkers.py:131-142
NBytes(O, o)  == SumSeq([i \in 1..Len(O) |-> IF i \in Owned(O, o) THEN OwnBytes(O[i]) ELSE 0], Len(O))    \* linkers.py:144-149

----------------------------------------------------------------------------
(* Operations: one uniformly shaped record per public operation *)
Op0 == [op |-> "none", o |-> 0, n |-> "", opd |-> NoOpd, dt |-> "", pos |-> 0, a |-> 0, b |-> 0,
        names |-> <<>>, opds |-> <<>>, which |-> "", route |-> "", lg |-> 0, ld |-> 0]
AddVariable(o, n, opd, dt) == [Op0 EXCEPT !.op = "AddVariable", !.o = o, !.n = n, !.opd = opd, !.dt = dt]
SetAttr(o, n, opd)         == [Op0 EXCEPT !.op = "SetAttr", !.o = o, !.n = n, !.opd = opd]
SetItem(o, n, opd)         == [Op0 EXCEPT !.op = "SetItem", !.o = o, !.n = n, !.opd = opd]
SetLabel(o, n, pos, opd)   == [Op0 EXCEPT !.op = "SetLabel", !.o = o, !.n = n, !.pos = pos, !.opd = opd]
SetSlice(o, n, a, b, opd)  == [Op0 EXCEPT !.op = "SetSlice", !.o = o, !.n = n, !.a = a, !.b = b, !.opd = opd]
SetPos(o, n, i, opd)       == [Op0 EXCEPT !.op = "SetPos", !.o = o, !.n = n, !.pos = i, !.opd = opd]
ReplaceValues(o, ns, os)   == [Op0 EXCEPT !.op = "ReplaceValues", !.o = o, !.names = ns, !.opds = os]
SetValues(o, opd)          == [Op0 EXCEPT !.op = "SetValues", !.o = o, !.opd = opd]
AddAttribute(o, n)         == [Op0 EXCEPT !.op = "AddAttribute", !.o = o, !.n = n, !.opd = Opd("Scalar", "int", 3)]
ToggleStrict(o)            == [Op0 EXCEPT !.op = "ToggleStrict", !.o = o]
Copy(o, route)             == [Op0 EXCEPT !.op = "Copy", !.o = o, !.route = route]
NewSibling(o)              == [Op0 EXCEPT !.op = "NewSibling", !.o = o]      \* a new instance of o's class
MutateList(o, which)       == [Op0 EXCEPT !.op = "MutateList", !.o = o, !.which = which]
SetLagsLeads(o, lg, ld)    == [Op0 EXCEPT !.op = "SetLagsLeads", !.o = o, !.lg = lg, !.ld = ld]
Solve(o)                   == [Op0 EXCEPT !.op = "Solve", !.o = o]

(* near-miss attribute names and the variable each is meant to be (closest under any edit metric) *)
NearOf(n) == CASE n = "Ff" -> "F" [] n = "Yy" -> "Y" [] n = "Gg" -> "G" [] n = "Nn" -> "N" [] OTHER -> ""
Candidates(ob) == IF ob.class = "container" THEN RangeOf(ob.index) ELSE RangeOf(ob.names)   \* containers.py:226-227, interfaces.py:201-202

----------------------------------------------------------------------------
(* Effects.  Res(out, hint, S): outcome class, hint, and the set S of legal  *)
(* successor object sequences (more than one only when unconstrained).      *)
Res(out, h, S) == [out |-> out, hint |-> h, br |-> S]
Rejected(O)    == Res("rejected", "", {O})
Put(O, o, ob)  == [O EXCEPT ![o] = ob]

(* write operand opd into the cells ps (sequence of 1-based positions) of variable n *)
WriteObj(ob, n, ps, opd) ==
  LET s == ob.series[n]
      m == Len(ps)
      x == Vals(opd, m)
  IN  [ob EXCEPT !.series[n].v = [i \in 1..ob.L |->
         IF \E k \in 1..m : ps[k] = i THEN CastV(x[CHOOSE k \in 1..m : ps[k] = i], s.dt) ELSE s.v[i]]]
WriteRes(O, o, n, ps, opd, path) ==
  LET ob  == O[o]
      fit == Fit(opd, Len(ps), ob.L, path)
  IN  IF fit = "reject" THEN Rejected(O)
      ELSE IF ~CastOK(opd.kind, ob.series[n].dt) THEN Res("unconstrained", "", {O})   \* str <-> number: the property is silent
      ELSE IF fit = "free" THEN Res("unconstrained", "", {O, Put(O, o, WriteObj(ob, n, ps, opd))})
      ELSE Res("accepted", "", {Put(O, o, WriteObj(ob, n, ps, opd))})
All(L) == [i \in 1..L |-> i]

(* containers.py:254-303 *)
EffSetAttr(O, op) ==
  LET ob == O[op.o] IN
  IF op.n \in RangeOf(ob.index) THEN WriteRes(O, op.o, op.n, All(ob.L), op.opd, "whole")
  ELSE IF ob.strict /\ op.n \notin RangeOf(ob.attrs)
    THEN Res("rejected", IF NearOf(op.n) \in Candidates(ob) THEN NearOf(op.n) ELSE "?", {O})
  ELSE IF op.n \in RangeOf(ob.attrs)
    THEN Res("accepted", "", {Put(O, op.o, [ob EXCEPT !.uattr = [k \in DOMAIN ob.uattr |-> IF k = op.n THEN op.opd ELSE ob.uattr[k]]])})
  ELSE Res("accepted", "", {Put(O, op.o, [ob EXCEPT !.attrs = Append(@, op.n), !.uattr = @ @@ (op.n :> op.opd)])})

(* containers.py:129-142 *)
EffAddAttribute(O, op) ==
  LET ob == O[op.o] IN
  IF op.n \in RangeOf(ob.index) \cup RangeOf(ob.attrs) THEN Rejected(O)
  ELSE Res("accepted", "", {Put(O, op.o, [ob EXCEPT !.attrs = Append(@, op.n), !.uattr = @ @@ (op.n :> op.opd)])})

(* containers.py:419-456 *)
EffSetItem(O, op) ==
  LET ob == O[op.o] IN
  IF op.n \notin RangeOf(ob.index) THEN Rejected(O)
  ELSE WriteRes(O, op.o, op.n, All(ob.L), op.opd, "whole")
EffSetLabel(O, op) ==      \* label = 100 + position on a range span; an absent label is a position outside the span
  LET ob == O[op.o] IN
  IF op.n \notin RangeOf(ob.index) \/ op.pos \notin 0..(ob.L - 1) THEN Rejected(O)
  ELSE WriteRes(O, op.o, op.n, <<op.pos + 1>>, op.opd, "label")
EffSetSlice(O, op) ==      \* inclusive label slice a..b
  LET ob == O[op.o] IN
  IF op.n \notin RangeOf(ob.index) \/ op.a \notin 0..(ob.L - 1) \/ op.b \notin 0..(ob.L - 1) THEN Rejected(O)
  ELSE WriteRes(O, op.o, op.n, [k \in 1..(op.b - op.a + 1) |-> op.a + k], op.opd, "slice")
EffSetPos(O, op) ==        \* obj.X[i] = v  (NumPy in-place store on the series itself)
  LET ob == O[op.o] IN
  IF op.n \notin RangeOf(ob.index) \/ op.pos \notin 0..(ob.L - 1) THEN Rejected(O)
  ELSE WriteRes(O, op.o, op.n, <<op.pos + 1>>, op.opd, "label")

(* containers.py:144-186, interfaces.py:136-166 *)
EffAddVariable(O, op) ==
  LET ob  == O[op.o]
      fit == Fit(op.opd, ob.L, ob.L, "add")
      dt  == IF op.dt # "" THEN op.dt ELSE IF ob.class = "container" THEN KindDt(op.opd.kind) ELSE "f"
      new == [ob EXCEPT !.index = Append(@, op.n),
                        !.series = @ @@ (op.n :> Ser(dt, Width(dt), [j \in 1..ob.L |-> CastV(Vals(op.opd, ob.L)[j], dt)])),
                        !.names = IF ob.class = "container" THEN @ ELSE Append(@, op.n)]
  IN  IF op.n \in RangeOf(ob.index) \/ fit = "reject" THEN Rejected(O)
      ELSE IF ~CastOK(op.opd.kind, dt) THEN Res("unconstrained", "", {O})
      ELSE IF fit = "free" THEN Res("unconstrained", "", {O, Put(O, op.o, new)})
      ELSE Res("accepted", "", {Put(O, op.o, new)})

(* containers.py:458-489: a loop of item assignments; a single name is a single-variable assignment, *)
(* several names with a bad one are unconstrained beyond the invariants (bulk is not atomic)         *)
GoodItem(ob, n, opd) == n \in RangeOf(ob.index) /\ Fit(opd, ob.L, ob.L, "whole") = "fit" /\ CastOK(opd.kind, ob.series[n].dt)
RECURSIVE ApplyItems(_, _, _, _)
ApplyItems(ob, ns, os, k) == IF k = 0 THEN ob ELSE WriteObj(ApplyItems(ob, ns, os, k - 1), ns[k], All(ob.L), os[k])
EffReplaceValues(O, op) ==
  LET ob   == O[op.o]
      K    == Len(op.names)
      bad  == {k \in 1..K : ~GoodItem(ob, op.names[k], op.opds[k])}
      nOK  == IF bad = {} THEN K ELSE (CHOOSE k \in bad : \A j \in bad : k <= j) - 1
  IN  IF bad = {} THEN Res("accepted", "", {Put(O, op.o, ApplyItems(ob, op.names, op.opds, K))})
      ELSE IF K = 1 THEN (IF op.names[1] \in RangeOf(ob.index) /\ Fit(op.opds[1], ob.L, ob.L, "whole") # "reject"
                            THEN Res("unconstrained", "", {O}) ELSE Rejected(O))
      ELSE Res("unconstrained", "", {O, Put(O, op.o, ApplyItems(ob, op.names, op.opds, nOK))})

(* containers.py:531-562, interfaces.py:216-247.  `obj.values = x` first passes __setattr__:  *)
(* 'values' is recorded as an attribute on the first accepted assignment; under strict and    *)
(* before that the outcome is unconstrained (DESIGN 8)                                        *)
EffSetValues(O, op) ==
  LET ob   == O[op.o]
      vn   == VNames(ob)
      sh   == Shape(op.opd, ob.L, Len(vn))
      okSh == Rank(op.opd) = 0 \/ (Rank(op.opd) = 2 /\ IsArray(op.opd) /\ sh = <<Len(vn), ob.L>>)
      okDt == \A i \in 1..Len(vn) : CastOK(op.opd.kind, ob.series[vn[i]].dt)
      cell(i, j) == CastV(IF Rank(op.opd) = 0 THEN Elem(op.opd, 1) ELSE Elem(op.opd, (i - 1) * ob.L + j), ob.series[vn[i]].dt)
      rowOf(n)   == CHOOSE i \in 1..Len(vn) : vn[i] = n
      filled     == [ob EXCEPT !.series = [n \in DOMAIN ob.series |->
                        IF n \in RangeOf(vn) THEN [ob.series[n] EXCEPT !.v = [j \in 1..ob.L |-> cell(rowOf(n), j)]] ELSE ob.series[n]]]
      noted      == IF "values" \in RangeOf(ob.attrs) THEN filled ELSE [filled EXCEPT !.attrs = Append(@, "values")]
  IN  IF ~okSh THEN Rejected(O)
      ELSE IF ~okDt THEN Res("unconstrained", "", {O})
      ELSE IF ob.strict /\ "values" \notin RangeOf(ob.attrs) THEN Res("unconstrained", "", {O, Put(O, op.o, filled)})
      ELSE Res("accepted", "", {Put(O, op.o, noted)})

(* containers.py:515-522 (the property setter is reached through __setattr__, which records 'strict') *)
EffToggleStrict(O, op) ==
  LET ob == O[op.o] IN
  Res("accepted", "", {Put(O, op.o, [ob EXCEPT !.strict = ~@,
                                               !.attrs = IF "strict" \in RangeOf(@) THEN @ ELSE Append(@, "strict")])})

(* containers.py:494-503, linkers.py:161-183: a new tree equal to the source, sharing nothing *)
Renumber(O, o, x) == Len(O) + Cardinality({y \in Owned(O, o) : y <= x})
EffCopy(O, op) ==
  LET S   == Owned(O, op.o)
      n   == Cardinality(S)
      src(i) == CHOOSE x \in S : Renumber(O, op.o, x) = Len(O) + i
      new == [i \in 1..n |-> [O[src(i)] EXCEPT !.sub = [k \in 1..Len(@) |-> Renumber(O, op.o, @[k])]]]
  IN  Res("accepted", "", {O \o new})

(* a second instance of the same class (and, for a linker, fresh submodel instances) *)
EffNewSibling(O, K, op) ==
  LET S   == Owned(O, op.o)
      n   == Cardinality(S)
      src(i) == CHOOSE x \in S : Renumber(O, op.o, x) = Len(O) + i
      new == [i \in 1..n |-> Fresh(O[src(i)].class, O[src(i)].L,
                                   [k \in 1..Len(O[src(i)].sub) |-> Renumber(O, op.o, O[src(i)].sub[k])], K)]
  IN  Res("accepted", "", {O \o new})

(* in-place mutation of an instance list: m.names.append(..), m.check.append(..), m.endogenous.append(..) *)
ListElem(ob, which) == IF which = "names" THEN "iterations" ELSE ExoName(ob.class)
EffMutateList(O, op) ==
  LET ob == O[op.o]
      e  == ListElem(ob, op.which)
  IN  Res("accepted", "", {Put(O, op.o,
        CASE op.which = "names" -> [ob EXCEPT !.names = Append(@, e)]
          [] op.which = "check" -> [ob EXCEPT !.check = Append(@, e)]
          [] op.which = "endogenous" -> [ob EXCEPT !.endogenous = Append(@, e)])})

EffSetLagsLeads(O, op) == Res("accepted", "", {Put(O, op.o, [O[op.o] EXCEPT !.lags = op.lg, !.leads = op.ld])})

(* solve() is opaque: it may change the equation variables, status and iterations of the solved *)
(* periods (lags .. L-1-leads, interfaces.py:310-324) of THAT object tree and nothing else       *)
Solved(ob, tok, first, lastp) ==
  [ob EXCEPT !.series = [n \in DOMAIN ob.series |->
     IF n \in RangeOf(EqVars(ob.class)) \cup {"status", "iterations"}
       THEN [ob.series[n] EXCEPT !.v = [i \in 1..ob.L |-> IF i >= first /\ i <= lastp THEN tok ELSE @[i]]]
       ELSE ob.series[n]]]
EffSolve(O, op, k) ==
  LET ob == O[op.o]
      S  == Owned(O, op.o)
  IN  Res("accepted", "", {[i \in 1..Len(O) |-> IF i \in S THEN Solved(O[i], TokenBase + k, ob.lags + 1, ob.L - ob.leads) ELSE O[i]]})

Eff(O, K, op, k) ==
  CASE op.op = "AddVariable"   -> EffAddVariable(O, op)
    [] op.op = "SetAttr"       -> EffSetAttr(O, op)
    [] op.op = "SetItem"       -> EffSetItem(O, op)
    [] op.op = "SetLabel"      -> EffSetLabel(O, op)
    [] op.op = "SetSlice"      -> EffSetSlice(O, op)
    [] op.op = "SetPos"        -> EffSetPos(O, op)
    [] op.op = "ReplaceValues" -> EffReplaceValues(O, op)
    [] op.op = "SetValues"     -> EffSetValues(O, op)
    [] op.op = "AddAttribute"  -> EffAddAttribute(O, op)
    [] op.op = "ToggleStrict"  -> EffToggleStrict(O, op)
    [] op.op = "Copy"          -> EffCopy(O, op)
    [] op.op = "NewSibling"    -> EffNewSibling(O, K, op)
    [] op.op = "MutateList"    -> EffMutateList(O, op)
    [] op.op = "SetLagsLeads"  -> EffSetLagsLeads(O, op)
    [] op.op = "Solve"         -> EffSolve(O, op, k)

(* which operations make sense in a state (everything else is simply not offered) *)
Legal(O, op) ==
  /\ op.o \in 1..Len(O)
  /\ op.op \in {"Copy", "NewSibling"} => Len(O) + Cardinality(Owned(O, op.o)) <= MaxObjs
  /\ op.op = "MutateList" => O[op.o].class # "container" /\ ListElem(O[op.o], op.which) \notin
        RangeOf(CASE op.which = "names" -> O[op.o].names [] op.which = "check" -> O[op.o].check [] OTHER -> O[op.o].endogenous)
  /\ op.op = "SetLagsLeads" => O[op.o].class # "container" /\ op.lg + op.ld + 1 <= O[op.o].L
  /\ op.op = "Solve" => O[op.o].class # "container" /\ Leaf(O, op.o) /\ O[op.o].lags + O[op.o].leads + 1 <= O[op.o].L
                        /\ (O[op.o].class = "linker" => Len(O[op.o].sub) > 0)
  /\ op.op = "SetSlice" => op.a <= op.b
  /\ op.op = "SetValues" => Len(VNames(O[op.o])) > 0

Do(op) ==
  /\ nops < Budget
  /\ Legal(objs, op)
  /\ LET r == Eff(objs, cls, op, nops + 1) IN
       /\ \E no \in r.br : objs' = no
       /\ last' = r.out /\ hint' = r.hint
  /\ cls' = cls
  /\ lastop' = op
  /\ prev' = [objs |-> objs, cls |-> cls]
  /\ nops' = nops + 1

(* One disjunct for the whole alphabet: TLC re-evaluates (and normalises) the alphabet set once per   *)
(* disjunct, so fifteen per-operation disjuncts cost a factor five; which operations were taken is  *)
(* measured from the emitted histories instead of from TLC's action coverage.                       *)
Offered == Alphabet(objs, nops)

Init == \E c \in Inits :
          /\ objs = c.objs /\ cls = c.cls /\ last = "none" /\ hint = "" /\ lastop = Op0
          /\ prev = [objs |-> c.objs, cls |-> c.cls] /\ nops = 0

Next == nops < Budget /\ \E op \in Offered : Do(op)     \* budget first: no alphabet is built in terminal states

Spec == Init /\ [][Next]_vars
Done == nops = Budget

----------------------------------------------------------------------------
(***************************************************************************)
(* Property layer.  Stated over (prev, lastop, objs): what the property     *)
(* text says about ANY operation with these features, not how Eff got there.*)
(***************************************************************************)
DTs == {"f", "i", "b", "s"}

(* C09: every series is 1-D with one element per period and the dtype it was created with;  *)
(* `values` is the stack in declaration order; `size` is its element count                   *)
WellFormed(ob) ==
  /\ DOMAIN ob.series = RangeOf(ob.index)
  /\ Cardinality(RangeOf(ob.index)) = Len(ob.index)
  /\ \A n \in RangeOf(ob.index) : Len(ob.series[n].v) = ob.L /\ ob.series[n].dt \in DTs
  /\ RangeOf(VNames(ob)) \subseteq RangeOf(ob.index)
  /\ Len(Values(ob)) = Len(VNames(ob))
  /\ \A i \in 1..Len(VNames(ob)) : Len(Values(ob)[i]) = ob.L
  /\ OwnSize(ob) = Len(Values(ob)) * ob.L
KeepsDtype(old, new) ==
  \A n \in RangeOf(old.index) : n \in RangeOf(new.index) /\ new.series[n].dt = old.series[n].dt /\ new.series[n].w = old.series[n].w
C09_Shape ==
  /\ \A o \in 1..Len(objs) : WellFormed(objs[o])
  /\ \A o \in 1..Len(prev.objs) : KeepsDtype(prev.objs[o], objs[o]) /\ objs[o].L = prev.objs[o].L
  /\ \A o \in 1..Len(prev.objs) : \A i \in 1..Len(prev.objs[o].index) : objs[o].index[i] = prev.objs[o].index[i]

(* "cannot fit": wrong length, wrong rank, unknown name, duplicate name (DESIGN 8) *)
WrongLength(opd, m, L) == Rank(opd) = 1 /\ Shape(opd, L, 0)[1] # m /\ ~(IsArray(opd) /\ Shape(opd, L, 0)[1] = 1)
WrongRank(opd)         == Rank(opd) >= 2
MustReject(O, op) ==
  LET ob == O[op.o]
      known == op.n \in RangeOf(ob.index)
  IN CASE op.op \in {"SetItem"} -> ~known \/ WrongLength(op.opd, ob.L, ob.L) \/ WrongRank(op.opd)
       [] op.op = "SetAttr" -> known /\ (WrongLength(op.opd, ob.L, ob.L) \/ WrongRank(op.opd))
       [] op.op = "SetLabel" -> ~known \/ op.pos \notin 0..(ob.L - 1) \/ (Rank(op.opd) >= 1 /\ op.opd.cls # "Arr1One")
       [] op.op = "SetSlice" -> ~known \/ op.a \notin 0..(ob.L - 1) \/ op.b \notin 0..(ob.L - 1)
                                \/ (WrongLength(op.opd, op.b - op.a + 1, ob.L) /\ Shape(op.opd, ob.L, 0)[1] # 1) \/ WrongRank(op.opd)
                                   \* (a one-element sequence of any class broadcasts over a label slice: unconstrained, as in EffSetSlice)
       [] op.op = "AddVariable" -> known \/ (Total(Shape(op.opd, ob.L, 0)) # ob.L /\ Rank(op.opd) >= 1 /\ op.opd.cls # "Arr1One")
       [] op.op = "ReplaceValues" -> Len(op.names) = 1 /\ (op.names[1] \notin RangeOf(ob.index)
                                       \/ WrongLength(op.opds[1], ob.L, ob.L) \/ WrongRank(op.opds[1]))
       [] OTHER -> FALSE
C09_Atomic ==
  nops > 0 =>
    /\ (MustReject(prev.objs, lastop) => last = "rejected")
    /\ (last = "rejected" => objs = prev.objs /\ cls = prev.cls)

(* strict: no assignment creates an attribute; a near-miss names the closest variable; *)
(* updates of existing names and add_variable keep working                              *)
Assignments == {"SetAttr", "SetItem", "SetLabel", "SetSlice", "SetPos", "ReplaceValues", "SetValues", "AddVariable"}
C09_Strict ==
  (nops > 0 /\ lastop.op \in Assignments /\ prev.objs[lastop.o].strict) =>
    LET old == prev.objs[lastop.o]
        new == objs[lastop.o]
        fresh == lastop.n \notin RangeOf(old.index) \cup RangeOf(old.attrs)
    IN /\ new.attrs = old.attrs
       /\ (lastop.op = "SetAttr" /\ fresh) =>
             /\ last = "rejected"
             /\ (NearOf(lastop.n) \in Candidates(old) => hint = NearOf(lastop.n))
       /\ (lastop.op = "SetAttr" /\ lastop.n \in RangeOf(old.index) /\ Rank(lastop.opd) = 0
             /\ CastOK(lastop.opd.kind, old.series[lastop.n].dt)) => (last = "accepted" /\ new.series[lastop.n].v = Const(old.L, CastV(Elem(lastop.opd, 1), old.series[lastop.n].dt)))
       /\ (lastop.op = "AddVariable" /\ lastop.n \notin RangeOf(old.index) /\ Rank(lastop.opd) = 0
             /\ lastop.dt = "") => (last # "rejected" /\ (last = "accepted" => lastop.n \in RangeOf(new.index)))

(* C11: every operation changes only its target object tree; a Copy / NewSibling only adds *)
(* objects, equal to / freshly initialised like the source; the class lists never change   *)
C11_Indep ==
  [][/\ cls' = cls
     /\ \A p \in 1..Len(objs) : p \notin Owned(objs, lastop'.o) => objs'[p] = objs[p]
     /\ lastop'.op \in {"Copy", "NewSibling"} => \A p \in 1..Len(objs) : objs'[p] = objs[p]
     /\ lastop'.op \notin {"Copy", "NewSibling"} => Len(objs') = Len(objs)]_vars
(* the same as a state predicate over the history variable (usable with -simulate) *)
C11_Frame ==
  nops > 0 =>
    /\ cls = prev.cls
    /\ \A p \in 1..Len(prev.objs) : (p \notin Owned(prev.objs, lastop.o) \/ lastop.op \in {"Copy", "NewSibling"}) => objs[p] = prev.objs[p]
    /\ lastop.op = "Copy" =>
         LET n == Cardinality(Owned(prev.objs, lastop.o)) IN
         /\ Len(objs) = Len(prev.objs) + n
         /\ [objs[Len(prev.objs) + 1] EXCEPT !.sub = <<>>] = [prev.objs[lastop.o] EXCEPT !.sub = <<>>]
         /\ \A p \in (Len(prev.objs) + 1)..Len(objs) : \A s \in Subs(objs, p) : s > Len(prev.objs)
    /\ lastop.op = "NewSibling" =>
         /\ objs[Len(prev.objs) + 1].names = cls[objs[Len(prev.objs) + 1].class].NAMES
         /\ objs[Len(prev.objs) + 1].check = cls[objs[Len(prev.objs) + 1].class].CHECK
         /\ objs[Len(prev.objs) + 1].endogenous = cls[objs[Len(prev.objs) + 1].class].ENDOGENOUS
         /\ \A p \in (Len(prev.objs) + 1)..Len(objs) : \A s \in Subs(objs, p) : s > Len(prev.objs)
C11_ClassFixed == \A c \in DOMAIN cls : cls[c] = ClassLists[c]

TypeOK == /\ last \in {"none", "accepted", "rejected", "unconstrained"}
          /\ nops \in 0..Budget
          /\ Len(objs) <= MaxObjs
          /\ \A o \in 1..Len(objs) : objs[o].class \in {"container", "model", "linker"} /\ \A s \in Subs(objs, o) : s \in 1..Len(objs) /\ s # o
=============================================================================
