----------------------------- MODULE ContainerMC -----------------------------
(* Model-checking slices of Container (K-ops, K-hist, K-copy, simulation) and *)
(* the emission of one JSON record per terminal history: the operations with  *)
(* their operands and, after EVERY operation, the expected projection of all  *)
(* objects and of the class-level lists plus the expected outcome class.      *)
EXTENDS Container, Json

CONSTANTS Slice,     \* "ops" | "hist" | "copy" | "sim" | "opsx" | "simx" | "near"
          Kinds,     \* initial configurations explored: subset of {"container", "hist2", "model", "linker", "nested"}
          SpanL,     \* span length
          Shard, NShards,
          ShardAt,   \* the shard constraint applies to the operation taken after ShardAt operations
          Extras     \* TRUE: the alphabets include Copy, NewSibling, MutateList, SetLagsLeads, Solve (C11); FALSE: C09's alphabet

VARIABLES hist,      \* sequence of [op, out, hint, objs, cls]: the emitted history
          init0      \* projection of the initial objects

----------------------------------------------------------------------------
(* initial configurations *)
WithVar(ob, n, dt, v) == [ob EXCEPT !.index = Append(@, n), !.series = @ @@ (n :> Ser(dt, Width(dt), v))]
Container0(nv) ==
  LET c0 == Fresh("container", SpanL, <<>>, ClassLists)
      c1 == WithVar(c0, "F", "f", [i \in 1..SpanL |-> i + 4])
      c2 == WithVar(c1, "I", "i", [i \in 1..SpanL |-> i + 5])
      c3 == WithVar(c2, "B", "b", [i \in 1..SpanL |-> i % 2])
      c4 == WithVar(c3, "S", "s", [i \in 1..SpanL |-> 200 + (i % 3)])
  IN  IF nv = 4 THEN c4 ELSE c2
Model0(x0) == [Fresh("model", SpanL, <<>>, ClassLists) EXCEPT !.series["X"].v = [i \in 1..SpanL |-> i + x0]]
Linker0(sub) == Fresh("linker", SpanL, sub, ClassLists)
ObjsOf(kind) ==
  CASE kind = "container" -> <<Container0(4)>>
    [] kind = "hist2"     -> <<Container0(2)>>
    [] kind = "model"     -> <<Model0(0)>>
    [] kind = "linker"    -> <<Linker0(<<2, 3>>), Model0(0), Model0(1)>>
    [] kind = "nested"    -> <<Linker0(<<2, 3>>), Model0(0), Linker0(<<4>>), Model0(1)>>
MCInits == {[objs |-> ObjsOf(k), cls |-> ClassLists] : k \in Kinds}

----------------------------------------------------------------------------
(* operand universes *)
Kinds5 == {"int", "float", "half", "bool", "str"}
SeqClasses == {"List", "ListM", "ListP", "Tuple", "Nested1", "Nested2", "Arr1", "Arr1One", "Arr1P", "Arr2NN", "Arr2N1"}
Scalars == {Opd("Scalar", k, 2) : k \in {"int", "float", "half", "bool"}} \cup {Opd("StrScalar", "str", 1)}
OpdU    == Scalars \cup {Opd(c, k, 1) : c \in SeqClasses, k \in Kinds5} \cup {Opd("Range", "int", 1)}
SInt  == Opd("Scalar", "int", 2)
SHalf == Opd("Scalar", "half", 2)
(* the six classes that change the outcome (K-hist), int except where the kind matters *)
OpdH  == {SInt, SHalf, Opd("List", "int", 1), Opd("List", "half", 1), Opd("ListM", "int", 1),
          Opd("Nested2", "int", 1), Opd("Arr1One", "int", 3), Opd("Arr2N1", "int", 1)}

Targets(ob) == RangeOf(ob.index) \cap (CASE ob.class = "container" -> {"F", "I", "B", "S"}
                                          [] ob.class = "model" -> {"Y", "iterations"}
                                          [] OTHER -> {"G", "iterations"})
NearName(ob) == CASE ob.class = "container" -> "Ff" [] ob.class = "model" -> "Yy" [] OTHER -> "Gg"
DtsFor(kind) == IF kind = "str" THEN {"", "s"} ELSE {"", "i", "f"}
Routes == {"copy", "copy.copy", "deepcopy"}
LagLead(L) == {p \in {<<1, 0>>, <<2, 0>>, <<1, 1>>} : p[1] + p[2] + 1 <= L}

ModelOnly(O, o) ==
  IF O[o].class = "container" \/ ~Extras THEN {}
  ELSE {MutateList(o, w) : w \in {"names", "check", "endogenous"}}
       \cup {SetLagsLeads(o, p[1], p[2]) : p \in LagLead(O[o].L)} \cup {Solve(o)}

(* the full alphabet on object o *)
FullOps(O, o) ==
  LET ob == O[o]
      L  == ob.L
      T  == Targets(ob)
  IN  {SetAttr(o, n, x) : n \in T, x \in OpdU}
      \cup {SetAttr(o, n, SInt) : n \in {"note", NearName(ob), "Zq"}}
      \cup {SetItem(o, n, x) : n \in T, x \in OpdU} \cup {SetItem(o, "Q", SInt), SetItem(o, "Q", Opd("List", "int", 1))}
      \cup {SetLabel(o, n, 1, x) : n \in T, x \in OpdU}
      \cup {SetLabel(o, n, L, SInt) : n \in T} \cup {SetLabel(o, "Q", 1, SInt), SetLabel(o, "attributes", 0, SInt)}
      \cup {SetSlice(o, n, 0, 1, x) : n \in T, x \in OpdU} \cup {SetSlice(o, n, 0, L - 1, x) : n \in T, x \in OpdU}
      \cup {SetSlice(o, n, 1, L, SInt) : n \in T} \cup {SetSlice(o, "Q", 0, 1, SInt), SetSlice(o, "attributes", 0, L - 1, Opd("List", "int", 1))}
      \cup {SetPos(o, n, i, x) : n \in T, i \in {0, L - 1}, x \in Scalars}
      \cup {AddVariable(o, "N", p[1], p[2]) : p \in {q \in OpdU \X {"", "i", "f", "s"} : q[2] \in DtsFor(q[1].kind)}}
      \cup {AddVariable(o, n, SInt, "") : n \in T} \cup {AddVariable(o, "N", SHalf, "b")}
      \cup {ReplaceValues(o, <<n>>, <<x>>) : n \in T, x \in {SHalf, Opd("List", "int", 1), Opd("ListM", "int", 1), Opd("Nested2", "int", 1)}}
      \cup {ReplaceValues(o, <<"Q">>, <<SInt>>)}
      \cup {ReplaceValues(o, <<p[1], p[2]>>, <<SHalf, y>>) : p \in {q \in T \X T : q[1] # q[2]}, y \in {Opd("List", "int", 1), Opd("ListP", "int", 1)}}
      \cup {ReplaceValues(o, <<n1, "Q">>, <<SHalf, SInt>>) : n1 \in T}
      \cup {SetValues(o, x) : x \in Scalars \cup {Opd(c, k, 1) : c \in {"Arr2X", "Arr2NN", "Arr2N1", "Arr1"}, k \in {"int", "half", "bool", "str"}}}
      \cup {AddAttribute(o, "note")} \cup {AddAttribute(o, n) : n \in T}
      \cup {ToggleStrict(o)} \cup (IF Extras THEN {Copy(o, r) : r \in Routes} \cup {NewSibling(o)} ELSE {})
      \cup ModelOnly(O, o)

(* K-ops: structurally different states reachable in one operation, then everything once *)
PrefixOps(O, o) ==
  LET ob == O[o]
      t  == CHOOSE n \in Targets(ob) : n \in {"I", "iterations"}
  IN  {ToggleStrict(o), AddVariable(o, "N", SHalf, "i"), AddAttribute(o, "note"), SetAttr(o, "note", Opd("List", "int", 1)),
       SetAttr(o, t, SHalf), SetValues(o, SInt), AddVariable(o, "Nn", Opd("StrScalar", "str", 1), "")}
      \cup (IF Extras THEN {Copy(o, "copy"), NewSibling(o)} ELSE {}) \cup ModelOnly(O, o)

(* K-hist: reduced alphabet, two variables *)
HistOps(O, o) ==
  LET ob == O[o]
      T2 == RangeOf(ob.index) \cap {"F", "I", "Y", "iterations", "G"}
      ti == CHOOSE n \in T2 : ob.series[n].dt = "i"
  IN  {SetAttr(o, n, x) : n \in T2, x \in OpdH} \cup {SetAttr(o, "note", SInt)}
      \cup {SetItem(o, ti, x) : x \in {Opd("List", "half", 1), Opd("Nested2", "int", 1)}} \cup {SetItem(o, "Q", SInt)}
      \cup {SetLabel(o, ti, p, x) : p \in {1, ob.L}, x \in {SHalf, Opd("List", "int", 1)}}
      \cup {SetSlice(o, ti, 0, 1, x) : x \in {SHalf, Opd("ListM", "int", 2), Opd("List", "int", 2), Opd("Arr1One", "int", 3)}}
      \cup {AddVariable(o, "N", x, dt) : x \in {SHalf}, dt \in {"i"}}
      \cup {AddVariable(o, "N", x, "") : x \in {Opd("List", "int", 2), Opd("ListM", "int", 1), Opd("Nested2", "int", 1), Opd("Arr1One", "int", 3)}}
      \cup {ReplaceValues(o, <<p[1], p[2]>>, <<SHalf, y>>) : p \in {q \in T2 \X T2 : q[1] # q[2]}, y \in {Opd("ListP", "int", 1)}}
      \cup {SetValues(o, x) : x \in {SHalf, Opd("Arr2X", "half", 1), Opd("Arr2N1", "int", 1)}}
      \cup {SetPos(o, ti, 0, SHalf)} \cup {AddAttribute(o, "note"), ToggleStrict(o)}

(* K-hist at depth >= 4: the operations that change the state or are the named rejections *)
HistOps4(O, o) ==
  LET ob == O[o]
      T2 == RangeOf(ob.index) \cap {"F", "I", "Y", "iterations", "G"}
      ti == CHOOSE n \in T2 : ob.series[n].dt = "i"
  IN  {SetAttr(o, n, x) : n \in T2, x \in {SHalf, Opd("List", "int", 1), Opd("ListM", "int", 1), Opd("Nested2", "int", 1), Opd("Arr1One", "int", 3)}}
      \cup {SetAttr(o, "note", SInt), SetItem(o, ti, Opd("Nested2", "int", 1)), SetLabel(o, ti, 1, SHalf), SetLabel(o, ti, ob.L, SHalf),
            SetSlice(o, ti, 0, 1, Opd("ListM", "int", 2)), AddVariable(o, "N", SHalf, "i"), AddVariable(o, "N", Opd("ListM", "int", 1), ""),
            SetValues(o, SHalf), SetValues(o, Opd("Arr2N1", "int", 1)), SetPos(o, ti, 0, SHalf), AddAttribute(o, "note"), ToggleStrict(o)}
      \cup {ReplaceValues(o, <<p[1], p[2]>>, <<SHalf, Opd("ListP", "int", 1)>>) : p \in {q \in T2 \X T2 : q[1] # q[2] /\ O[o].series[q[1]].dt = "f"}}

(* K-copy: mutations applied to either side of one copy / sibling taken at any point *)
MutOps(O, o) ==
  LET ob == O[o]
      T  == Targets(ob)
      Ti == {n \in T : ob.series[n].dt = "i"}
      Tf == {n \in T : ob.series[n].dt = "f"}
  IN  UNION {{SetAttr(o, tf, SHalf), SetLabel(o, tf, 1, SInt), SetPos(o, tf, 0, SInt), SetValues(o, SInt),
              ReplaceValues(o, <<tf>>, <<Opd("Arr1", "float", 2)>>)} : tf \in Tf}
      \cup UNION {{SetItem(o, ti, Opd("List", "int", 2)), SetSlice(o, ti, 0, 1, SHalf)} : ti \in Ti}
      \cup {AddVariable(o, "N", SHalf, "i"), AddVariable(o, "N", Opd("Arr1", "float", 2), ""), AddAttribute(o, "note"), SetAttr(o, "memo", Opd("List", "int", 1)), ToggleStrict(o)}
      \cup ModelOnly(O, o)
SubMutOps(O, s) == {SetAttr(s, "Y", SHalf), SetPos(s, "X", 0, SInt), MutateList(s, "check"), AddVariable(s, "N", SInt, "")}
NoCopyYet(O) == Len(O) = Cardinality(Owned(O, 1))
CopyOps(O)   == {Copy(1, r) : r \in Routes} \cup {NewSibling(1)}
AllMut(O)    == UNION {MutOps(O, o) : o \in Roots(O)}
                \cup UNION {SubMutOps(O, s) : s \in {x \in 1..Len(O) : x \notin Roots(O) /\ O[x].class = "model"}}

AllCopies(O) == UNION {{Copy(o, r) : r \in Routes} \cup {NewSibling(o)} : o \in Roots(O)}
MCAlphabet(O, k) ==
  CASE Slice = "ops"  -> IF k = 0 THEN PrefixOps(O, 1) ELSE UNION {FullOps(O, o) : o \in Roots(O)}
    [] Slice = "hist" -> IF Budget >= 4 THEN HistOps4(O, 1) ELSE HistOps(O, 1)
    [] Slice = "copy" -> IF NoCopyYet(O) THEN (IF k = Budget - 1 THEN CopyOps(O) ELSE AllMut(O) \cup CopyOps(O)) ELSE AllMut(O)
       (* K-near: strict mode; near misses of a variable before and after it is added at run time *)
    [] Slice = "near" -> IF k = 0 THEN {ToggleStrict(1)}
                         ELSE {SetAttr(1, "Nn", SInt), SetAttr(1, NearName(O[1]), SInt), AddVariable(1, "N", SHalf, "i"), AddVariable(1, "N", SInt, "")}
    [] Slice = "opsx" -> IF k = 0 THEN PrefixOps(O, 1) ELSE AllMut(O) \cup AllCopies(O)      \* C11: independence-relevant operations only
    [] Slice = "simx" -> LET S == {op \in AllMut(O) \cup AllCopies(O) : Legal(O, op)}
                         IN  IF S = {} THEN {} ELSE {RandomElement(S)}
    [] Slice = "sim"  -> LET S == {op \in UNION {FullOps(O, o) : o \in Roots(O)} : Legal(O, op)}     \* -simulate: one random legal
                         IN  IF S = {} THEN {} ELSE {RandomElement(S)}                               \* operation per step (TLC would
                                                                                                      \* otherwise build every successor)

----------------------------------------------------------------------------
(* sharding: a numeric code of the operation taken after ShardAt operations *)
OpNum(x) == CASE x = "AddVariable" -> 1 [] x = "SetAttr" -> 2 [] x = "SetItem" -> 3 [] x = "SetLabel" -> 4 [] x = "SetSlice" -> 5
              [] x = "SetPos" -> 6 [] x = "ReplaceValues" -> 7 [] x = "SetValues" -> 8 [] x = "AddAttribute" -> 9 [] x = "ToggleStrict" -> 10
              [] x = "Copy" -> 11 [] x = "NewSibling" -> 12 [] x = "MutateList" -> 13 [] x = "SetLagsLeads" -> 14 [] x = "Solve" -> 15 [] OTHER -> 0
ClsNum  == [none |-> 0, Scalar |-> 1, StrScalar |-> 2, List |-> 3, ListM |-> 4, ListP |-> 5, Tuple |-> 6, Range |-> 7, Nested1 |-> 8,
            Nested2 |-> 9, Arr1 |-> 10, Arr1One |-> 11, Arr1P |-> 12, Arr2NN |-> 13, Arr2N1 |-> 14, Arr2X |-> 15]
KindNum == [none |-> 0, int |-> 1, float |-> 2, half |-> 3, bool |-> 4, str |-> 5]
NameNum(n) == CASE n = "F" -> 1 [] n = "I" -> 2 [] n = "B" -> 3 [] n = "S" -> 4 [] n = "Y" -> 5 [] n = "G" -> 6
                [] n = "iterations" -> 7 [] n = "N" -> 8 [] n = "Q" -> 9 [] n = "note" -> 10 [] n = "X" -> 11 [] OTHER -> 0
Code(op) == OpNum(op.op) + 3 * op.o + 5 * NameNum(op.n) + 7 * ClsNum[op.opd.cls] + 11 * KindNum[op.opd.kind] + 13 * op.opd.base
            + 17 * op.pos + 19 * op.a + 23 * op.b + 29 * Len(op.names) + 31 * Len(op.which) + 37 * Len(op.route) + 41 * op.lg + 43 * op.ld
            + 47 * Len(op.dt)

----------------------------------------------------------------------------
(* emission *)
ProjObj(O, o) == [size |-> Size(O, o), nbytes |-> NBytes(O, o), vrows |-> VNames(O[o]), values |-> Values(O[o]),
                  uraw |-> [n \in DOMAIN O[o].uattr |-> Raw(O[o].uattr[n], O[o].L, 0)]] @@ O[o]
ProjAll(O)    == [o \in 1..Len(O) |-> ProjObj(O, o)]
EmitOp(O, op) == [elem |-> IF op.op = "MutateList" THEN ListElem(O[op.o], op.which) ELSE "",
                  raw |-> IF op.opd = NoOpd THEN <<>> ELSE Raw(op.opd, O[op.o].L, Len(VNames(O[op.o]))),
                  raws |-> [i \in 1..Len(op.opds) |-> Raw(op.opds[i], O[op.o].L, 0)]] @@ op

MCInit == Init /\ hist = <<>> /\ init0 = ProjAll(objs)
MCNext == /\ Next
          /\ (nops = ShardAt => Code(lastop') % NShards = Shard)
          /\ hist' = Append(hist, [op |-> EmitOp(objs, lastop'), out |-> last', hint |-> hint', objs |-> ProjAll(objs'), cls |-> cls'])
          /\ UNCHANGED init0
MCSpec == MCInit /\ [][MCNext]_<<vars, hist, init0>>

EmitRec == [slice |-> Slice, init |-> init0, cls0 |-> ClassLists, steps |-> hist]
EmitInv == Done => PrintT(ToJson(EmitRec))
=============================================================================
