--------------------------- MODULE ContainerTrace ---------------------------
(***************************************************************************)
(* code -> spec for the container operations (C09; the copy clause of C11, *)
(* the reindex clause of C12).                                             *)
(*                                                                         *)
(* With FSIC_VERIF=1 FSIC_VERIF_OPS=1 every outermost public container     *)
(* operation of a real execution (the repository's own tests, random       *)
(* drivers) emits one `c_op` event: operation, target name(s), the shape   *)
(* class of the operand, the outcome, and the digest of the object before  *)
(* and after it - per variable (in declaration order) its name, dtype,     *)
(* rank, length and a hash of its contents, plus span length, strictness   *)
(* and the attribute list; copy / reindex add the digest of the result.    *)
(*                                                                         *)
(* Container.tla is the machine over abstract operands that TLC explores   *)
(* and the replay drives through the code.  Arbitrary recorded operands    *)
(* (any value, any dtype) have no counterpart in its finite alphabets, so  *)
(* this module states the part of the same property that is independent of *)
(* the operand's VALUE - what C09 says about shapes, dtypes, order, atomic *)
(* rejection and strictness - as a relation between the digests of one     *)
(* event, and TLC evaluates it on every recorded event.  The clauses are   *)
(* named; a rejected event is reported with the clauses it fails.          *)
(***************************************************************************)
EXTENDS Integers, Sequences, FiniteSets, TLC, Json, IOUtils

Log == JsonDeserialize(IOEnv.TRACE_FILE)
N   == Len(Log)

VARIABLES l, bad
tvars == <<l, bad>>

NameSet(d)  == {d.vars[i].n : i \in 1..Len(d.vars)}
AttrSet(d)  == {d.attrs[i] : i \in 1..Len(d.attrs)}
Name1(e)    == IF Len(e.names) >= 1 THEN e.names[1] ELSE ""

(* "every variable remains a one-dimensional array with exactly one element per period" *)
ShapeOK(d)  == \A i \in 1..Len(d.vars) : d.vars[i].ndim = 1 /\ d.vars[i].len = d.L
Unique(d)   == \A i, j \in 1..Len(d.vars) : i # j => d.vars[i].n # d.vars[j].n
WellFormed(d) == ShapeOK(d) /\ Unique(d)
(* "... and the dtype it was created with", "declaration order" *)
Kept(a, b)  == /\ Len(b.vars) >= Len(a.vars)
               /\ \A i \in 1..Len(a.vars) : b.vars[i].n = a.vars[i].n /\ b.vars[i].dt = a.vars[i].dt
SameData(a, b) == a.vars = b.vars /\ a.L = b.L         \* names, dtypes, shapes and content hashes
Failed(e)   == e.exc # "none"

IsAssign1(e) == e.op \in {"add_variable", "setattr", "setitem"}          \* a single-variable assignment
WholeSeries(e) == \/ e.op = "add_variable"
                  \/ (e.op = "setattr" /\ Name1(e) \in NameSet(e.pre))
                  \/ (e.op = "setitem" /\ ~e.sub /\ Name1(e) \in NameSet(e.pre))

Duplicate(e) == e.op = "add_variable" /\ Name1(e) \in NameSet(e.pre)
Unknown(e)   == e.op = "setitem" /\ Name1(e) \notin NameSet(e.pre)
(* wrong length: a flat sequence / array whose length is not the span's (a one-element array broadcasts: unconstrained) *)
Misfit(e)    == /\ WholeSeries(e) /\ e.opd.cls \in {"seq", "array"} /\ e.opd.ndim = 1 /\ e.opd.len # e.pre.L
                /\ ~(e.opd.cls = "array" /\ e.opd.len = 1)

Clauses == <<"shape", "kept", "grow", "atomic", "strict", "duplicate", "unknown", "misfit", "copy", "reindex">>

Holds(c, e) ==
  CASE c = "shape"     -> WellFormed(e.post)
    [] c = "kept"      -> Kept(e.pre, e.post) /\ e.post.L = e.pre.L
    [] c = "grow"      -> IF e.op = "add_variable" /\ ~Failed(e)
                            THEN Len(e.post.vars) = Len(e.pre.vars) + 1 /\ e.post.vars[Len(e.post.vars)].n = Name1(e)
                            ELSE Len(e.post.vars) = Len(e.pre.vars)
       (* "a single-variable assignment that cannot fit ... raises and leaves every series unchanged" *)
       (* (a value that cannot be cast to the series' dtype is not among the causes the property lists: unconstrained) *)
    [] c = "atomic"    -> (Failed(e) /\ IsAssign1(e) /\ (Misfit(e) \/ Duplicate(e) \/ Unknown(e) \/ e.opd.ndim >= 2)) => SameData(e.pre, e.post)
       (* "with strict=True no assignment can create a new non-variable attribute" *)
    [] c = "strict"    -> (e.op = "setattr" /\ e.pre.strict /\ Name1(e) # "strict"
                           /\ Name1(e) \notin NameSet(e.pre) /\ Name1(e) \notin AttrSet(e.pre))
                          => (Failed(e) /\ e.post.attrs = e.pre.attrs)
    [] c = "duplicate" -> Duplicate(e) => Failed(e)
    [] c = "unknown"   -> Unknown(e) => Failed(e)
    [] c = "misfit"    -> Misfit(e) => Failed(e)
       (* C11: a copy is an object of the same class, equal to the original, and the original is untouched *)
    [] c = "copy"      -> (e.op = "copy" /\ ~Failed(e))
                          => /\ e.hasres /\ ~e.resself /\ e.rescls = e.cls
                             /\ SameData(e.pre, e.res) /\ e.res.attrs = e.pre.attrs /\ e.res.strict = e.pre.strict
                             /\ SameData(e.pre, e.post)
       (* C12: same class, names, order and dtypes; one element per new period; the original unchanged *)
    [] c = "reindex"   -> (e.op = "reindex" /\ ~Failed(e))
                          => /\ e.hasres /\ ~e.resself /\ e.rescls = e.cls
                             /\ Len(e.res.vars) = Len(e.pre.vars) /\ Kept(e.pre, e.res) /\ WellFormed(e.res)
                             /\ SameData(e.pre, e.post)

(* an event is judged when the object was well formed before it (tests that poke the storage directly are not judged) *)
Fails(e) == IF WellFormed(e.pre) THEN SelectSeq(Clauses, LAMBDA c : ~Holds(c, e)) ELSE <<>>

TraceInit == l = 1 /\ bad = <<>>
TraceNext == /\ l <= N
             /\ l' = l + 1
             /\ bad' = IF Fails(Log[l]) = <<>> THEN bad ELSE Append(bad, [i |-> l, seq |-> Log[l].seq, why |-> Fails(Log[l])])
TraceSpec == TraceInit /\ [][TraceNext]_tvars

Done    == l = N + 1
EmitInv == Done => PrintT(ToJson([consumed |-> l - 1, of |-> N, bad |-> bad]))
=============================================================================
