---------------------------- MODULE LabelAccess ----------------------------
(***************************************************************************)
(* Label-based access to one fsic.core.VectorContainer (property C10).     *)
(*                                                                         *)
(* State: the stored values of the container's variables (name id ->       *)
(* sequence over positions).  The actions are the access paths of          *)
(* containers.py:247-456, written with the TRANSCRIBED lookup operators of *)
(* Span.tla (Locate, ResolveSlice, PySlice); the property layer C10_xxx is   *)
(* stated with the DECLARATIVE ones (Pos, SliceSet) and never looks at     *)
(* what an action computed on its way.                                     *)
(*                                                                         *)
(* A behaviour is: MaxW writes, then a set of reads chosen by the model-    *)
(* checking module (ReadAll); the full set is every label on every         *)
(* variable and every (start, stop, step).                                 *)
(***************************************************************************)
EXTENDS Span, TLC

CONSTANTS Cfgs,     \* set of [span, kind]: the containers explored
          Names,    \* variable ids, 1..K
          Labels,   \* exact label ids used in operations (present and absent ones)
          MaxW      \* number of writes in a history

VARIABLES cfg,     \* [span, kind], constant along a behaviour
          store,   \* name -> sequence of values
          prev,    \* store before the last operation   (history variable of the property layer)
          last,    \* the last operation and how it ended (ditto)
          log,     \* sequence of [op, store]: every operation with the store it must leave
          pc,      \* "write" | "done"
          reads    \* [labels, slices]: expected result of every read, filled by ReadAll

vars == <<cfg, store, prev, last, log, pc, reads>>

L    == Len(cfg.span)
SP   == cfg.span
KD   == cfg.kind

InitVal(n, i) == 20 * (n - 1) + i

MkOp(op, n, a, b, s, i, sc, v, exc) ==
  [op |-> op, n |-> n, a |-> a, b |-> b, s |-> s, i |-> i, sc |-> sc, v |-> v, exc |-> exc]
NoOp == MkOp("none", 0, 0, 0, 0, 0, TRUE, <<>>, "none")

(* coarse labels can be used as slice ends where the span type understands them *)
CoarseOK(c) == c.kind = "get_loc" /\ Sorted(c.span)
Ends(c)     == {None} \cup Labels \cup (IF CoarseOK(c) THEN CoarseLabels ELSE {})

Init ==
  \E c \in Cfgs :
    /\ cfg = c
    /\ store = [n \in Names |-> [i \in 1..Len(c.span) |-> InitVal(n, i)]]
    /\ prev = [n \in Names |-> [i \in 1..Len(c.span) |-> InitVal(n, i)]]
    /\ last = NoOp
    /\ log = <<>>
    /\ pc = "write"
    /\ reads = [labels |-> {}, slices |-> {}]

Step(o, st) ==
  /\ prev' = store
  /\ store' = st
  /\ last' = o
  /\ log' = Append(log, [op |-> o, store |-> st])
  /\ UNCHANGED <<cfg, pc, reads>>

CanWrite == pc = "write" /\ Len(log) < MaxW

(* obj[name, label] = v      containers.py:434-454 (locate at :452, store at :453) *)
SetLabel(n, l, v) ==
  /\ CanWrite
  /\ LET loc == Locate(SP, KD, l) IN
     /\ loc.t \in {"err", "int"}
     /\ IF loc.t = "err"
          THEN Step(MkOp("setlabel", n, l, 0, 0, 0, TRUE, <<v>>, "KeyError"), store)    \* :318-321 / :324-327
          ELSE Step(MkOp("setlabel", n, l, 0, 0, 0, TRUE, <<v>>, "none"), [store EXCEPT ![n][loc.lo] = v])

(* obj[name, a:b:s] = v      containers.py:447-450.  sc: v is a scalar (broadcast); otherwise *)
(* v is a sequence of exactly the slice's length, base+1, base+2, ...                        *)
SetSlice(n, a, b, s, sc, base) ==
  /\ CanWrite
  /\ LET r == ResolveSlice(SP, KD, a, b, s) IN
     /\ r.t \in {"err", "ok"}
     /\ IF r.t = "err"
          THEN Step(MkOp("setslice", n, a, b, s, 0, sc, <<base + 1>>, "KeyError"), store)
          ELSE LET idx == PySlice(L, r.start, r.stop, r.step)                  \* values[start:stop:step]
                   v   == IF sc THEN <<base + 1>> ELSE [k \in 1..Len(idx) |-> base + k]
               IN  Step(MkOp("setslice", n, a, b, s, 0, sc, v, "none"),
                        [store EXCEPT ![n] =
                           [i \in 1..L |->
                              IF \E k \in 1..Len(idx) : idx[k] = i
                                THEN (IF sc THEN v[1] ELSE v[CHOOSE k \in 1..Len(idx) : idx[k] = i])
                                ELSE @[i]]])

(* obj.X[i] = v / obj['X'][i] = v: in place on the array handed out by __getattr__ (containers.py:247-250, 383-388) *)
SetPos(n, i, v) ==
  /\ CanWrite
  /\ i \in 1..L
  /\ Step(MkOp("setpos", n, 0, 0, 0, i, TRUE, <<v>>, "none"), [store EXCEPT ![n][i] = v])

(* obj.X = [..]: a sequence of the span's length replaces the array (containers.py:288-300) *)
SetAttr(n, vec) ==
  /\ CanWrite
  /\ Len(vec) = L
  /\ Step(MkOp("setattr", n, 0, 0, 0, 0, FALSE, vec, "none"), [store EXCEPT ![n] = vec])

(* obj['X'] = [..]: containers.py:426-430, delegates to __setattr__ *)
SetItem(n, vec) ==
  /\ CanWrite
  /\ Len(vec) = L
  /\ Step(MkOp("setitem", n, 0, 0, 0, 0, FALSE, vec, "none"), [store EXCEPT ![n] = vec])

(* obj[name, label]          containers.py:414-415.   <<n, l, raised?, value>> *)
GetLabel(n, l) ==
  LET loc == Locate(SP, KD, l) IN
  IF loc.t = "err" THEN <<n, l, 1, 0>> ELSE <<n, l, 0, store[n][loc.lo]>>

(* obj[name, a:b:s]          containers.py:410-412.   <<n, a, b, s, raised?, values>> *)
GetSlice(n, a, b, s) ==
  LET r == ResolveSlice(SP, KD, a, b, s) IN
  IF r.t # "ok" THEN <<n, a, b, s, 1, <<>>>>
  ELSE LET idx == PySlice(L, r.start, r.stop, r.step)
       IN  <<n, a, b, s, 0, [k \in 1..Len(idx) |-> store[n][idx[k]]]>>

(* a set of reads: `lbls` is a set of <<n, l>>, `slcs` a set of <<n, a, b, s>>; the MC module *)
(* chooses them (the full set: every label on every variable, every (start, stop, step))      *)
ReadAll(lbls, slcs) ==
  /\ pc = "write" /\ Len(log) = MaxW
  /\ reads' = [labels |-> {GetLabel(x[1], x[2]) : x \in lbls},
               slices |-> {GetSlice(x[1], x[2], x[3], x[4]) : x \in slcs}]
  /\ pc' = "done"
  /\ UNCHANGED <<cfg, store, prev, last, log>>

Done == pc = "done"

----------------------------------------------------------------------------
(* Property layer (C10), declarative: Pos / SliceSet / StartPos / StopPos only *)

LabelsOK(o) ==
  CASE o.op = "setlabel" -> Present(Pos(SP, o.a))
    [] o.op = "setslice" -> SliceDefined(SP, KD, o.a, o.b)
    [] OTHER -> TRUE

Target(o) ==
  CASE o.op = "setlabel" -> IF Present(Pos(SP, o.a)) THEN {Pos(SP, o.a)} ELSE {}
    [] o.op = "setslice" -> IF SliceDefined(SP, KD, o.a, o.b) THEN SliceSet(SP, KD, o.a, o.b, o.s) ELSE {}
    [] o.op = "setpos"   -> {o.i}
    [] o.op \in {"setattr", "setitem"} -> 1..L
    [] OTHER -> {}

Rank(T, i) == Cardinality({j \in T : j <= i})

Written(o, T, i) ==
  CASE o.op \in {"setlabel", "setpos"} -> o.v[1]
    [] o.op = "setslice" -> IF o.sc THEN o.v[1] ELSE o.v[Rank(T, i)]
    [] OTHER -> o.v[i]

TypeOK == /\ \A n \in Names : Len(store[n]) = L /\ Len(prev[n]) = L
          /\ Distinct(SP)
          /\ Len(log) <= MaxW

(* a write changes exactly the cells the labels denote, and puts the written value there *)
C10_Exact ==
  last.op # "none" =>
    LET T == Target(last) IN
    /\ \A n \in Names : \A i \in 1..L : (n # last.n \/ i \notin T) => store[n][i] = prev[n][i]
    /\ \A i \in T : store[last.n][i] = Written(last, T, i)
    /\ (last.op = "setslice" /\ ~last.sc /\ LabelsOK(last)) => Len(last.v) = Cardinality(T)

(* a label that is not in the span: KeyError, nothing changed; and only then *)
C10_Absent ==
  last.op # "none" =>
    /\ (last.exc = "KeyError") <=> ~LabelsOK(last)
    /\ last.exc \in {"none", "KeyError"}
    /\ ~LabelsOK(last) => store = prev

(* what was written through any path is read back through every other path *)
C10_ReadBack ==
  (last.op # "none" /\ last.exc = "none") =>
    LET T == Target(last)
        n == last.n
    IN  \A i \in T :
          LET w == Written(last, T, i) IN
          /\ store[n][i] = w                                             \* attribute, name key, position
          /\ GetLabel(n, SP[i]) = <<n, SP[i], 0, w>>                     \* label
          /\ GetSlice(n, SP[i], SP[i], 1) = <<n, SP[i], SP[i], 1, 0, <<w>>>>   \* one-period label slice
          /\ GetSlice(n, None, None, None)[6][i] = w                     \* open slice
          /\ CoarseOK(cfg) =>
               LET c == CoarseOf(SP[i])
                   m == CoarseOcc(SP, KD, c)
               IN  GetSlice(n, c, c, 1)[6][Rank(m, i)] = w               \* coarse label slice

(* every read of the final read set returns exactly the addressed cells *)
C10_ReadsExact ==
  Done =>
    /\ \A r \in reads.labels :
         LET p == Pos(SP, r[2]) IN
         IF Present(p) THEN r[3] = 0 /\ r[4] = store[r[1]][p] ELSE r[3] = 1
    /\ \A r \in reads.slices :
         IF SliceDefined(SP, KD, r[2], r[3])
           THEN LET q == SeqOfSet(SliceSet(SP, KD, r[2], r[3], r[4]))
                IN  r[5] = 0 /\ r[6] = [k \in 1..Len(q) |-> store[r[1]][q[k]]]
           ELSE r[5] = 1

(* on spans without repeated labels the three lookup methods agree with Pos *)
C10_LocateIsPos ==
  \A l \in Labels : \A k \in Kinds :
    LET loc == Locate(SP, k, l) IN
    IF Present(Pos(SP, l)) THEN loc = LocInt(Pos(SP, l)) ELSE loc = LocErr
=============================================================================
