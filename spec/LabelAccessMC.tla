--------------------------- MODULE LabelAccessMC ---------------------------
(* Model-checking slices of LabelAccess (K-label of DESIGN 6.4) and the     *)
(* emission of terminal behaviours for replay on real containers.           *)
(* The check (harness/props/c10.py) runs three slices:                      *)
(*   reads  - one whole-vector write, then the FULL read set                *)
(*   write1 - every single write of the alphabet, then the light read set   *)
(*   write2 - one representative write per access path, then every write    *)
EXTENDS LabelAccess, Json

CONSTANTS Shard, NShards,
          MinLen, MaxLen,   \* span lengths of this run
          WrSteps,          \* steps of the write slices of the LAST write (None = 0: no step given)
          First,            \* "full": every write is drawn from the full alphabet;
                            \* "small": the writes before the last come from one representative per access path
          WrOps,            \* the write paths enabled in this run
          WrSc,             \* subset of BOOLEAN: slice writes with a scalar (TRUE) / a sequence (FALSE)
          SlNames,          \* the variables that receive label-slice writes from the full alphabet
          RdSteps,          \* steps of the read slices
          FullReads         \* TRUE: the final read set is every label x every (start, stop, step);
                            \* FALSE: every label, the open slice, first:last, and the slice just written

LabelIds == 1..5

(* all spans of length MinLen..MaxLen over label ids 1..5 without repeats, of every kind *)
SpansOfLen(n) == {s \in [1..n -> LabelIds] : \A i, j \in 1..n : i # j => s[i] # s[j]}
AllSpans      == UNION {SpansOfLen(n) : n \in MinLen..MaxLen}
KindIdx(k)    == CASE k = "get_loc" -> 1 [] k = "index" -> 2 [] k = "fallback" -> 3
RECURSIVE Hash(_, _)
Hash(s, i)    == IF i > Len(s) THEN 0 ELSE (2 * i + 1) * s[i] + 7 * Hash(s, i + 1)
ShardOf(c)    == (Hash(c.span, 1) + 5 * KindIdx(c.kind)) % NShards
MCCfgs        == {c \in [span : AllSpans, kind : Kinds] : ShardOf(c) = Shard}

K       == Len(log) + 1              \* index of the write about to happen
Base(k) == 40 + 20 * k               \* written values: distinct from the initial ones and per write
Vec(k)  == [i \in 1..L |-> Base(k) + 10 + i]
IsLast  == K = MaxW
Full    == First = "full" \/ IsLast

DoSetLabel == CanWrite /\ "setlabel" \in WrOps /\ \E n \in Names : \E l \in Labels :
                /\ Full \/ (l = SP[1])
                /\ SetLabel(n, l, Base(K))
DoSetSlice == CanWrite /\ "setslice" \in WrOps /\ \E n \in Names : \E a \in Ends(cfg) : \E b \in Ends(cfg) : \E s \in WrSteps \cup {1, 2} : \E sc \in BOOLEAN :
                /\ \/ Full /\ n \in SlNames /\ s \in WrSteps /\ sc \in WrSc
                   \/ n = 1 /\ a = None /\ b = None /\ s = 2 /\ sc
                   \/ n = 1 /\ a = SP[1] /\ b = SP[L] /\ s = 1 /\ ~sc
                /\ SetSlice(n, a, b, s, sc, Base(K))
DoSetPos   == CanWrite /\ "setpos" \in WrOps /\ \E n \in Names : \E i \in 1..L :
                /\ Full \/ (n = 1 /\ i = L)
                /\ SetPos(n, i, Base(K))
DoSetAttr  == CanWrite /\ "setattr" \in WrOps /\ \E n \in Names : (Full \/ n = 1) /\ SetAttr(n, Vec(K))
DoSetItem  == CanWrite /\ "setitem" \in WrOps /\ \E n \in Names : (Full \/ n = 1) /\ SetItem(n, Vec(K))
RdLabels   == Names \X Labels
RdSlices   == IF FullReads
                THEN {last.n} \X Ends(cfg) \X Ends(cfg) \X RdSteps
                ELSE {<<last.n, None, None, None>>, <<last.n, SP[1], SP[L], 1>>}
                     \cup (IF last.op = "setslice" THEN {<<last.n, last.a, last.b, last.s>>} ELSE {})
DoReadAll  == ReadAll(RdLabels, RdSlices)

MCNext == DoSetLabel \/ DoSetSlice \/ DoSetPos \/ DoSetAttr \/ DoSetItem \/ DoReadAll
MCSpec == Init /\ [][MCNext]_vars

EmitRec == [span |-> cfg.span, kind |-> cfg.kind, coarse |-> CoarseOK(cfg),
            init |-> [n \in Names |-> [i \in 1..L |-> InitVal(n, i)]], log |-> log, reads |-> reads]
EmitInv == Done => PrintT(ToJson(EmitRec))
=============================================================================
