------------------------------- MODULE Linker -------------------------------
(***************************************************************************)
(* BaseLinker: construction (fsic/core/linkers.py:36-129) and one call of  *)
(* BaseLinker.solve_t (348-528) with evaluate_t (530-594), step by step,   *)
(* plus the declarative layer of C08.                                      *)
(*                                                                         *)
(* Submodels are 1..NSub in insertion order, each with one check variable  *)
(* (one equation); the linker may own one check variable that its          *)
(* post-evaluation hook writes.  Values are small integers (finite only:   *)
(* the property is about finite data).                                     *)
(* Where the code deviates from the property the spec follows the          *)
(* property: convergence is |move| < tol (not move^2 < tol), a non-zero    *)
(* offset seeds period t from t+offset for the linker and every selected   *)
(* submodel, max_iter = 0 records 'F' with 0 iterations.                   *)
(***************************************************************************)
EXTENDS Integers, Sequences, FiniteSets, TLC

CONSTANTS Vals,       \* values a pass may store
          LinkVals    \* values the linker's post-hook may store in the linker's own variable (<<>>-free; {} = linker owns no variable)

Abs(x) == IF x < 0 THEN -x ELSE x
Max2(a, b) == IF a > b THEN a ELSE b
Unknown == 9          \* a submodel id that does not exist

(* cfg: [n, sel, hasSel, min, max, tol, failures, offset, L, t, lv, lags, leads, spanOK, v0, vsrc, l0, lsrc]   *)
(*   n      number of submodels                                                                                *)
(*   sel    the selection: sequence of ids without repeats (order matters), possibly containing Unknown       *)
(*   lags, leads: per-submodel LAGS / LEADS; spanOK[i]: submodel i has the same span as submodel 1            *)
(*   v0[i] / vsrc[i]: submodel i's check value at t / at t+offset;  l0 / lsrc: the same for the linker        *)
VARIABLES cfg, pc, k, lval, sval, pv, cv, pend, lst, lit, sst, sit, npass, order, hist, nB, nA, res
vars == <<cfg, pc, k, lval, sval, pv, cv, pend, lst, lit, sst, sit, npass, order, hist, nB, nA, res>>

Subs    == 1..cfg.n
Sel     == cfg.sel
SelSet  == {Sel[i] : i \in 1..Len(Sel)}
HasLink == cfg.lv
Running == [kind |-> "running"]
TPos    == IF cfg.t < 0 THEN cfg.t + cfg.L ELSE cfg.t

(* cfg may carry sst0 / sit0 (status / iterations of every submodel at t on entry); defaults '-' / -1 *)
Start(c) == [cfg |-> c, pc |-> "construct", k |-> 0, lval |-> c.l0, sval |-> c.v0, pv |-> <<>>, cv |-> <<>>, pend |-> "-",
             lst |-> "-", lit |-> -1, sst |-> [i \in 1..c.n |-> "-"], sit |-> [i \in 1..c.n |-> -1], npass |-> [i \in 1..c.n |-> 0],
             order |-> <<>>, hist |-> <<>>, nB |-> 0, nA |-> 0, res |-> Running]
SetVars(s) == /\ cfg' = s.cfg /\ pc' = s.pc /\ k' = s.k /\ lval' = s.lval /\ sval' = s.sval /\ pv' = s.pv /\ cv' = s.cv
              /\ pend' = s.pend /\ lst' = s.lst /\ lit' = s.lit /\ sst' = s.sst /\ sit' = s.sit /\ npass' = s.npass
              /\ order' = s.order /\ hist' = s.hist /\ nB' = s.nB /\ nA' = s.nA /\ res' = s.res
InitWith(c) ==
  /\ cfg = c /\ pc = "construct" /\ k = 0 /\ lval = c.l0 /\ sval = c.v0
  /\ pv = <<>> /\ cv = <<>> /\ pend = "-" /\ lst = "-" /\ lit = -1
  /\ sst = [i \in 1..c.n |-> "-"] /\ sit = [i \in 1..c.n |-> -1] /\ npass = [i \in 1..c.n |-> 0]
  /\ order = <<>> /\ hist = <<>> /\ nB = 0 /\ nA = 0 /\ res = Running

Finish(kind) == pc' = "done" /\ res' = [kind |-> kind]

(* the vector of check values the solver compares: linker first (if it owns one), then the selected submodels *)
Snapshot(lv, sv) == (IF HasLink THEN <<lv>> ELSE <<>>) \o [i \in 1..Len(Sel) |-> sv[Sel[i]]]

(* linkers.py:77-120 *)
Construct ==
  /\ pc = "construct"
  /\ IF \E i \in Subs : ~cfg.spanOK[i]
       THEN Finish("InitialisationError")
       ELSE pc' = "guard" /\ UNCHANGED res
  /\ UNCHANGED <<cfg, k, lval, sval, pv, cv, pend, lst, lit, sst, sit, npass, order, hist, nB, nA>>

(* an offset pointing outside the span is rejected before anything changes (as for a single model) *)
MaxSeq(f) == IF cfg.n = 0 THEN 0 ELSE CHOOSE m \in 0..10 : (\A i \in Subs : f[i] <= m) /\ (\E i \in Subs : f[i] = m)
Infeasible == TPos - MaxSeq(cfg.lags) < 0 \/ TPos + MaxSeq(cfg.leads) >= cfg.L
GuardOffset ==
  /\ pc = "guard"
  /\ IF Infeasible \/ (cfg.offset # 0 /\ (TPos + cfg.offset < 0 \/ TPos + cfg.offset >= cfg.L))
       THEN Finish("IndexError")
       ELSE pc' = "validate" /\ UNCHANGED res
  /\ UNCHANGED <<cfg, k, lval, sval, pv, cv, pend, lst, lit, sst, sit, npass, order, hist, nB, nA>>

(* linkers.py:446-452: unknown ids raise KeyError; ids before the unknown one already had their counter reset *)
Validate ==
  /\ pc = "validate"
  /\ LET bad == {i \in 1..Len(Sel) : Sel[i] \notin Subs}
         firstbad == IF bad = {} THEN Len(Sel) + 1 ELSE CHOOSE i \in bad : \A j \in bad : i <= j
     IN  /\ sit' = [s \in Subs |-> IF \E i \in 1..(firstbad - 1) : Sel[i] = s THEN 0 ELSE sit[s]]
         /\ IF bad # {} THEN Finish("KeyError") ELSE pc' = "seed" /\ UNCHANGED res
  /\ UNCHANGED <<cfg, k, lval, sval, pv, cv, pend, lst, lit, sst, npass, order, hist, nB, nA>>

(* the property: a non-zero offset seeds period t from t+offset as for a single model *)
Seed ==
  /\ pc = "seed"
  /\ IF cfg.offset = 0 THEN UNCHANGED <<lval, sval>>
     ELSE /\ lval' = cfg.lsrc
          /\ sval' = [s \in Subs |-> IF s \in SelSet THEN cfg.vsrc[s] ELSE sval[s]]
  /\ pc' = "before"
  /\ UNCHANGED <<cfg, k, pv, cv, pend, lst, lit, sst, sit, npass, order, hist, nB, nA, res>>

(* linkers.py:441-442, 454-462 *)
Before ==
  /\ pc = "before"
  /\ cv' = Snapshot(lval, sval) /\ nB' = nB + 1 /\ pc' = "loop"
  /\ UNCHANGED <<cfg, k, lval, sval, pv, pend, lst, lit, sst, sit, npass, order, hist, nA, res>>

(* linkers.py:464-465, 512-513 *)
LoopHead ==
  /\ pc = "loop"
  /\ IF k < cfg.max THEN pc' = "iterate" /\ pv' = cv /\ UNCHANGED pend
                    ELSE pc' = "stamp" /\ pend' = "F" /\ UNCHANGED pv
  /\ UNCHANGED <<cfg, k, lval, sval, cv, lst, lit, sst, sit, npass, order, hist, nB, nA, res>>

(* linkers.py:467-492: pre-hook, one pass of every selected submodel in selection order, post-hook. *)
(* o = [subs: sequence of values, one per selected submodel; link: value the post-hook stores]      *)
Iterate(o) ==
  /\ pc = "iterate"
  /\ Len(o.subs) = Len(Sel)
  /\ k' = k + 1 /\ hist' = Append(hist, o)
  /\ order' = order \o <<0>> \o Sel \o <<-1>>            \* 0 = pre-hook, -1 = post-hook
  /\ sval' = [s \in Subs |-> IF s \in SelSet THEN o.subs[CHOOSE i \in 1..Len(Sel) : Sel[i] = s] ELSE sval[s]]
  /\ npass' = [s \in Subs |-> IF s \in SelSet THEN npass[s] + 1 ELSE npass[s]]
  /\ sit' = [s \in Subs |-> IF s \in SelSet THEN sit[s] + 1 ELSE sit[s]]
  /\ lval' = IF HasLink THEN o.link ELSE lval
  /\ cv' = Snapshot(lval', sval')
  /\ pc' = "judge"
  /\ UNCHANGED <<cfg, pv, pend, lst, lit, sst, nB, nA, res>>

(* linkers.py:494-510 (with |d| < tol); `below` = every check variable moved by less than tol *)
JudgeWith(below) ==
  /\ pc = "judge"
  /\ IF k < cfg.min THEN pc' = "loop" /\ UNCHANGED <<pend, nA>>
     ELSE IF below
            THEN pend' = "." /\ nA' = nA + 1 /\ pc' = "stamp"
            ELSE pc' = "loop" /\ UNCHANGED <<pend, nA>>
  /\ UNCHANGED <<cfg, k, lval, sval, pv, cv, lst, lit, sst, sit, npass, order, hist, nB, res>>
Judge == pc = "judge" /\ JudgeWith(\A i \in 1..Len(cv) : Abs(cv[i] - pv[i]) < cfg.tol)

(* linkers.py:515-520 *)
Stamp ==
  /\ pc = "stamp"
  /\ lst' = pend /\ lit' = k
  /\ sst' = [s \in Subs |-> IF s \in SelSet THEN pend ELSE sst[s]]
  /\ pc' = "finish"
  /\ UNCHANGED <<cfg, k, lval, sval, pv, cv, pend, sit, npass, order, hist, nB, nA, res>>

(* linkers.py:522-528 *)
Return ==
  /\ pc = "finish"
  /\ IF pend = "F" /\ cfg.failures = "raise" THEN Finish("NonConvergenceError")
     ELSE Finish(IF pend = "." THEN "True" ELSE "False")
  /\ UNCHANGED <<cfg, k, lval, sval, pv, cv, pend, lst, lit, sst, sit, npass, order, hist, nB, nA>>

IterOuts == { [subs |-> s, link |-> l] : s \in [1..Len(Sel) -> Vals], l \in (IF HasLink THEN LinkVals ELSE {0}) }
DoIterate == \E o \in IterOuts : Iterate(o)

Next == Construct \/ GuardOffset \/ Validate \/ Seed \/ Before \/ LoopHead \/ DoIterate \/ Judge \/ Stamp \/ Return
Done == pc = "done"

----------------------------------------------------------------------------
(* Declarative layer (C08): functions of cfg and hist only *)
SpansOK      == \A i \in Subs : cfg.spanOK[i]
SelOK        == \A i \in 1..Len(Sel) : Sel[i] \in Subs
OffsetBad    == Infeasible \/ (cfg.offset # 0 /\ (TPos + cfg.offset < 0 \/ TPos + cfg.offset >= cfg.L))
Seeded       == cfg.offset # 0 /\ ~OffsetBad
LinkStart    == IF Seeded THEN cfg.lsrc ELSE cfg.l0
SubStart(s)  == IF Seeded /\ s \in SelSet THEN cfg.vsrc[s] ELSE cfg.v0[s]
VecAfter(j)  == IF j = 0 THEN (IF HasLink THEN <<LinkStart>> ELSE <<>>) \o [i \in 1..Len(Sel) |-> SubStart(Sel[i])]
                ELSE (IF HasLink THEN <<hist[j].link>> ELSE <<>>) \o hist[j].subs
ConvergesAt(j) == /\ j >= Max2(1, cfg.min) /\ j <= cfg.max
                  /\ \A i \in 1..Len(VecAfter(j)) : Abs(VecAfter(j)[i] - VecAfter(j - 1)[i]) < cfg.tol
Normal       == SpansOK /\ SelOK /\ ~OffsetBad
Block        == Len(Sel) + 2

(* pre-hook, every selected submodel in selection order, post-hook - once per iteration *)
C08_Order == Done => /\ Len(order) = k * Block
                     /\ \A j \in 0..(k - 1) : /\ order[j * Block + 1] = 0
                                               /\ \A i \in 1..Len(Sel) : order[j * Block + 1 + i] = Sel[i]
                                               /\ order[(j + 1) * Block] = -1
C08_Conv == (Done /\ res.kind = "True") =>
              /\ Normal /\ lst = "." /\ ConvergesAt(k) /\ \A j \in 1..(k - 1) : ~ConvergesAt(j) /\ nA = 1 /\ nB = 1
C08_Fail == (Done /\ res.kind \in {"False", "NonConvergenceError"}) =>
              /\ Normal /\ lst = "F" /\ k = cfg.max /\ \A j \in 1..cfg.max : ~ConvergesAt(j) /\ nA = 0
              /\ (res.kind = "NonConvergenceError") = (cfg.failures = "raise")
C08_Stamp == (Done /\ res.kind \in {"True", "False", "NonConvergenceError"}) =>
              /\ lit = k
              /\ \A s \in SelSet : sst[s] = lst /\ sit[s] = lit /\ npass[s] = k
C08_Unselected == \A s \in Subs \ SelSet : sval[s] = cfg.v0[s] /\ sst[s] = "-" /\ sit[s] = -1 /\ npass[s] = 0
C08_Unknown == (Done /\ SpansOK /\ ~SelOK /\ ~OffsetBad) => res.kind = "KeyError" /\ k = 0 /\ lst = "-" /\ \A s \in Subs : npass[s] = 0 /\ sst[s] = "-"
C08_Spans   == (Done /\ ~SpansOK) => res.kind = "InitialisationError" /\ k = 0
C08_Offset  == (Done /\ SpansOK /\ OffsetBad) => res.kind = "IndexError" /\ k = 0 /\ lval = cfg.l0 /\ sval = cfg.v0 /\ \A s \in Subs : sit[s] = -1
(* the linker's lag / lead lengths are the maxima over its submodels (0 without submodels) *)
MaxOver(f) == IF cfg.n = 0 THEN 0 ELSE CHOOSE m \in 0..10 : (\A i \in Subs : f[i] <= m) /\ (\E i \in Subs : f[i] = m)
LinkLags   == MaxOver(cfg.lags)
LinkLeads  == MaxOver(cfg.leads)

TypeOK == pc \in {"construct", "guard", "validate", "seed", "before", "loop", "iterate", "judge", "stamp", "finish", "done"} /\ k \in 0..cfg.max
=============================================================================
