------------------------------ MODULE LinkerMC ------------------------------
EXTENDS Linker, Json

CONSTANTS Shard, NShards, MaxN, MaxI

(* all selections: sequences over 1..n without repeats, plus (n >= 1) one with an unknown id *)
RECURSIVE Perms(_)
Perms(S) == IF S = {} THEN {<<>>} ELSE UNION { { <<x>> \o p : p \in Perms(S \ {x}) } : x \in S }
Selections(n) == UNION { Perms(T) : T \in SUBSET (1..n) } \cup (IF n >= 1 THEN {<<1, Unknown>>, <<Unknown>>} ELSE {<<Unknown>>})

Const(n, v) == [i \in 1..n |-> v]

(* slice L-core: option lattice x selection x outcome sequences *)
CoreInit ==
  \E n \in 1..MaxN, lv \in BOOLEAN :
   \E sel \in Selections(n), mm \in {<<0, MaxI>>, <<2, MaxI>>, <<MaxI + 1, MaxI>>, <<0, 0>>}, tol \in {1, 3}, fa \in {"raise", "ignore"} :
     /\ (n + 3 * Len(sel) + 5 * mm[1] + 7 * tol + (IF lv THEN 11 ELSE 0)) % NShards = Shard
     /\ InitWith([n |-> n, sel |-> sel, min |-> mm[1], max |-> mm[2], tol |-> tol, failures |-> fa, offset |-> 0, L |-> 3, t |-> 1,
                  lv |-> lv, lags |-> Const(n, 0), leads |-> Const(n, 0), spanOK |-> Const(n, TRUE),
                  v0 |-> Const(n, 0), vsrc |-> Const(n, 0), l0 |-> 0, lsrc |-> 0])

(* slice L-build: construction (lags / leads maxima, differing spans), offsets and period spellings *)
BuildInit ==
  \E n \in 0..MaxN :
   \E lg \in [1..n -> 0..2], ld \in [1..n -> 0..1], ok \in [1..n -> BOOLEAN], off \in -2..2, t \in {-3, -1, 0, 1, 2}, lv \in BOOLEAN :
     /\ (n > 0 => ok[1])
     /\ (n + 3 * (off + 2) + 5 * (t + 3)) % NShards = Shard
     /\ InitWith([n |-> n, sel |-> [i \in 1..n |-> i], min |-> 0, max |-> 1, tol |-> 1, failures |-> "ignore", offset |-> off, L |-> 3, t |-> t,
                  lv |-> lv, lags |-> lg, leads |-> ld, spanOK |-> ok,
                  v0 |-> Const(n, 0), vsrc |-> Const(n, 2), l0 |-> 0, lsrc |-> 1])

(* slice L-offset: offset with partial selections *)
OffsetInit ==
  \E n \in 1..MaxN :
   \E sel \in Selections(n), off \in {-1, 1}, t \in {0, 1, 2}, lv \in BOOLEAN :
     /\ (n + 3 * Len(sel) + 5 * t) % NShards = Shard
     /\ InitWith([n |-> n, sel |-> sel, min |-> 0, max |-> 2, tol |-> 1, failures |-> "ignore", offset |-> off, L |-> 3, t |-> t,
                  lv |-> lv, lags |-> Const(n, 0), leads |-> Const(n, 0), spanOK |-> Const(n, TRUE),
                  v0 |-> Const(n, 0), vsrc |-> Const(n, 2), l0 |-> 0, lsrc |-> 1])

EmitRec == [cfg |-> cfg, hist |-> hist, linklags |-> LinkLags, linkleads |-> LinkLeads,
            fin |-> [res |-> res, k |-> k, lst |-> lst, lit |-> lit, sst |-> sst, sit |-> sit, npass |-> npass,
                     lval |-> lval, sval |-> sval, order |-> order, nB |-> nB, nA |-> nA]]
EmitInv == Done => PrintT(ToJson(EmitRec))
=============================================================================
