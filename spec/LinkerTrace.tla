---------------------------- MODULE LinkerTrace ----------------------------
(***************************************************************************)
(* code -> spec for BaseLinker.solve_t: recorded executions (hook events   *)
(* of fsic/core/linkers.py) are validated against the actions of Linker.   *)
(* Check vectors are floats of arbitrary length, so the harness supplies,  *)
(* per iteration, the single fact the judge needs - "every check variable  *)
(* of the linker and of the selected submodels moved by less than tol" -   *)
(* computed from the logged vectors; order of evaluation, iteration        *)
(* counts, stamping of selected / unselected submodels, hook counts and    *)
(* the way the call ends are decided by the specification.                 *)
(***************************************************************************)
EXTENDS Linker, Json, IOUtils

TraceLog == JsonDeserialize(IOEnv.TRACE_FILE)
N == Len(TraceLog)

VARIABLES l, tb      \* next event; "all below" fact of the iteration being judged
tvars == <<vars, l, tb>>
Ev == TraceLog[l]
Is(e) == l <= N /\ TraceLog[l].ev = e

IdleCfg == [n |-> 0, sel |-> <<>>, min |-> 0, max |-> 0, tol |-> 1, failures |-> "ignore", offset |-> 0, L |-> 1, t |-> 0, lv |-> FALSE,
            lags |-> <<>>, leads |-> <<>>, spanOK |-> <<>>, v0 |-> <<>>, vsrc |-> <<>>, l0 |-> 0, lsrc |-> 0]

TraceInit == /\ l = 1 /\ tb = FALSE
             /\ cfg = IdleCfg /\ pc = "idle" /\ k = 0 /\ lval = 0 /\ sval = <<>> /\ pv = <<>> /\ cv = <<>> /\ pend = "-"
             /\ lst = "-" /\ lit = -1 /\ sst = <<>> /\ sit = <<>> /\ npass = <<>> /\ order = <<>> /\ hist = <<>>
             /\ nB = 0 /\ nA = 0 /\ res = Running

(* entry: the object exists already, so construction is skipped; stamps of the submodels as they were *)
TEnter == /\ Is("enter") /\ pc = "idle"
          /\ SetVars([Start(Ev.cfg) EXCEPT !.pc = "guard", !.sst = Ev.sst0, !.sit = Ev.sit0, !.lst = Ev.st0, !.lit = Ev.it0])
          /\ l' = l + 1 /\ UNCHANGED tb
TSeeded == Is("l_seeded") /\ Seed /\ Ev.selected = Sel /\ l' = l + 1 /\ UNCHANGED tb
TBefore == Is("l_before_done") /\ Before /\ l' = l + 1 /\ UNCHANGED tb
(* one iteration = the block  l_pre, sub_pass (one per selected submodel, in order), l_post, l_pass *)
TBlock == Len(Sel) + 3
TIterate ==
  /\ l + TBlock - 1 <= N
  /\ TraceLog[l].ev = "l_pre" /\ TraceLog[l].k = k + 1
  /\ \A i \in 1..Len(Sel) : /\ TraceLog[l + i].ev = "sub_pass" /\ TraceLog[l + i].sub = Sel[i]
                            /\ TraceLog[l + i].k = k + 1 /\ TraceLog[l + i].sub_it = sit[Sel[i]] + 1
  /\ TraceLog[l + Len(Sel) + 1].ev = "l_post"
  /\ TraceLog[l + Len(Sel) + 2].ev = "l_pass" /\ TraceLog[l + Len(Sel) + 2].k = k + 1
  /\ Iterate([subs |-> [i \in 1..Len(Sel) |-> 0], link |-> 0])
  /\ tb' = TraceLog[l + Len(Sel) + 2].below
  /\ l' = l + TBlock
(* the judge: converging iterations are followed by the post-solution hook's event *)
TJudge == /\ JudgeWith(tb)
          /\ IF pc' = "stamp" THEN Is("l_after_done") /\ l' = l + 1 ELSE UNCHANGED l
          /\ UNCHANGED tb
TStamp == /\ Is("l_stamp") /\ Stamp
          /\ lst' = Ev.st /\ lit' = Ev.it /\ sst' = Ev.sst /\ sit = Ev.sit
          /\ l' = l + 1 /\ UNCHANGED tb
TExit  == /\ Is("exit") /\ pc = "done"
          /\ res.kind = Ev.kind /\ lst = Ev.st /\ lit = Ev.it
          /\ pc' = "idle" /\ l' = l + 1
          /\ UNCHANGED <<cfg, k, lval, sval, pv, cv, pend, lst, lit, sst, sit, npass, order, hist, nB, nA, res, tb>>
Silent == (GuardOffset \/ Validate \/ LoopHead \/ Return) /\ UNCHANGED <<l, tb>>

TraceNext == TEnter \/ TSeeded \/ TBefore \/ TIterate \/ TJudge \/ TStamp \/ TExit \/ Silent
TraceSpec == TraceInit /\ [][TraceNext]_tvars

Track == TLCSet(1, IF TLCGet(1) > l THEN TLCGet(1) ELSE l)
ASSUME TLCSet(1, 0)
Accepted == PrintT(<<"CONSUMED", TLCGet(1) - 1, "OF", N>>) /\ TLCGet(1) = N + 1

(* machine-level C08 invariants that do not depend on the abstracted values *)
T_Order      == C08_Order
T_Stamp      == C08_Stamp
T_Unselected == pc = "idle" \/ \A s \in Subs \ SelSet : npass[s] = 0
T_Unknown    == C08_Unknown
=============================================================================
