----------------------------- MODULE MultiSolve -----------------------------
(***************************************************************************)
(* SolverMixin.solve() (fsic/core/interfaces.py:325-453) with              *)
(* iter_periods() (282-323) and solve_period() (455-548): which periods    *)
(* are visited, in which order, what is returned, and what the model looks *)
(* like when a period raises (C05).                                        *)
(*                                                                         *)
(* Positions are 1-based here (position p is span[p-1]); a span of length  *)
(* L carries the distinct labels 1..L at positions 1..L, label L+1 stands  *)
(* for any label that is not in the span, label Multi for a label that     *)
(* resolves to more than one position (pandas partial-period string),      *)
(* label 0 for "not given" (None).                                         *)
(*                                                                         *)
(* What a single visit does is summarised from Solver.tla's terminal       *)
(* states (C02_Complete, C06 invariants): per period the scripted model either     *)
(* behaves ("none"), produces a NaN on its first pass ("nan"), never       *)
(* settles ("div") or raises ("exc").                                      *)
(***************************************************************************)
EXTENDS Integers, Sequences, FiniteSets, TLC

CONSTANTS Cfgs

Multi == 99
Max2(a, b) == IF a > b THEN a ELSE b

VARIABLES cfg, pc, todo, visited, flags, per, res,
          sums    \* history: the summary each visit produced
vars == <<cfg, pc, todo, visited, flags, per, res, sums>>

(* cfg: [L, lags, leads, start, end, min, max, errors, failures, fault]    *)
(* fault: function 1..L -> {"none","nan","div","exc"}                      *)

(* what every period looks like before the call: fresh, or carrying the stamps of an earlier solve (cfg.prior) *)
Untouched == IF cfg.prior THEN [st |-> ".", it |-> 7, ver |-> "init"] ELSE [st |-> "-", it |-> -1, ver |-> "init"]
UntouchedOf(c) == IF c.prior THEN [st |-> ".", it |-> 7, ver |-> "init"] ELSE [st |-> "-", it |-> -1, ver |-> "init"]
Running   == [kind |-> "running", at |-> 0]

InitWith(c) == /\ cfg = c /\ pc = "minmax" /\ todo = <<>> /\ visited = <<>> /\ flags = <<>>
               /\ per = [p \in 1..c.L |-> UntouchedOf(c)] /\ res = Running /\ sums = <<>>
Init == \E c \in Cfgs : InitWith(c)

Finish(kind, at) == pc' = "done" /\ res' = [kind |-> kind, at |-> at]

(* label -> position, as _locate_period_in_span does for a span with distinct labels *)
Pos(label) == IF label \in 1..cfg.L THEN label ELSE IF label = Multi THEN -2 ELSE -1   \* -1 absent, -2 not a single position

(* interfaces.py:413-418 *)
CheckMinMax ==
  /\ pc = "minmax"
  /\ IF cfg.min > cfg.max THEN Finish("ValueError", 0) ELSE pc' = "labels" /\ UNCHANGED res
  /\ UNCHANGED <<cfg, todo, visited, flags, per, sums>>

(* interfaces.py:420-428: invalid start / end are caught before anything is solved *)
CheckLabels ==
  /\ pc = "labels"
  /\ IF cfg.start # 0 /\ Pos(cfg.start) < 0 THEN Finish("KeyError", 0)
     ELSE IF cfg.end # 0 /\ Pos(cfg.end) < 0 THEN Finish("KeyError", 0)
     ELSE pc' = "iter" /\ UNCHANGED res
  /\ UNCHANGED <<cfg, todo, visited, flags, per, sums>>

(* interfaces.py:309-323 *)
IterPeriods ==
  /\ pc = "iter"
  /\ IF cfg.L = 0 THEN Finish("SolutionError", 0) /\ UNCHANGED todo
     ELSE LET s == IF cfg.start = 0 THEN cfg.lags + 1 ELSE Pos(cfg.start)
              e == IF cfg.end = 0 THEN cfg.L - cfg.leads ELSE Pos(cfg.end)
          IN  /\ todo' = [i \in 1..Max2(0, e - s + 1) |-> s + i - 1]
              /\ pc' = "loop" /\ UNCHANGED res
  /\ UNCHANGED <<cfg, visited, flags, per, sums>>

(* what one solve_t call leaves behind, from Solver.tla's terminal summaries *)
ConvIt == Max2(2, cfg.min)      \* the scripted "none" period settles on its second pass
InfeasibleAt(p) == p - cfg.lags < 1 \/ p + cfg.leads > cfg.L   \* solve_t rejects such a period before anything changes
Summary(p) ==
  LET f == cfg.fault[p] IN
  CASE InfeasibleAt(p) -> [st |-> Untouched.st, it |-> Untouched.it, ret |-> "IndexError"]
    [] f = "none" -> IF ConvIt <= cfg.max THEN [st |-> ".", it |-> ConvIt, ret |-> "True"]
                     ELSE [st |-> "F", it |-> cfg.max, ret |-> IF cfg.failures = "raise" THEN "NonConvergenceError" ELSE "False"]
    [] f = "div"  -> [st |-> "F", it |-> cfg.max, ret |-> IF cfg.failures = "raise" THEN "NonConvergenceError" ELSE "False"]
    [] f = "nan"  -> CASE cfg.errors = "raise" -> [st |-> "E", it |-> 1, ret |-> "SolutionError"]
                       [] cfg.errors = "skip"  -> [st |-> "S", it |-> 1, ret |-> "False"]
                       [] OTHER                -> [st |-> "F", it |-> cfg.max, ret |-> IF cfg.failures = "raise" THEN "NonConvergenceError" ELSE "False"]
    [] f = "exc"  -> IF cfg.errors = "raise" THEN [st |-> "E", it |-> 1, ret |-> "SolutionError"]
                     ELSE [st |-> Untouched.st, it |-> Untouched.it, ret |-> "SolutionError"]

Raises(s) == s.ret \notin {"True", "False"}

(* interfaces.py:438-451: one iteration of the loop = one solve_t call that ends as summary s *)
Visit(s) ==
  /\ pc = "loop" /\ todo # <<>>
  /\ LET p == Head(todo)
     IN  /\ visited' = Append(visited, p) /\ sums' = Append(sums, s)
         /\ per' = [per EXCEPT ![p] = [st |-> s.st, it |-> s.it,
                                       ver |-> IF Raises(s) /\ s.st = Untouched.st /\ s.it = Untouched.it THEN "init" ELSE IF s.st = "." THEN "done" ELSE "partial"]]
         /\ IF Raises(s)
              THEN Finish(s.ret, p) /\ UNCHANGED <<todo, flags>>
              ELSE /\ flags' = Append(flags, s.ret = "True") /\ todo' = Tail(todo)
                   /\ UNCHANGED <<pc, res>>
  /\ UNCHANGED cfg
DoVisit == pc = "loop" /\ todo # <<>> /\ Visit(Summary(Head(todo)))

Return ==
  /\ pc = "loop" /\ todo = <<>>
  /\ Finish("returned", 0)
  /\ UNCHANGED <<cfg, todo, visited, flags, per, sums>>

Next == CheckMinMax \/ CheckLabels \/ IterPeriods \/ DoVisit \/ Return
Spec == Init /\ [][Next]_vars
Done == pc = "done"

----------------------------------------------------------------------------
(* Declarative layer (C05) *)
First == IF cfg.start = 0 THEN cfg.lags + 1 ELSE cfg.start
Last  == IF cfg.end = 0 THEN cfg.L - cfg.leads ELSE cfg.end
Range == IF First <= Last THEN [i \in 1..(Last - First + 1) |-> First + i - 1] ELSE <<>>
IsPrefix(a, b) == Len(a) <= Len(b) /\ \A i \in 1..Len(a) : a[i] = b[i]
Early == cfg.min > cfg.max \/ (cfg.start # 0 /\ cfg.start \notin 1..cfg.L) \/ (cfg.end # 0 /\ cfg.end \notin 1..cfg.L) \/ cfg.L = 0

(* exactly the periods start..end, ascending; nothing if start > end *)
C05_Visits ==
  (Done /\ ~Early) => /\ IsPrefix(visited, Range)
                      /\ (res.kind = "returned" => visited = Range)
                      /\ (res.kind # "returned" => res.at = visited[Len(visited)])
(* the returned triple is the list of per-visit results *)
C05_Triple ==
  (Done /\ res.kind = "returned") =>
     /\ Len(flags) = Len(visited)
     /\ \A i \in 1..Len(visited) : flags[i] = (per[visited[i]].st = ".")
(* failures are contained: earlier periods complete, the failing one carries its policy status, later ones untouched *)
C05_Contain ==
  (Done /\ ~Early) =>
     /\ \A p \in 1..cfg.L : (\A i \in 1..Len(visited) : visited[i] # p) => per[p] = Untouched
     /\ Len(sums) = Len(visited)
     /\ \A i \in 1..Len(visited) : per[visited[i]].st = sums[i].st /\ per[visited[i]].it = sums[i].it
     /\ \A i \in 1..(Len(visited) - 1) : ~Raises(sums[i])
(* empty span / unknown or ambiguous labels / bad min-max: raised before anything is solved *)
C05_Early ==
  (Done /\ Early) =>
     /\ visited = <<>> /\ \A p \in 1..cfg.L : per[p] = Untouched
     /\ res.kind = (IF cfg.min > cfg.max THEN "ValueError"
                    ELSE IF (cfg.start # 0 /\ cfg.start \notin 1..cfg.L) \/ (cfg.end # 0 /\ cfg.end \notin 1..cfg.L) THEN "KeyError"
                    ELSE "SolutionError")
(* the solved flag is True only for '.' and a skipped period lets the solve move on *)
C05_SkipMovesOn ==
  (Done /\ cfg.errors = "skip" /\ cfg.failures = "ignore" /\ ~Early /\ \A p \in 1..cfg.L : cfg.fault[p] # "exc"
        /\ \A i \in 1..Len(Range) : ~InfeasibleAt(Range[i])) => res.kind = "returned"

TypeOK == pc \in {"minmax", "labels", "iter", "loop", "done", "idle"}
=============================================================================
