---------------------------- MODULE MultiSolveMC ----------------------------
EXTENDS MultiSolve, Json

CONSTANTS Shard, NShards, MaxL, MaxFaults

Kinds == {"none", "nan", "div", "exc"}
NFaults(f, L) == Cardinality({p \in 1..L : f[p] # "none"})

ErrSeq == <<"raise", "skip", "ignore", "replace">>
ErrIdx(e) == CHOOSE i \in 1..4 : ErrSeq[i] = e

Labels(L) == (0..(L + 1)) \cup {Multi}
MCInit ==
  \E L \in 0..MaxL, lg \in 0..1, ld \in 0..1 :
    /\ (L = 0 \/ L >= lg + ld + 1)
    /\ \E s \in Labels(L), e \in Labels(L), mm \in {<<0, 3>>, <<3, 3>>, <<4, 3>>, <<0, 1>>},
          er \in {"raise", "skip", "ignore", "replace"}, fa \in {"raise", "ignore"}, pr \in BOOLEAN :
         /\ (L + 3 * s + 5 * e + 7 * lg + 11 * ld + 13 * mm[1] + 17 * ErrIdx(er)) % NShards = Shard
         /\ \E f \in [1..L -> Kinds] :
              /\ NFaults(f, L) <= MaxFaults
              /\ InitWith([L |-> L, lags |-> lg, leads |-> ld, start |-> s, end |-> e, min |-> mm[1], max |-> mm[2],
                           errors |-> er, failures |-> fa, fault |-> f, prior |-> pr])

EmitRec == [cfg |-> cfg, range |-> Range, visited |-> visited, flags |-> flags, per |-> per, res |-> res]
EmitInv == Done => PrintT(ToJson(EmitRec))
=============================================================================
