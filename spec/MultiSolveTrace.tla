-------------------------- MODULE MultiSolveTrace --------------------------
(***************************************************************************)
(* code -> spec for SolverMixin.solve(): recorded executions (solve_enter,  *)
(* the exit of every nested solve_t call, solve_exit) are validated against *)
(* MultiSolve.  Labels are resolved by the harness by textual identity of   *)
(* repr(label) with the reprs of the span's labels; what each visit left    *)
(* behind comes from the nested solve_t episode (itself validated against   *)
(* SolverTrace under C02/C06).                                              *)
(***************************************************************************)
EXTENDS MultiSolve, Json, IOUtils

TraceLog == JsonDeserialize(IOEnv.TRACE_FILE)
N == Len(TraceLog)
VARIABLE l
tvars == <<vars, l>>
Ev == TraceLog[l]
Is(e) == l <= N /\ TraceLog[l].ev = e

IdleCfg == [L |-> 0, lags |-> 0, leads |-> 0, start |-> 0, end |-> 0, min |-> 0, max |-> 0, errors |-> "raise", failures |-> "raise", fault |-> <<>>, prior |-> FALSE]
TraceInit == /\ l = 1 /\ cfg = IdleCfg /\ pc = "idle" /\ todo = <<>> /\ visited = <<>> /\ flags = <<>> /\ per = <<>>
             /\ res = Running /\ sums = <<>>

TEnter == /\ Is("solve_enter") /\ pc = "idle"
          /\ cfg' = Ev.cfg /\ pc' = "minmax" /\ todo' = <<>> /\ visited' = <<>> /\ flags' = <<>>
          /\ per' = Ev.per0 /\ res' = Running /\ sums' = <<>>
          /\ l' = l + 1
TVisit == /\ Is("visit") /\ pc = "loop" /\ todo # <<>> /\ Head(todo) = Ev.p
          /\ Visit([st |-> Ev.st, it |-> Ev.it, ret |-> Ev.ret])
          /\ l' = l + 1
TExit  == /\ Is("solve_exit") /\ pc = "done"
          /\ res.kind = Ev.kind
          /\ (Ev.kind = "returned" => (visited = Ev.indexes /\ flags = Ev.solved))
          /\ pc' = "idle" /\ l' = l + 1
          /\ UNCHANGED <<cfg, todo, visited, flags, per, res, sums>>
Silent == (CheckMinMax \/ CheckLabels \/ IterPeriods \/ Return) /\ UNCHANGED l

TraceNext == TEnter \/ TVisit \/ TExit \/ Silent
TraceSpec == TraceInit /\ [][TraceNext]_tvars

Track == TLCSet(1, IF TLCGet(1) > l THEN TLCGet(1) ELSE l)
ASSUME TLCSet(1, 0)
Accepted == PrintT(<<"CONSUMED", TLCGet(1) - 1, "OF", N>>) /\ TLCGet(1) = N + 1

T_Visits == pc = "idle" \/ C05_Visits
T_Triple == pc = "idle" \/ C05_Triple
T_Early  == pc = "idle" \/ (Done /\ Early => visited = <<>>)
=============================================================================
