------------------------------ MODULE Reindex ------------------------------
(***************************************************************************)
(* reindex() of fsic containers and models (property C12).                 *)
(*                                                                         *)
(* The machine follows fsic/core/models.py:152-157 (BaseModel.reindex:     *)
(* status / iterations defaults are injected as keywords) and              *)
(* fsic/core/containers.py:676-745 (VectorContainer.reindex: strict check, *)
(* position map, copy, dtype-aware fill, value copy) step by step, using   *)
(* the TRANSCRIBED lookup of Span.tla.  The property layer (C12_xxx) is    *)
(* stated with the DECLARATIVE Pos and never looks at the position map.    *)
(*                                                                         *)
(* Values are codes: finite numbers = small integers, NaN = 100, booleans  *)
(* 0 / 1, strings = codes >= 200 (200 = the empty string; the adapter has  *)
(* the code <-> text table).                                               *)
(*                                                                         *)
(* An object is a record                                                   *)
(*   cls    "container" | "model"                                          *)
(*   span   sequence of label ids (old spans: distinct labels)             *)
(*   kind   lookup method of the span's type (Span.tla)                    *)
(*   vars   sequence (= the object's `index` order) of [id, dt, role]      *)
(*          dt \in {"f","i","b","s"}; role \in {"data","status","iter"}    *)
(*   vals   sequence (parallel to vars) of value sequences over positions  *)
(*   strict the object's strict flag                                       *)
(*   attrs  [lags, leads, note]: attributes that must be carried over      *)
(*                                                                         *)
(* Arguments: [new, fv, per, unknown, strict]                              *)
(*   new     the new span (labels may repeat)                              *)
(*   fv      0 = no fill_value, 1 = fill_value given (abstract value FV)   *)
(*   per     set of variable ids with a per-variable fill keyword          *)
(*   unknown TRUE iff the keywords also name a variable the object lacks   *)
(*   strict  "none" | "true" | "false"                                     *)
(***************************************************************************)
EXTENDS Span, TLC

CONSTANTS Cases    \* set of [obj, args]

NaN      == 100
EmptyStr == 200
Dash     == 210     \* '-'  SolutionStatus.UNSOLVED
UnknownKey == 99

(* dtype defaults: NaN for float, 0 for int, False for bool, '' for str *)
DtDefault(dt) == CASE dt = "f" -> NaN [] dt = "i" -> 0 [] dt = "b" -> 0 [] dt = "s" -> EmptyStr

(* the one fill_value FV, as it appears in a series of each dtype (adapter: FV = 7 -> 7.0, 7, True, '7') *)
FVCast(dt) == CASE dt = "f" -> 7 [] dt = "i" -> 7 [] dt = "b" -> 1 [] dt = "s" -> 207

(* the per-variable keyword values, given in the variable's own dtype *)
PerFill(var) ==
  CASE var.role = "status" -> 213
    [] var.role = "iter"   -> 5
    [] var.dt = "f" -> 8
    [] var.dt = "i" -> 9
    [] var.dt = "b" -> 1
    [] var.dt = "s" -> 208

VARIABLES orig,   \* the object reindex() is called on
          args,   \* the call's arguments
          pc,     \* "defaults" | "strict" | "positions" | "copy" | "var" | "done"
          kw,     \* the effective fill keywords: set of <<key, value>>
          posmap, \* sequence over new positions: old position to copy from, 0 = none
          res,    \* the object being built
          made,   \* TRUE once the copy exists
          k,      \* next variable to rebuild
          out     \* "running" | "ok" | "KeyError"

vars == <<orig, args, pc, kw, posmap, res, made, k, out>>

NV == Len(orig.vars)
Old == orig.span
New == args.new
Keys(s) == {x[1] : x \in s}
ValOf(s, key) == (CHOOSE x \in s : x[1] = key)[2]

InitWith(obj, a) ==
  /\ orig = obj /\ args = a
  /\ pc = "defaults"
  /\ kw = {<<obj.vars[j].id, PerFill(obj.vars[j])>> : j \in {j \in 1..Len(obj.vars) : obj.vars[j].id \in a.per}}
           \cup (IF a.unknown THEN {<<UnknownKey, 1>>} ELSE {})
  /\ posmap = <<>> /\ res = obj /\ made = FALSE /\ k = 1 /\ out = "running"

Init == \E c \in Cases : InitWith(c.obj, c.args)

(* models.py:152-153: fill_values['status'] = fill_values.get('status', '-'); iterations likewise with -1 *)
ModelDefaults ==
  /\ pc = "defaults"
  /\ kw' = IF orig.cls = "model"
             THEN kw \cup {<<orig.vars[j].id, IF orig.vars[j].role = "status" THEN Dash ELSE -1>> :
                             j \in {j \in 1..NV : orig.vars[j].role \in {"status", "iter"} /\ orig.vars[j].id \notin Keys(kw)}}
             ELSE kw
  /\ pc' = "strict"
  /\ UNCHANGED <<orig, args, posmap, res, made, k, out>>

(* containers.py:676-686 *)
StrictCheck ==
  /\ pc = "strict"
  /\ LET strict == IF args.strict = "none" THEN orig.strict ELSE args.strict = "true"
         undefined == Keys(kw) \ {orig.vars[j].id : j \in 1..NV}
     IN  IF strict /\ undefined # {}
           THEN pc' = "done" /\ out' = "KeyError"
           ELSE pc' = "positions" /\ UNCHANGED out
  /\ UNCHANGED <<orig, args, kw, posmap, res, made, k>>

(* containers.py:692-695: for i, period in enumerate(span): if period in self.span: positions[i] = locate(period) *)
BuildPositions ==
  /\ pc = "positions"
  /\ posmap' = [i \in 1..Len(New) |->
                  IF \E j \in 1..Len(Old) : Old[j] = New[i] THEN Locate(Old, orig.kind, New[i]).lo ELSE 0]
  /\ pc' = "copy"
  /\ UNCHANGED <<orig, args, kw, res, made, k, out>>

(* containers.py:700-701: reindexed = self.copy(); reindexed.span = span *)
CopyObj ==
  /\ pc = "copy"
  /\ res' = [orig EXCEPT !.span = New]
  /\ made' = TRUE
  /\ pc' = IF NV = 0 THEN "done" ELSE "var"
  /\ out' = IF NV = 0 THEN "ok" ELSE out
  /\ UNCHANGED <<orig, args, kw, posmap, k>>

(* containers.py:703-743, one variable of `index` per step *)
FillVar ==
  /\ pc = "var"
  /\ LET var   == orig.vars[k]
         given == var.id \in Keys(kw)                              \* :712 fill_values.get(name, fill_value)
         isNone == ~given /\ args.fv = 0
         value == IF isNone THEN DtDefault(var.dt)                 \* :716-732 None -> False / 0 / '' ; np.full(None) -> NaN
                  ELSE IF given THEN ValOf(kw, var.id)             \*          bool(v) / int(v) / str(v) of a keyword value
                  ELSE FVCast(var.dt)                              \*          ... of fill_value
         fresh == [i \in 1..Len(New) |-> value]                    \* :736-738 np.full(len(span), value, dtype)
         filled == [i \in 1..Len(New) |-> IF posmap[i] # 0 THEN orig.vals[k][posmap[i]] ELSE fresh[i]]   \* :742-743
     IN  res' = [res EXCEPT !.vals[k] = filled]
  /\ k' = k + 1
  /\ pc' = IF k = NV THEN "done" ELSE "var"
  /\ out' = IF k = NV THEN "ok" ELSE out
  /\ UNCHANGED <<orig, args, kw, posmap, made>>

Next == ModelDefaults \/ StrictCheck \/ BuildPositions \/ CopyObj \/ FillVar
Spec == Init /\ [][Next]_vars
Done == pc = "done"

----------------------------------------------------------------------------
(* Property layer (C12), declarative *)

EffStrict == IF args.strict = "none" THEN orig.strict ELSE args.strict = "true"

(* the fill of a variable: per-variable keyword > (models: '-' for status, -1 for iterations) > fill_value > dtype default *)
FillOf(var) ==
  IF var.id \in args.per THEN PerFill(var)
  ELSE IF orig.cls = "model" /\ var.role = "status" THEN Dash
  ELSE IF orig.cls = "model" /\ var.role = "iter" THEN -1
  ELSE IF args.fv = 1 THEN FVCast(var.dt)
  ELSE DtDefault(var.dt)

TypeOK == /\ Distinct(Old)
          /\ \A j \in 1..NV : Len(orig.vals[j]) = Len(Old)
          /\ Len(orig.vals) = NV

C12_Reindex ==
  (Done /\ out = "ok") =>
    /\ made
    /\ res.cls = orig.cls                                  \* same class
    /\ res.span = New                                      \* whose span is new_span
    /\ res.vars = orig.vars                                \* dtypes and variable order
    /\ res.attrs = orig.attrs /\ res.strict = orig.strict  \* lags / leads / attributes
    /\ \A j \in 1..NV :
         /\ Len(res.vals[j]) = Len(New)
         /\ \A i \in 1..Len(New) :
              LET p == Pos(Old, New[i]) IN
              res.vals[j][i] = IF Present(p) THEN orig.vals[j][p] ELSE FillOf(orig.vars[j])

(* unknown fill keys are rejected iff strict, and then nothing is built *)
C12_Strict ==
  Done => /\ (out = "KeyError") <=> (EffStrict /\ args.unknown)
          /\ (out = "KeyError") => ~made

(* the lookup method of the span's type does not matter on spans without repeated labels *)
C12_KindFree ==
  pc = "copy" =>
    \A kd \in Kinds : \A i \in 1..Len(New) :
      posmap[i] = (IF \E j \in 1..Len(Old) : Old[j] = New[i] THEN Locate(Old, kd, New[i]).lo ELSE 0)

(* the original is never written *)
C12_OrigUnchanged == [][orig' = orig]_vars
=============================================================================
