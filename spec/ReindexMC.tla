----------------------------- MODULE ReindexMC -----------------------------
(* Model-checking slices of Reindex (K-reindex of DESIGN 6.4) and the       *)
(* emission of terminal behaviours for replay on real containers / models.  *)
EXTENDS Reindex, Json

CONSTANTS Shard, NShards,
          Slice,            \* "spans": every (old, new) span pair x two fill configurations
                            \* "fills": a few span pairs x the whole fill / strict lattice
          MaxOld, MaxNew    \* span lengths of the "spans" slice

LabelIds == 1..5

SeqsOfLen(n)  == [1..n -> LabelIds]
OldSpans      == UNION {{s \in SeqsOfLen(n) : \A i, j \in 1..n : i # j => s[i] # s[j]} : n \in 0..MaxOld}   \* distinct labels
NewSpans      == UNION {SeqsOfLen(n) : n \in 0..MaxNew}                                                     \* labels may repeat
RECURSIVE Hash(_, _)
Hash(s, i)    == IF i > Len(s) THEN 0 ELSE (2 * i + 1) * s[i] + 7 * Hash(s, i + 1)

V(id, dt, role) == [id |-> id, dt |-> dt, role |-> role]
DataVars  == <<V(1, "f", "data"), V(2, "i", "data"), V(3, "b", "data"), V(4, "s", "data")>>
ModelVars == <<V(8, "s", "status"), V(9, "i", "iter")>> \o DataVars      \* index order of a model: status, iterations, names

(* stored values of the original: a partly solved model ('.' with iteration counts in odd periods) *)
OldVal(var, j) ==
  CASE var.role = "status" -> IF j % 2 = 1 THEN 211 ELSE Dash
    [] var.role = "iter"   -> IF j % 2 = 1 THEN 2 + j ELSE -1
    [] var.dt = "f" -> 10 + j
    [] var.dt = "i" -> 20 + j
    [] var.dt = "b" -> j % 2
    [] var.dt = "s" -> 200 + j

MkObj(cls, span, strict) ==
  LET vs == IF cls = "model" THEN ModelVars ELSE DataVars IN
  [cls |-> cls, span |-> span, kind |-> "index", vars |-> vs,
   vals |-> [v \in 1..Len(vs) |-> [j \in 1..Len(span) |-> OldVal(vs[v], j)]],
   strict |-> strict, attrs |-> [lags |-> 1, leads |-> 2, note |-> 5]]

Classes == {"container", "model"}
Ids(cls) == IF cls = "model" THEN {1, 2, 3, 4, 8, 9} ELSE {1, 2, 3, 4}

MkArgs(new, fv, per, unknown, strict) == [new |-> new, fv |-> fv, per |-> per, unknown |-> unknown, strict |-> strict]

SpanArgs(cls, new) == {MkArgs(new, 0, {}, FALSE, "none"),
                       MkArgs(new, 1, {1, 4} \cup (IF cls = "model" THEN {9} ELSE {}), FALSE, "none")}
(* The initial states are enumerated by nested quantifiers (building one big set of case records first *)
(* costs TLC minutes of set normalisation); the shard is a function of the old span / the fill choice. *)
MyOld == {o \in OldSpans : (Hash(o, 1) + Len(o)) % NShards = Shard}
SpanInit == \E cls \in Classes : \E o \in MyOld : \E nw \in NewSpans : \E a \in SpanArgs(cls, nw) :
              InitWith(MkObj(cls, o, FALSE), a)

FillPairs == {<<<<1, 2, 3>>, <<2, 3, 4>>>>, <<<<1, 2, 3>>, <<4, 5>>>>, <<<<1, 2, 3>>, <<3, 3, 1>>>>, <<<<1, 2, 3>>, <<>>>>,
              <<<<1, 2, 3>>, <<1, 2, 3>>>>, <<<<2>>, <<1, 2, 3>>>>, <<<<>>, <<4, 5>>>>, <<<<5, 3>>, <<3, 4, 5, 5>>>>}
FillInit == \E cls \in Classes : \E pr \in FillPairs : \E ostrict \in BOOLEAN : \E fv \in {0, 1} :
            \E per \in SUBSET Ids(cls) : \E unknown \in BOOLEAN : \E st \in {"none", "true", "false"} :
              /\ (Hash(pr[2], 1) + Cardinality(per) + fv) % NShards = Shard
              /\ InitWith(MkObj(cls, pr[1], ostrict), MkArgs(pr[2], fv, per, unknown, st))

MCInit == IF Slice = "spans" THEN SpanInit ELSE FillInit
MCSpec == MCInit /\ [][Next]_vars

Compact(vs) == [j \in 1..Len(vs) |-> <<vs[j].id, vs[j].dt, vs[j].role>>]
EmitRec == [cls |-> orig.cls, strict |-> orig.strict, old |-> orig.span, vars |-> Compact(orig.vars), vals |-> orig.vals,
            attrs |-> orig.attrs, args |-> args, out |-> out,
            perfill |-> {<<orig.vars[j].id, PerFill(orig.vars[j])>> : j \in {j \in 1..NV : orig.vars[j].id \in args.per}},
            rcls |-> res.cls, rstrict |-> res.strict, rspan |-> res.span, rvars |-> Compact(res.vars), rvals |-> res.vals,
            rattrs |-> res.attrs]
EmitInv == Done => PrintT(ToJson(EmitRec))
=============================================================================
