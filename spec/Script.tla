------------------------------- MODULE Script -------------------------------
(***************************************************************************)
(* Program space of fsic model scripts and their reference semantics.      *)
(*                                                                         *)
(* A program is a sequence of statements  lhs = rhs ; rhs is a flat        *)
(* postfix token sequence (i.e. a syntax tree) built by a stack machine,   *)
(* so every program has exactly one construction.  The operators below the *)
(* machine define what the script MEANS, independently of fsic's regexes:  *)
(* term list, symbol classification and order, lag/lead lengths, default   *)
(* solution range, evaluation order, and the Gauss-Seidel event sequence   *)
(* of one evaluation pass (which cell versions every read must see).       *)
(* The harness renders each program to text under many layouts and name    *)
(* maps, pushes it through parse_model / build_model / the Fortran         *)
(* generator, executes the generated code on recording arrays and compares *)
(* with what this module says (C01, C03, C04, C07, C14, C15, C20).         *)
(*                                                                         *)
(* Tokens are uniform records [t, s, n, k]:                                *)
(*   var   s = kind ("v" plain, "p" {parameter}, "e" <error>), n = name id,*)
(*         k = time offset, or Named for a quoted period label             *)
(*   num   s = the literal as written;   verb  s = verbatim Python text    *)
(*   neg | paren | cond            (unary minus, explicit ( ), a if c else b) *)
(*   bin | cmp | bool  s = operator (bool: and / or);  not;                *)
(*   call  s = function, n = arity                                         *)
(***************************************************************************)
EXTENDS Integers, Sequences, FiniteSets, TLC

CONSTANTS MaxStmts, MaxLeaves, MaxNodes, MaxNames,
          Kinds,      \* subset of {"v","p","e"}
          Idxs,       \* offsets a right-hand-side term may carry (may include Named)
          LhsIdxs,    \* offsets a left-hand side may carry
          Nums,       \* numeric literals (strings)
          Verbs,      \* verbatim fragments (Python text written between backticks, copied into the code untouched)
          BinOps, CmpOps, BoolOps, Funcs1, Funcs2,
          UseNeg, UseParen, UseCond, UseNot,
          MaxVerbatim, VForms,   \* verbatim statements (whole backticked lines / fenced blocks) between the equations
          NoReject    \* TRUE: only build programs the parser must accept (no kind clash, no second definition)

Named == 1000
Tok(t, s, n, k) == [t |-> t, s |-> s, n |-> n, k |-> k]
Var(kind, name, idx) == Tok("var", kind, name, idx)

IsVar(x) == x.t = "var"
TermsOf(s) == <<s.lhs>> \o SelectSeq(s.rhs, IsVar)         \* left-hand side first, then source order
RECURSIVE TermsOfStmts(_)
TermsOfStmts(ss) == IF ss = <<>> THEN <<>> ELSE TermsOf(Head(ss)) \o TermsOfStmts(Tail(ss))
(* distinct names in order of first appearance *)
RECURSIVE FirstSeen(_, _)
FirstSeen(ts, acc) == IF ts = <<>> THEN acc
                      ELSE FirstSeen(Tail(ts), IF \E i \in 1..Len(acc) : acc[i] = Head(ts).n THEN acc ELSE Append(acc, Head(ts).n))

VARIABLES stmts,   \* finished statements: [lhs |-> var token, rhs |-> postfix]
          stack,   \* stack of finished sub-expressions (each a postfix sequence)
          leaves, nodes,   \* budget used by the statement under construction
          used,    \* highest name id used so far (canonical naming: a fresh name is used+1)
          kinds,   \* name id -> kind it has been used with so far ("" = not yet used; "d" = defined by an equation)
          terms, nameseq,   \* set once when the program is finished: its term list and its names in order of first
                            \* appearance (TLC re-evaluates state-dependent definitions on every use; these two are used everywhere)
          verbat,  \* verbatim statements: [after |-> number of equations written before it, form |-> "line" | "fence"]
          phase
vars == <<stmts, stack, leaves, nodes, used, kinds, terms, nameseq, verbat, phase>>

Init == stmts = <<>> /\ stack = <<>> /\ leaves = 0 /\ nodes = 0 /\ used = 0 /\ phase = "build" /\ kinds = [n \in 1..MaxNames |-> ""] /\ terms = <<>> /\ nameseq = <<>> /\ verbat = <<>>

Top     == stack[Len(stack)]
Pop(j)  == SubSeq(stack, 1, Len(stack) - j)
Room(j) == nodes + j + (Len(stack) - 1) <= MaxNodes     \* the pending sub-expressions can still be joined
Building == phase = "build" /\ Len(stmts) < MaxStmts

PushVar(kind, name, idx) ==
  /\ Building /\ leaves < MaxLeaves /\ nodes + 1 + Len(stack) <= MaxNodes
  /\ name <= used + 1 /\ name <= MaxNames
  /\ (NoReject => (kinds[name] = "" \/ kinds[name] = kind \/ (kinds[name] = "d" /\ kind = "v")))
  /\ kinds' = IF kinds[name] = "" THEN [kinds EXCEPT ![name] = kind] ELSE kinds
  /\ stack' = Append(stack, <<Var(kind, name, idx)>>)
  /\ leaves' = leaves + 1 /\ nodes' = nodes + 1 /\ used' = IF name > used THEN name ELSE used
  /\ UNCHANGED <<verbat, stmts, terms, nameseq, phase>>

PushNum(lit) ==
  /\ Building /\ leaves < MaxLeaves /\ nodes + 1 + Len(stack) <= MaxNodes
  /\ stack' = Append(stack, <<Tok("num", lit, 0, 0)>>)
  /\ leaves' = leaves + 1 /\ nodes' = nodes + 1
  /\ UNCHANGED <<verbat, stmts, used, kinds, terms, nameseq, phase>>

Unary(tok) ==
  /\ Building /\ stack # <<>> /\ Room(1)
  /\ Top[Len(Top)].t # tok.t                 \* no immediate repetition (-(-x)), ((x)) adds nothing new
  /\ stack' = Append(Pop(1), Append(Top, tok))
  /\ nodes' = nodes + 1
  /\ UNCHANGED <<verbat, stmts, leaves, used, kinds, terms, nameseq, phase>>

Binary(tok) ==
  /\ Building /\ Len(stack) >= 2 /\ nodes + 1 + (Len(stack) - 2) <= MaxNodes
  /\ stack' = Append(Pop(2), stack[Len(stack) - 1] \o Top \o <<tok>>)
  /\ nodes' = nodes + 1
  /\ UNCHANGED <<verbat, stmts, leaves, used, kinds, terms, nameseq, phase>>

Ternary ==
  /\ Building /\ UseCond /\ Len(stack) >= 3 /\ nodes + 1 + (Len(stack) - 3) <= MaxNodes
  /\ stack' = Append(Pop(3), stack[Len(stack) - 2] \o stack[Len(stack) - 1] \o Top \o <<Tok("cond", "", 0, 0)>>)
  /\ nodes' = nodes + 1
  /\ UNCHANGED <<verbat, stmts, leaves, used, kinds, terms, nameseq, phase>>

CloseEq(name, idx) ==
  /\ Building /\ Len(stack) = 1
  /\ name <= used + 1 /\ name <= MaxNames
  /\ (NoReject => kinds[name] \in {"", "v"})          \* not a parameter / error, not defined before
  /\ kinds' = [kinds EXCEPT ![name] = "d"]
  /\ stmts' = Append(stmts, [lhs |-> Var("v", name, idx), rhs |-> stack[1]])
  /\ stack' = <<>> /\ leaves' = 0 /\ nodes' = 0 /\ used' = IF name > used THEN name ELSE used
  /\ UNCHANGED <<verbat, terms, nameseq, phase>>

Finish ==
  /\ phase = "build" /\ stack = <<>> /\ (stmts # <<>> \/ verbat # <<>>)
  /\ phase' = "done"
  /\ terms' = TermsOfStmts(stmts) /\ nameseq' = FirstSeen(TermsOfStmts(stmts), <<>>)
  /\ UNCHANGED <<verbat, stmts, stack, leaves, nodes, used, kinds>>

(* a verbatim statement between two equations (or before the first / after the last one) *)
PlaceVerbatim(f) ==
  /\ phase = "build" /\ stack = <<>> /\ Len(verbat) < MaxVerbatim
  /\ verbat' = Append(verbat, [after |-> Len(stmts), form |-> f])
  /\ UNCHANGED <<stmts, stack, leaves, nodes, used, kinds, terms, nameseq, phase>>
DoVerbatim == \E f \in VForms : PlaceVerbatim(f)

DoPushVar == \E kd \in Kinds, nm \in 1..MaxNames, ix \in Idxs : PushVar(kd, nm, ix)
PushVerb(txt) ==
  /\ Building /\ leaves < MaxLeaves /\ nodes + 1 + Len(stack) <= MaxNodes
  /\ stack' = Append(stack, <<Tok("verb", txt, 0, 0)>>)
  /\ leaves' = leaves + 1 /\ nodes' = nodes + 1
  /\ UNCHANGED <<verbat, stmts, used, kinds, terms, nameseq, phase>>

DoPushNum == (\E l \in Nums : PushNum(l)) \/ (\E v \in Verbs : PushVerb(v))
DoUnary   == \/ (UseNeg /\ Unary(Tok("neg", "", 0, 0)))
             \/ (UseParen /\ Unary(Tok("paren", "", 0, 0)))
             \/ (UseNot /\ Unary(Tok("not", "", 0, 0)))
             \/ \E f \in Funcs1 : Unary(Tok("call", f, 1, 0))
DoBinary  == \/ \E o \in BinOps : Binary(Tok("bin", o, 0, 0))
             \/ \E o \in CmpOps : Binary(Tok("cmp", o, 0, 0))
             \/ \E o \in BoolOps : Binary(Tok("bool", o, 0, 0))
             \/ \E f \in Funcs2 : Binary(Tok("call", f, 2, 0))
DoClose   == \E nm \in 1..MaxNames, ix \in LhsIdxs : CloseEq(nm, ix)

Next == DoPushVar \/ DoPushNum \/ DoUnary \/ DoBinary \/ Ternary \/ DoClose \/ DoVerbatim \/ Finish
Spec == Init /\ [][Next]_vars
Done == phase = "done"

----------------------------------------------------------------------------
(***************************************************************************)
(* Reference semantics of a finished program                               *)
(***************************************************************************)
N == Len(stmts)
AllTerms == terms
NameSeq == nameseq
Names   == {NameSeq[i] : i \in 1..Len(NameSeq)}

KindsOf(n)  == {AllTerms[i].s : i \in {j \in 1..Len(AllTerms) : AllTerms[j].n = n}}
Assigned(n) == \E i \in 1..N : stmts[i].lhs.n = n
Clash       == \E n \in Names : Cardinality(KindsOf(n)) > 1
DoubleDef   == \E i, j \in 1..N : i < j /\ stmts[i].lhs.n = stmts[j].lhs.n /\ stmts[i] # stmts[j]
Rejected    == Clash \/ DoubleDef

TypeOf(n) == IF "p" \in KindsOf(n) THEN "param" ELSE IF "e" \in KindsOf(n) THEN "error"
             ELSE IF Assigned(n) THEN "endo" ELSE "exo"
ClassSeq(c) == SelectSeq(NameSeq, LAMBDA n : TypeOf(n) = c)
ModelNames  == ClassSeq("endo") \o ClassSeq("exo") \o ClassSeq("param") \o ClassSeq("error")

Offsets(n) == {AllTerms[i].k : i \in {j \in 1..Len(AllTerms) : AllTerms[j].n = n /\ AllTerms[j].k # Named}}
MinOf(S) == IF S = {} THEN 0 ELSE CHOOSE x \in S : \A y \in S : x <= y
MaxOf(S) == IF S = {} THEN 0 ELSE CHOOSE x \in S : \A y \in S : x >= y
LagOf(n)  == MinOf(Offsets(n) \cup {0})       \* deepest lag of the name (<= 0)
LeadOf(n) == MaxOf(Offsets(n) \cup {0})       \* furthest lead of the name (>= 0)
AllOffsets == UNION {Offsets(n) : n \in Names}
Lags  == -MinOf(AllOffsets \cup {0})
Leads == MaxOf(AllOffsets \cup {0})

(* explicit lags=/leads= replace, min_lags=/min_leads= only raise; None is -1 *)
Max2(a, b) == IF a > b THEN a ELSE b
WithOpt(base, explicit, minimum) == IF explicit # -1 THEN explicit ELSE Max2(base, minimum)

(* 1-based positions p of a span of length L *)
Feasible(p, L)  == \A i \in 1..Len(AllTerms) : AllTerms[i].k # Named => (p + AllTerms[i].k >= 1 /\ p + AllTerms[i].k <= L)
DefaultRange(L) == {p \in 1..L : p >= Lags + 1 /\ p <= L - Leads}

(* evaluation order: statements in order of first appearance of the name they assign (identical duplicates once) *)
DefOf(n) == CHOOSE i \in 1..N : stmts[i].lhs.n = n /\ \A j \in 1..(i - 1) : stmts[j].lhs.n # n
EvalOrder == [i \in 1..Len(ClassSeq("endo")) |-> DefOf(ClassSeq("endo")[i])]

(* Gauss-Seidel: the reads of a statement see every cell written earlier in the same pass *)
Cell(tok) == <<tok.n, tok.k>>
RECURSIVE WrittenBefore(_)
WrittenBefore(i) == IF i <= 1 THEN {} ELSE WrittenBefore(i - 1) \cup {Cell(stmts[EvalOrder[i - 1]].lhs)}
ReadsOf(s) == SelectSeq(s.rhs, IsVar)
Events == [i \in 1..Len(EvalOrder) |->
             LET s == stmts[EvalOrder[i]]
                 w == WrittenBefore(i)
             IN  [stmt |-> EvalOrder[i],
                  reads |-> [j \in 1..Len(ReadsOf(s)) |->
                               [n |-> ReadsOf(s)[j].n, s |-> ReadsOf(s)[j].s, k |-> ReadsOf(s)[j].k,
                                ver |-> IF ReadsOf(s)[j].k # Named /\ Cell(ReadsOf(s)[j]) \in w THEN 1 ELSE 0]],
                  write |-> [n |-> s.lhs.n, k |-> s.lhs.k]]]
(* Verbatim statements carry no name: the symbol list is the named symbols in order of first appearance followed by   *)
(* the verbatim blocks in script order (parser.py:789-801), and the generated pass runs the equations in evaluation   *)
(* order and then the verbatim blocks (parser.py:1101-1109) - wherever in the script they were written.               *)
CodeOrder == [i \in 1..(Len(EvalOrder) + Len(verbat)) |->
                IF i <= Len(EvalOrder) THEN [kind |-> "eq", i |-> EvalOrder[i]] ELSE [kind |-> "verb", i |-> i - Len(EvalOrder)]]
(* dependency sets for the graph tool (C20): right-hand-side variable-like terms of each equation *)
Deps(i) == {<<ReadsOf(stmts[i])[j].n, ReadsOf(stmts[i])[j].k>> : j \in 1..Len(ReadsOf(stmts[i]))}

----------------------------------------------------------------------------
(* Theorems about the reference semantics, checked on every generated program *)
Seq2Set(q) == {q[i] : i \in 1..Len(q)}
C03_Partition ==
  (Done /\ ~Rejected) =>
     /\ Seq2Set(ModelNames) = Names /\ Len(ModelNames) = Cardinality(Names)
     /\ \A n \in Names : (TypeOf(n) = "endo") = (Assigned(n) /\ KindsOf(n) = {"v"})
C03_FirstAppearance ==
  (Done /\ ~Rejected) =>
     \A c \in {"endo", "exo", "param", "error"} :
        \A a, b \in 1..Len(ClassSeq(c)) : a < b =>
           (CHOOSE i \in 1..Len(NameSeq) : NameSeq[i] = ClassSeq(c)[a]) < (CHOOSE i \in 1..Len(NameSeq) : NameSeq[i] = ClassSeq(c)[b])
C03_Extremes ==
  Done => /\ Lags >= 0 /\ Leads >= 0
          /\ (Lags > 0 => \E i \in 1..Len(AllTerms) : AllTerms[i].k = -Lags)
          /\ (Leads > 0 => \E i \in 1..Len(AllTerms) : AllTerms[i].k = Leads)
          /\ \A i \in 1..Len(AllTerms) : AllTerms[i].k # Named => (AllTerms[i].k >= -Lags /\ AllTerms[i].k <= Leads)
(* the default solution range is exactly the set of periods at which every equation reads and writes inside the span *)
C03_RangeIsFeasibleSet ==
  Done => \A L \in (Lags + Leads + 1)..(Lags + Leads + 3) : DefaultRange(L) = {p \in 1..L : Feasible(p, L)}
C04_ReadsInside ==
  Done => \A L \in (Lags + Leads + 1)..(Lags + Leads + 3) : \A p \in DefaultRange(L) : Feasible(p, L)
(* every read of a cell written earlier in the pass is marked as seeing the new value, and nothing else is *)
C01_GaussSeidel ==
  (Done /\ ~Rejected) =>
     \A i \in 1..Len(Events) : \A j \in 1..Len(Events[i].reads) :
        LET r == Events[i].reads[j] IN
        (r.ver = 1) <=> (r.k # Named /\ \E h \in 1..(i - 1) : Events[h].write = [n |-> r.n, k |-> r.k])
C01_WritesOnlyLHS ==
  (Done /\ ~Rejected) => {Events[i].write : i \in 1..Len(Events)} = {[n |-> stmts[i].lhs.n, k |-> stmts[i].lhs.k] : i \in 1..N}
C20_DepsAreReads ==
  Done => \A i \in 1..N : Deps(i) = {<<t.n, t.k>> : t \in {TermsOf(stmts[i])[j] : j \in 2..Len(TermsOf(stmts[i]))}}
(* C13: "each [statement] contributes exactly one equation or verbatim block to the built model" *)
C13_OneBlockEach ==
  (Done /\ ~Rejected) =>
     /\ Len(CodeOrder) = Cardinality({stmts[i] : i \in 1..N}) + Len(verbat)
     /\ \A a, b \in 1..Len(CodeOrder) : (a < b /\ CodeOrder[a].kind = CodeOrder[b].kind) => CodeOrder[a].i # CodeOrder[b].i
     /\ \A a, b \in 1..Len(verbat) : a < b => verbat[a].after <= verbat[b].after       \* script order

TypeOK == phase \in {"build", "done"} /\ Len(stmts) <= MaxStmts /\ nodes <= MaxNodes /\ Len(verbat) <= MaxVerbatim
=============================================================================
