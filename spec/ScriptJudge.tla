---------------------------- MODULE ScriptJudge ----------------------------
(***************************************************************************)
(* Judge mode of the program space: the harness composes long scripts out  *)
(* of statements that the stack machine generated (many statements, many   *)
(* names, repeated mentions) and hands them over in a JSON file; every     *)
(* program is one initial state in phase "done", so the reference          *)
(* semantics and the theorems of Script.tla are evaluated on it and the    *)
(* usual record is emitted.  Nothing about the meaning of a program is     *)
(* decided outside the specification.                                      *)
(***************************************************************************)
EXTENDS ScriptMC, IOUtils

Programs == JsonDeserialize(IOEnv.PROGRAMS_FILE)

JInit == \E i \in 1..Len(Programs) :
           /\ i % NShards = Shard
           /\ stmts = Programs[i].stmts /\ verbat = Programs[i].verbat /\ stack = <<>> /\ leaves = 0 /\ nodes = 0 /\ used = 0
           /\ kinds = [n \in 1..MaxNames |-> ""] /\ phase = "done"
           /\ terms = TermsOfStmts(Programs[i].stmts) /\ nameseq = FirstSeen(TermsOfStmts(Programs[i].stmts), <<>>)
JNext == UNCHANGED vars
JTypeOK == phase = "done"
=============================================================================
