------------------------------ MODULE ScriptMC ------------------------------
EXTENDS Script, Json

CONSTANTS Shard, NShards

AllKinds == {"v", "p", "e"}
VOnly    == {"v"}
NoStr    == {}
KindIdx(s) == IF s = "v" THEN 0 ELSE IF s = "p" THEN 1 ELSE 2

(* layer alphabets (cfg files cannot hold negative numbers or mixed sets) *)
TermIdxs  == {0, -1, -2, -10, 1, 2, 12, Named}
PairIdxs  == {0, -1, 2}
ShapeIdxs == {0, -1}
MergeIdxs == {0, -1, 1, -2}
SimIdxs   == {0, -1, -2, 1, 3}
Lhs0      == {0}
Lhs01     == {0, 1}
PairNums  == {"2", "0.5"}
SimNums   == {"2", "0.5", "3", "10", "0.1", "1"}
ArithOps  == {"+", "-", "*", "/", "**"}
PlusOnly  == {"+"}
PowOnly   == {"**"}
PowDiv    == {"**", "/"}
PowNums   == {"0.5", "2", "3"}
PowInts   == {"1", "2"}
PowMul    == {"**", "*"}
TwoOnly   == {"2"}
OddNums   == {"0.00001", "10000000000000000.0", "1.", ".5", "0.50", "00.5", "100000000000000000000"}
ShapeOps  == {"+", "-", "*", "/", "**"}
PairCmps  == {"<", ">=", "=="}
LtOnly    == {"<"}
VerbSet   == {"len( 'a  b' )", "2  *  3"}
NoForms   == {}
BothForms == {"line", "fence"}
AndOr     == {"and", "or"}
AllCmps   == {"<", "<=", ">", ">=", "==", "!="}
FortIdxs  == {0, -1, 1}
FortNums  == {"2", "0.5", "0.1", "3"}
FortF1    == {"exp", "log", "abs"}
PairF1    == {"exp", "log", "abs", "np.sqrt"}
PairF2    == {"max", "min"}
NsF1      == {"vf.exp"}
NsF2      == {"vf.max", "max"}
SameForms == {"line", "fence", "same"}
MaxOnly   == {"max"}

(* sharding: the first two tokens of the first statement decide the shard *)
TokHash(x) == IF x.t = "var" THEN 7 * x.n + 3 * (x.k + 12) + KindIdx(x.s) ELSE IF x.t = "num" THEN 5 * Len(x.s) + 1 ELSE 2
RECURSIVE SeqHash(_)
SeqHash(q) == IF q = <<>> THEN 0 ELSE TokHash(Head(q)) + 31 * SeqHash(Tail(q))
RECURSIVE StackHash(_)
StackHash(st) == IF st = <<>> THEN 0 ELSE SeqHash(Head(st)) + 17 * StackHash(Tail(st))
ShardC == (stmts = <<>> /\ nodes = 2) => (StackHash(stack) % NShards = Shard)

OptCases == << [lags |-> -1, leads |-> -1, minlags |-> 0, minleads |-> 0],
               [lags |-> 0,  leads |-> -1, minlags |-> 0, minleads |-> 2],
               [lags |-> 3,  leads |-> 1,  minlags |-> 0, minleads |-> 0],
               [lags |-> -1, leads |-> 0,  minlags |-> 2, minleads |-> 0],
               [lags |-> -1, leads |-> -1, minlags |-> 1, minleads |-> 1],
               [lags |-> -1, leads |-> -1, minlags |-> 3, minleads |-> 0],
               [lags |-> 2,  leads |-> -1, minlags |-> 3, minleads |-> 3],
               [lags |-> -1, leads |-> 2,  minlags |-> 0, minleads |-> 3] >>
OptTable == [i \in 1..Len(OptCases) |->
               [opt |-> OptCases[i], lags |-> WithOpt(Lags, OptCases[i].lags, OptCases[i].minlags),
                leads |-> WithOpt(Leads, OptCases[i].leads, OptCases[i].minleads)]]

EmitRec == [stmts |-> stmts,
            reject |-> IF Clash /\ DoubleDef THEN "both" ELSE IF Clash THEN "clash" ELSE IF DoubleDef THEN "double" ELSE "none",
            names |-> [i \in 1..Len(NameSeq) |-> [n |-> NameSeq[i], type |-> TypeOf(NameSeq[i]), lag |-> LagOf(NameSeq[i]), lead |-> LeadOf(NameSeq[i])]],
            modelnames |-> ModelNames, lags |-> Lags, leads |-> Leads,
            evalorder |-> IF Rejected THEN <<>> ELSE EvalOrder,
            events |-> IF Rejected THEN <<>> ELSE Events,
            verbat |-> verbat, codeorder |-> IF Rejected THEN <<>> ELSE CodeOrder,
            opts |-> OptTable]
EmitInv == Done => PrintT(ToJson(EmitRec))
=============================================================================
