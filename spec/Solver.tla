------------------------------- MODULE Solver -------------------------------
(***************************************************************************)
(* One call of fsic.BaseModel.solve_t (fsic/core/models.py:173-425),       *)
(* written step by step like the implementation, plus a declarative        *)
(* property layer (C02, C06, write-part of C04) that is recomputed from    *)
(* the fault sequence `hist` alone and never from the machine's own        *)
(* bookkeeping.                                                            *)
(*                                                                         *)
(* Values: finite values are small integers, non-finite values are the     *)
(* codes NaN = 100, PInf = 101, NInf = 102.  Vectors are sequences over    *)
(* the model's convergence-check variables (for the scripted models used   *)
(* in replay, CHECK = ENDOGENOUS, one equation per variable, Gauss-Seidel  *)
(* order = vector order).                                                  *)
(***************************************************************************)
EXTENDS Integers, Sequences, FiniteSets, TLC

CONSTANTS Cfgs,     \* set of configuration records explored (options + initial cells)
          EqOuts,   \* set of per-equation outcomes of one evaluation pass: [kind, v]
          HookOuts, \* outcomes of a pre/post-solution hook: subset of {"ok", "exc"}
          HookWrites \* check vectors a hook may write into period t (<<>> = it writes nothing)

NaN  == 100
PInf == 101
NInf == 102
IsNF(v)      == v >= 100
AnyNF(vec)   == \E i \in 1..Len(vec) : IsNF(vec[i])
Abs(x)       == IF x < 0 THEN -x ELSE x
Zeroed(vec)  == [i \in 1..Len(vec) |-> IF IsNF(vec[i]) THEN 0 ELSE vec[i]]
AllBelow(a, b, tol) == \A i \in 1..Len(a) : Abs(a[i] - b[i]) < tol
Max2(a, b)   == IF a > b THEN a ELSE b

(***************************************************************************)
(* A configuration record `c` has the fields                               *)
(*   min, max, tol, failures, errors, cfe  - the keyword options           *)
(*   lags, leads                           - the instance's lag / lead     *)
(*                                           lengths                       *)
(*   L, t, offset                          - span length, period as passed *)
(*                                           (negative spellings allowed), *)
(*                                           offset                        *)
(*   c0   - check vector at t on entry                                     *)
(*   src  - check vector at t as it must be after a correct offset copy    *)
(*   st0, it0 - status / iterations at t on entry                          *)
(***************************************************************************)

VARIABLES cfg,    \* the configuration (constant during a behaviour)
          pc,     \* program counter
          k,      \* `iteration`
          cells,  \* the model's check-variable cells at period t
          cv,     \* the solver's local `current_values`
          pv,     \* the solver's local `previous_values`
          pend,   \* the solver's local `status`
          st, it, \* status[t], iterations[t]
          hist,   \* sequence of pass outcomes so far (the fault sequence)
          nB, nA, nP,   \* calls of solve_t_before / solve_t_after / _evaluate
          hb, ha, \* outcome of solve_t_before / solve_t_after: "none" (not called), "ok", "exc"
          wb, wa, \* check vector written by the pre / post hook (<<>> = nothing written)
          hc, hr, \* history variables of the declarative layer: hc[j] = cells after pass j as the
                  \* fault sequence dictates, hr[j] = the vector pass j+1 must be compared with
          res,    \* [kind, cause]: how the call ended
          other   \* TRUE iff any action wrote a cell outside period t

vars == <<cfg, pc, k, cells, cv, pv, pend, st, it, hist, nB, nA, nP, hb, ha, wb, wa, hc, hr, res, other>>

NV == Len(cfg.c0)
Running == [kind |-> "running", cause |-> "none"]

Start(c) == [cfg |-> c, pc |-> "guard", k |-> 0, cells |-> c.c0, cv |-> c.c0, pv |-> c.c0, pend |-> "-",
             st |-> c.st0, it |-> c.it0, hist |-> <<>>, nB |-> 0, nA |-> 0, nP |-> 0, hb |-> "none", ha |-> "none", wb |-> <<>>, wa |-> <<>>, hc |-> <<>>, hr |-> <<>>, res |-> Running,
             other |-> FALSE]

SetVars(s) == /\ cfg' = s.cfg /\ pc' = s.pc /\ k' = s.k /\ cells' = s.cells /\ cv' = s.cv /\ pv' = s.pv
              /\ pend' = s.pend /\ st' = s.st /\ it' = s.it /\ hist' = s.hist /\ nB' = s.nB /\ nA' = s.nA
              /\ nP' = s.nP /\ hb' = s.hb /\ ha' = s.ha /\ wb' = s.wb /\ wa' = s.wa /\ hc' = s.hc /\ hr' = s.hr /\ res' = s.res /\ other' = s.other

Init == \E c \in Cfgs :
          /\ cfg = c /\ pc = "guard" /\ k = 0 /\ cells = c.c0 /\ cv = c.c0 /\ pv = c.c0 /\ pend = "-"
          /\ st = c.st0 /\ it = c.it0 /\ hist = <<>> /\ nB = 0 /\ nA = 0 /\ nP = 0 /\ hb = "none" /\ ha = "none" /\ wb = <<>> /\ wa = <<>> /\ hc = <<>> /\ hr = <<>> /\ res = Running
          /\ other = FALSE

Finish(kind, cause) == pc' = "done" /\ res' = [kind |-> kind, cause |-> cause]

StrictWarn == cfg.errors = "raise" /\ cfg.cfe

TPos == IF cfg.t < 0 THEN cfg.t + cfg.L ELSE cfg.t     \* models.py:260-262

(* what the property text says period t holds when iteration starts: the offset copy, *)
(* then whatever the pre-solution hook wrote                                            *)
CellsStart  == IF cfg.offset # 0 THEN cfg.src ELSE cfg.c0
CellsAfter0 == IF wb = <<>> THEN CellsStart ELSE wb

----------------------------------------------------------------------------
(* models.py:251-256 *)
GuardMinMax ==
  /\ pc = "guard"
  /\ IF cfg.min > cfg.max
       THEN Finish("ValueError", "none")
       ELSE pc' = "feasible" /\ UNCHANGED res
  /\ UNCHANGED <<cfg, k, cells, cv, pv, pend, st, it, hist, nB, nA, nP, hb, ha, wb, wa, hc, hr, other>>

(* a period that cannot accommodate the instance's lags and leads is rejected (IndexError) before anything changes *)
Infeasible == TPos - cfg.lags < 0 \/ TPos + cfg.leads >= cfg.L
GuardFeasible ==
  /\ pc = "feasible"
  /\ IF Infeasible
       THEN Finish("IndexError", "none")
       ELSE pc' = "offset" /\ UNCHANGED res
  /\ UNCHANGED <<cfg, k, cells, cv, pv, pend, st, it, hist, nB, nA, nP, hb, ha, wb, wa, hc, hr, other>>

(* models.py:258-281 *)
OffsetStep ==
  /\ pc = "offset"
  /\ IF cfg.offset = 0
       THEN pc' = "precheck" /\ UNCHANGED <<cells, res>>
       ELSE IF TPos + cfg.offset < 0 \/ TPos + cfg.offset >= cfg.L
              THEN Finish("IndexError", "none") /\ UNCHANGED cells
              ELSE cells' = cfg.src /\ pc' = "precheck" /\ UNCHANGED res
  /\ UNCHANGED <<cfg, k, cv, pv, pend, st, it, hist, nB, nA, nP, hb, ha, wb, wa, hc, hr, other>>

(* models.py:283-293 *)
PreCheck ==
  /\ pc = "precheck"
  /\ cv' = cells
  /\ IF cfg.errors = "raise" /\ AnyNF(cells)
       THEN Finish("SolutionError", "none")
       ELSE pc' = "before" /\ UNCHANGED res
  /\ UNCHANGED <<cfg, k, cells, pv, pend, st, it, hist, nB, nA, nP, hb, ha, wb, wa, hc, hr, other>>

(* models.py:295-314 *)
(* The hook may itself write check variables of period t (w # <<>>); the   *)
(* solver's `current_values` were taken before the hook and stay stale.    *)
Before(b, w) ==
  /\ pc = "before"
  /\ nB' = nB + 1 /\ hb' = b /\ wb' = w
  /\ cells' = IF w = <<>> THEN cells ELSE w
  /\ IF b = "exc"
       THEN Finish("SolutionError", "hook")
       ELSE pc' = "loop" /\ UNCHANGED res
  /\ UNCHANGED <<cfg, k, cv, pv, pend, st, it, hist, nA, nP, ha, wa, hc, hr, other>>

(* models.py:316-317 and the for-else at 413-414 *)
LoopHead ==
  /\ pc = "loop"
  /\ IF k < cfg.max
       THEN pc' = "pass" /\ pv' = cv /\ UNCHANGED pend
       ELSE pc' = "stamp" /\ pend' = "F" /\ UNCHANGED pv
  /\ UNCHANGED <<cfg, k, cells, cv, st, it, hist, nB, nA, nP, hb, ha, wb, wa, hc, hr, res, other>>

(* One call of _evaluate (models.py:319-345).  `o` is the sequence of       *)
(* statements the pass executes, each [var, kind, v]: var is the index of  *)
(* the check variable assigned (0 = a variable that is not checked), kind  *)
(* is "set" (silent store of v), "warn" (v is non-finite and comes out of  *)
(* a warning-raising operation) or "exc" (the statement raises).  A        *)
(* statement that raises stops the pass: earlier statements have already   *)
(* stored (Gauss-Seidel), the raising one has not.                         *)
Raises(e)     == e.kind = "exc" \/ (e.kind = "warn" /\ StrictWarn)
FirstRaise(o) == IF \E i \in 1..Len(o) : Raises(o[i])
                   THEN CHOOSE i \in 1..Len(o) : Raises(o[i]) /\ \A j \in 1..(i-1) : ~Raises(o[j])
                   ELSE 0
Dummy(i)      == [var |-> i, kind |-> "set", v |-> 0]
Canonical(o)  == LET fr == FirstRaise(o) IN fr # 0 => \A i \in (fr+1)..Len(o) : o[i] = Dummy(o[i].var)
RECURSIVE ApplyN(_, _, _)
ApplyN(o, old, n) == IF n = 0 THEN old
                     ELSE LET prev == ApplyN(o, old, n - 1) IN
                          IF o[n].var = 0 THEN prev ELSE [prev EXCEPT ![o[n].var] = o[n].v]
Apply(o, old) == ApplyN(o, old, IF FirstRaise(o) = 0 THEN Len(o) ELSE FirstRaise(o) - 1)

Pass(o) ==
  /\ pc = "pass"
  /\ Canonical(o)
  /\ k' = k + 1 /\ nP' = nP + 1 /\ hist' = Append(hist, o)
  /\ LET prevC == IF k = 0 THEN CellsAfter0 ELSE hc[k]
         prevR == IF k = 0 THEN CellsStart ELSE hr[k]
         newC  == Apply(o, prevC)
     IN  /\ hc' = Append(hc, newC)
         /\ hr' = Append(hr, IF cfg.errors = "replace" /\ ~AnyNF(prevR) /\ AnyNF(newC) /\ k + 1 < cfg.max
                               THEN Zeroed(newC) ELSE newC)
  /\ cells' = Apply(o, cells)
  /\ IF FirstRaise(o) # 0
       THEN /\ IF cfg.errors = "raise" THEN st' = "E" /\ it' = k + 1 ELSE UNCHANGED <<st, it>>
            /\ Finish("SolutionError", IF o[FirstRaise(o)].kind = "exc" THEN "exc" ELSE "warning")
            /\ UNCHANGED cv
       ELSE /\ cv' = Apply(o, cells) /\ pc' = "judge" /\ UNCHANGED <<st, it, res>>
  /\ UNCHANGED <<cfg, pv, pend, nB, nA, hb, ha, wb, wa, other>>

(* models.py:347-412 *)
Judge ==
  /\ pc = "judge"
  /\ IF AnyNF(pv) THEN pc' = "loop" /\ UNCHANGED <<cv, pend, st, it, res>>
     ELSE IF AnyNF(cv) THEN
       CASE cfg.errors = "raise"   -> st' = "E" /\ it' = k /\ Finish("SolutionError", "none") /\ UNCHANGED <<cv, pend>>
         [] cfg.errors = "skip"    -> pend' = "S" /\ pc' = "stamp" /\ UNCHANGED <<cv, st, it, res>>
         [] cfg.errors = "ignore"  -> IF k = cfg.max THEN pend' = "F" /\ pc' = "stamp" /\ UNCHANGED <<cv, st, it, res>>
                                                     ELSE pc' = "loop" /\ UNCHANGED <<cv, pend, st, it, res>>
         [] cfg.errors = "replace" -> IF k = cfg.max THEN pend' = "F" /\ pc' = "stamp" /\ UNCHANGED <<cv, st, it, res>>
                                                     ELSE cv' = Zeroed(cv) /\ pc' = "loop" /\ UNCHANGED <<pend, st, it, res>>
         [] OTHER                  -> Finish("ValueError", "none") /\ UNCHANGED <<cv, pend, st, it>>
     ELSE IF k < cfg.min THEN pc' = "loop" /\ UNCHANGED <<cv, pend, st, it, res>>
     ELSE IF AllBelow(cv, pv, cfg.tol) THEN pc' = "after" /\ UNCHANGED <<cv, pend, st, it, res>>
     ELSE pc' = "loop" /\ UNCHANGED <<cv, pend, st, it, res>>
  /\ UNCHANGED <<cfg, k, cells, pv, hist, nB, nA, nP, hb, ha, wb, wa, hc, hr, other>>

(* models.py:390-412 *)
After(a, w) ==
  /\ pc = "after"
  /\ nA' = nA + 1 /\ ha' = a /\ wa' = w
  /\ cells' = IF w = <<>> THEN cells ELSE w
  /\ IF a = "exc"
       THEN Finish("SolutionError", "hook") /\ UNCHANGED pend
       ELSE pend' = "." /\ pc' = "stamp" /\ UNCHANGED res
  /\ UNCHANGED <<cfg, k, cv, pv, st, it, hist, nB, nP, hb, wb, hc, hr, other>>

(* models.py:416-417 *)
Stamp ==
  /\ pc = "stamp"
  /\ st' = pend /\ it' = k
  /\ pc' = "finish"
  /\ UNCHANGED <<cfg, k, cells, cv, pv, pend, hist, nB, nA, nP, hb, ha, wb, wa, hc, hr, res, other>>

(* models.py:419-425 *)
Return ==
  /\ pc = "finish"
  /\ IF pend = "F" /\ cfg.failures = "raise"
       THEN Finish("NonConvergenceError", "none")
       ELSE Finish(IF pend = "." THEN "True" ELSE "False", "none")
  /\ UNCHANGED <<cfg, k, cells, cv, pv, pend, st, it, hist, nB, nA, nP, hb, ha, wb, wa, hc, hr, other>>

(* model checking: one statement per check variable, in vector order *)
PassOuts == { [i \in 1..NV |-> [var |-> i, kind |-> f[i].kind, v |-> f[i].v]] : f \in [1..NV -> EqOuts] }

DoBefore == \E b \in HookOuts, w \in HookWrites : (w = <<>> \/ Len(w) = NV) /\ Before(b, w)
DoPass   == \E o \in PassOuts : Pass(o)
DoAfter  == \E a \in HookOuts, w \in HookWrites : (w = <<>> \/ Len(w) = NV) /\ After(a, w)

Next == GuardMinMax \/ GuardFeasible \/ OffsetStep \/ PreCheck \/ DoBefore \/ LoopHead \/ DoPass \/ Judge \/ DoAfter \/ Stamp \/ Return

Spec     == Init /\ [][Next]_vars
FairSpec == Spec /\ WF_vars(Next)

Done == pc = "done"

----------------------------------------------------------------------------
(***************************************************************************)
(* Declarative layer.  Everything below is a function of cfg and hist      *)
(* only: what the property text says must have happened given the option   *)
(* set and the sequence of pass outcomes.                                  *)
(***************************************************************************)
(* cells after the pre-hook (j = 0) and after pass j; the vector the solver  *)
(* compares pass j+1 against: the cells after pass j, except that under      *)
(* 'replace' a freshly non-finite vector is zeroed in the solver's copy (not *)
(* in the model) when further passes remain.                                 *)
CellsAfter(j) == IF j = 0 THEN CellsAfter0 ELSE hc[j]
RemAfter(j)   == IF j = 0 THEN CellsStart ELSE hr[j]
CellsFinal    == IF wa = <<>> THEN CellsAfter(nP) ELSE wa

PassRaises(j) == FirstRaise(hist[j]) # 0
(* "a non-finite check value although the previous pass (or the start) had only finite ones" *)
FreshFault(j) == ~PassRaises(j) /\ ~AnyNF(RemAfter(j - 1)) /\ AnyNF(CellsAfter(j))
(* pass j is the converging pass *)
Converges(j)  == /\ ~PassRaises(j)
                 /\ ~AnyNF(RemAfter(j - 1)) /\ ~AnyNF(CellsAfter(j))
                 /\ j >= Max2(1, cfg.min) /\ j <= cfg.max
                 /\ AllBelow(CellsAfter(j), RemAfter(j - 1), cfg.tol)

OffsetBad    == cfg.offset # 0 /\ (TPos + cfg.offset < 0 \/ TPos + cfg.offset >= cfg.L)
RejectedKind == IF cfg.min > cfg.max THEN "ValueError"
                ELSE IF Infeasible THEN "IndexError"
                ELSE IF OffsetBad THEN "IndexError"
                ELSE IF cfg.errors = "raise" /\ AnyNF(CellsStart) THEN "SolutionError"
                ELSE "none"

Untouched == st = cfg.st0 /\ it = cfg.it0

(* C02: first converging pass *)
C02_FirstConv ==
  (Done /\ res.kind = "True") =>
     /\ st = "." /\ it = nP /\ nP >= 1 /\ Converges(nP) /\ \A j \in 1..(nP - 1) : ~Converges(j)
     /\ nA = 1 /\ nB = 1
C02_SolvedIffTrue ==
  (Done /\ st = "." /\ cfg.st0 # ".") => res.kind = "True"

(* C02: failure to converge *)
C02_Fail ==
  (Done /\ st = "F" /\ RejectedKind = "none" /\ res.kind \in {"False", "NonConvergenceError"}) =>
     /\ it = cfg.max /\ nP = cfg.max
     /\ \A j \in 1..cfg.max : ~Converges(j)
     /\ res.kind = (IF cfg.failures = "raise" THEN "NonConvergenceError" ELSE "False")
     /\ nA = 0 /\ nB = 1

(* C02 / C04: calls rejected up front change nothing *)
C02_Rejected ==
  (Done /\ RejectedKind # "none") =>
     /\ res.kind = RejectedKind
     /\ Untouched /\ nB = 0 /\ nP = 0 /\ nA = 0
     /\ cells = (IF RejectedKind = "SolutionError" THEN CellsStart ELSE cfg.c0)

(* the only way out of a non-rejected call without an exception from a hook/pass/policy *)
C02_Complete ==
  (Done /\ RejectedKind = "none" /\ res.kind \in {"True", "False", "NonConvergenceError"}) =>
     /\ it = nP /\ nB = 1
     /\ (res.kind = "True") = (st = ".")
     /\ st \in {".", "F", "S"}
     /\ (st = "." => Converges(nP))
     /\ (st = "F" => nP = cfg.max)
     /\ cells = CellsFinal

C02_Hooks == nB <= 1 /\ nA <= 1 /\ (nP > 0 => nB = 1) /\ (nA = 1 => nP > 0)

(* C06: policy on a fresh fault *)
C06_Raise ==
  (Done /\ cfg.errors = "raise" /\ RejectedKind = "none" /\ hb # "exc") =>
     \A j \in 1..nP : (FreshFault(j) \/ PassRaises(j)) =>
        /\ j = nP /\ st = "E" /\ it = j /\ res.kind = "SolutionError"
        /\ (PassRaises(j) <=> res.cause \in {"exc", "warning"})
C06_Skip ==
  (Done /\ cfg.errors = "skip" /\ RejectedKind = "none" /\ hb # "exc") =>
     \A j \in 1..nP : (FreshFault(j) /\ \A i \in 1..(j-1) : ~Converges(i)) =>
        j = nP /\ st = "S" /\ it = j /\ res.kind = "False"
C06_KeepGoing ==
  (Done /\ cfg.errors \in {"ignore", "replace"}) => st \notin {"E", "S"} \/ st = cfg.st0
C06_Statuses ==
  /\ st \in {"-", ".", "F", "E", "S"}
  /\ (Done /\ res.kind = "True") => st = "."
(* exceptions in passes and hooks surface as SolutionError chained to the original *)
C06_Chained ==
  Done =>
     /\ (nP > 0 /\ PassRaises(nP)) => (res.kind = "SolutionError" /\ res.cause \in {"exc", "warning"})
     /\ (hb = "exc" /\ RejectedKind = "none") => (res = [kind |-> "SolutionError", cause |-> "hook"] /\ nP = 0 /\ Untouched)
     /\ (nA = 1 /\ ha = "exc") => (res = [kind |-> "SolutionError", cause |-> "hook"] /\ Untouched)
(* with catch_first_error the raising statement does not store *)
C06_NoStoreOnCatch ==
  (Done /\ nP > 0 /\ PassRaises(nP)) =>
     LET fr == FirstRaise(hist[nP])
         w  == hist[nP][fr].var
     IN  w # 0 => cells[w] = ApplyN(hist[nP], CellsAfter(nP - 1), fr - 1)[w]
(* a pass that starts from non-finite remembered values is never judged *)
C06_NeverJudged ==
  (Done /\ res.kind = "True") => ~AnyNF(RemAfter(nP - 1))

(* C04 (solver part): nothing outside period t is written *)
C04_OnlyT == other = FALSE

TypeOK == /\ pc \in {"guard", "feasible", "offset", "precheck", "before", "loop", "pass", "judge", "after", "stamp", "finish", "done", "idle"}
          /\ k \in 0..cfg.max /\ nP = k /\ Len(hist) = k

Termination == <>Done
=============================================================================
