----------------------------- MODULE SolverInd -----------------------------
(***************************************************************************)
(* The iteration skeleton of BaseModel.solve_t (models.py:300-420) for     *)
(* UNBOUNDED min_iter / max_iter, in a form Apalache can take: integers    *)
(* and strings only.  Solver.tla is the implementation-shaped machine that *)
(* TLC explores for max_iter <= 3 (12 in simulation) and that the replay   *)
(* and trace checks bind to the code; this module re-states the part of it *)
(* that decides C02's "first k" claim - the for/else loop, the min_iter    *)
(* gate and the stamping - and proves the claim for every min_iter and     *)
(* max_iter by an inductive invariant:                                     *)
(*                                                                         *)
(*    apalache-mc check --init=IndInit --inv=IndInv --length=1             *)
(*    apalache-mc check --init=Init    --inv=IndInv --length=0             *)
(*    IndInv => C02_FirstConv /\ C02_Fail /\ C02_Rejected  (by --inv on    *)
(*    IndInit with length 0)                                               *)
(*                                                                         *)
(* TLC checks the same invariants on small constants (SolverIndMC.cfg) and *)
(* that Solver.tla's core slice projects onto this machine's reachable     *)
(* outcomes (props/c02.py compares the (min, max, first-below) -> (status, *)
(* iterations) table of both).                                             *)
(*                                                                         *)
(* Pass outcomes are abstracted to one bit: "every check variable moved by *)
(* less than tol in this pass and both vectors were finite" (below).  The  *)
(* ghost variable `first` follows the property's own definition - the      *)
(* first pass k >= max(1, min_iter) that is below - and is updated when    *)
(* the pass happens, independently of what the loop then does with it.     *)
(***************************************************************************)
EXTENDS Integers

CONSTANTS
  \* @type: Int;
  MinIter,
  \* @type: Int;
  MaxIter

VARIABLES
  \* @type: Str;
  pc,
  \* @type: Int;
  k,
  \* @type: Bool;
  below,
  \* @type: Int;
  first,
  \* @type: Str;
  st,
  \* @type: Int;
  it,
  \* @type: Str;
  res

vars == <<pc, k, below, first, st, it, res>>

Max2(a, b) == IF a > b THEN a ELSE b
Lo == Max2(1, MinIter)

ConstInit == MinIter \in Int /\ MaxIter \in Int /\ MinIter >= 0 /\ MaxIter >= 0

Init == pc = "guard" /\ k = 0 /\ below = FALSE /\ first = 0 /\ st = "-" /\ it = -1 /\ res = "running"

(* models.py:300-304  min_iter > max_iter is rejected before anything else *)
Guard ==
  /\ pc = "guard"
  /\ IF MinIter > MaxIter THEN pc' = "done" /\ res' = "ValueError" ELSE pc' = "loop" /\ res' = res
  /\ UNCHANGED <<k, below, first, st, it>>

(* for iteration in range(1, max_iter + 1): ... else: status = 'F' *)
LoopHead ==
  /\ pc = "loop"
  /\ IF k < MaxIter
       THEN /\ k' = k + 1
            /\ below' \in BOOLEAN
            /\ first' = IF first = 0 /\ k + 1 >= Lo /\ below' THEN k + 1 ELSE first
            /\ pc' = "judge"
            /\ UNCHANGED <<st, it, res>>
       ELSE /\ st' = "F" /\ it' = MaxIter /\ res' = "False" /\ pc' = "done"
            /\ UNCHANGED <<k, below, first>>

(* if iteration < min_iter: continue ; if all(|diff| < tol): status = '.'; break *)
Judge ==
  /\ pc = "judge"
  /\ IF k < MinIter THEN pc' = "loop" /\ UNCHANGED <<st, it, res>>
     ELSE IF below THEN st' = "." /\ it' = k /\ res' = "True" /\ pc' = "done"
     ELSE pc' = "loop" /\ UNCHANGED <<st, it, res>>
  /\ UNCHANGED <<k, below, first>>

Next == Guard \/ LoopHead \/ Judge \/ (pc = "done" /\ UNCHANGED vars)
Spec == Init /\ [][Next]_vars

----------------------------------------------------------------------------
TypeOK ==
  /\ pc \in {"guard", "loop", "judge", "done"}
  /\ st \in {"-", ".", "F"}
  /\ res \in {"running", "True", "False", "ValueError"}
  /\ k \in Int /\ first \in Int /\ it \in Int /\ below \in BOOLEAN

(* the inductive invariant *)
IndInv ==
  /\ TypeOK
  /\ MinIter >= 0 /\ MaxIter >= 0
  /\ 0 <= k /\ k <= MaxIter
  /\ 0 <= first /\ first <= k
  /\ (first # 0 => first >= Lo)
  /\ (pc = "guard" => k = 0 /\ first = 0 /\ st = "-" /\ it = -1 /\ res = "running")
  /\ (pc \in {"loop", "judge"} => MinIter <= MaxIter /\ st = "-" /\ it = -1 /\ res = "running")
  /\ (pc = "loop" => first = 0)                          \* had a pass in range been below, the loop would have stopped there
  /\ (pc = "judge" => k >= 1 /\ (first = 0 \/ first = k) /\ (first = k <=> (k >= Lo /\ below)))
  /\ (pc = "done" =>
        \/ res = "ValueError" /\ MinIter > MaxIter /\ st = "-" /\ it = -1 /\ k = 0 /\ first = 0
        \/ res = "True" /\ st = "." /\ it = k /\ first = k /\ k >= Lo /\ MinIter <= MaxIter
        \/ res = "False" /\ st = "F" /\ it = MaxIter /\ k = MaxIter /\ first = 0 /\ MinIter <= MaxIter)

IndInit == ConstInit /\ IndInv

(* the claims of C02 that concern the iteration count, for every min_iter and max_iter *)
C02_FirstConv == (pc = "done" /\ st = ".") => (it = first /\ first >= Lo /\ first <= MaxIter /\ res = "True")
C02_Fail      == (pc = "done" /\ st = "F") => (first = 0 /\ it = MaxIter /\ res = "False")
C02_Rejected  == (pc = "done" /\ res = "ValueError") => (st = "-" /\ it = -1 /\ k = 0)
C02_SolvedIffTrue == pc = "done" => ((st = ".") <=> (res = "True"))
Claims == C02_FirstConv /\ C02_Fail /\ C02_Rejected /\ C02_SolvedIffTrue
=============================================================================
