------------------------------ MODULE SolverMC ------------------------------
(* Model-checking instances ("slices") of Solver and the emission of        *)
(* terminal behaviours for replay into the real solve_t.                    *)
EXTENDS Solver, Json

CONSTANTS Shard, NShards, MaxI

NoWrites == {<<>>}
SomeWrites == {<<>>, <<1>>, <<NaN>>}
BothHooks == {"ok", "exc"}
OkHooks   == {"ok"}
S(v) == [kind |-> "set",  v |-> v]
W(v) == [kind |-> "warn", v |-> v]
X    == [kind |-> "exc",  v |-> 0]

ErrSeq == <<"raise", "skip", "ignore", "replace", "bogus">>
ErrIdx(e) == CHOOSE i \in 1..5 : ErrSeq[i] = e
B2N(b) == IF b THEN 1 ELSE 0
ShardOf(c) == (c.min + 3 * c.max + 7 * c.tol + 11 * B2N(c.cfe) + 13 * ErrIdx(c.errors)
               + 17 * B2N(c.failures = "raise") + 19 * (c.t + c.L) + 23 * (c.offset + 5)
               + 37 * (IF Len(c.c0) = 0 THEN 3 ELSE c.c0[1])) % NShards
Sharded(C) == {c \in C : ShardOf(c) = Shard}

Mk(mins, maxs, tols, fails, errs, cfes, Ls, offs, c0s, srcs) ==
  { c \in [min : mins, max : maxs, tol : tols, failures : fails, errors : errs, cfe : cfes,
           L : Ls, t : -3..2, lags : {0}, leads : {0}, offset : offs, c0 : c0s, src : srcs,
           st0 : {"-"}, it0 : {-1}] :
      /\ c.t >= -c.L /\ c.t < c.L
      /\ Len(c.src) = Len(c.c0)
      /\ (c.offset = 0 => c.src = c.c0) }

(* S-core: one check variable, full option lattice x fault alphabet *)
CoreCfgs == { c \in Mk(0..(MaxI + 1), 0..MaxI, {0, 1, 2}, {"raise", "ignore"},
                       {"raise", "skip", "ignore", "replace", "bogus"}, BOOLEAN, {3}, {0},
                       {<<0>>, <<NaN>>}, {<<0>>, <<NaN>>}) : c.t = 1 }
CoreOuts == {S(0), S(1), S(2), S(NaN), S(PInf), W(NaN), W(NInf), X}

(* S-guard: period spellings x offsets x span lengths x the three up-front rejections *)
GuardCfgs == { [c EXCEPT !.st0 = s, !.it0 = (IF s = "-" THEN -1 ELSE 1), !.lags = ll[1], !.leads = ll[2]] :
                 s \in {"-", ".", "F"}, ll \in {<<0, 0>>, <<1, 0>>, <<0, 1>>, <<1, 1>>}, c \in Mk({0, 2}, {1}, {1}, {"raise", "ignore"}, {"raise", "ignore", "skip"}, {TRUE}, 1..3, -2..2,
                        {<<0>>, <<NaN>>}, {<<0>>, <<1>>, <<PInf>>}) }
GuardOuts == {S(0), S(1)}

(* S-vec: two check variables (all-vs-any, per-equation faults, partial passes) *)
VecCfgs == { c \in Mk(0..2, 0..MaxI, {1}, {"ignore"}, {"raise", "skip", "ignore", "replace"}, BOOLEAN, {3}, {0, -1},
                      {<<0, 0>>, <<0, NaN>>}, {<<0, 0>>, <<1, 0>>}) : c.t = 1 }
VecOuts == {S(0), S(1), S(NaN), W(PInf), X}

(* S-hook: hooks that themselves write the check variable of period t *)
HookCfgs == { c \in Mk(0..2, 0..MaxI, {1}, {"ignore"}, {"raise", "skip", "replace"}, {TRUE}, {3}, {0},
                       {<<0>>}, {<<0>>}) : c.t = 1 }
HookOutsEq == {S(0), S(1), S(NaN)}
HookCfgsS == Sharded(HookCfgs)

(* S-empty: a model whose list of check variables is empty (every pass is trivially "below") *)
EmptyCfgs == { c \in Mk(0..3, 0..MaxI, {0, 1}, {"raise", "ignore"}, {"raise", "skip", "replace"}, {TRUE}, {3}, {0, 1, 2, -2},
                        {<<>>}, {<<>>}) : c.t = 1 }
EmptyOuts == {S(0)}
EmptyCfgsS == Sharded(EmptyCfgs)

(* S-deep: one deterministic behaviour - tol = 0, so no pass is ever below it - that runs for MaxI passes (long traces) *)
DeepCfgs == { c \in Mk({0}, {MaxI}, {0}, {"ignore"}, {"ignore"}, {TRUE}, {3}, {0}, {<<0, 0>>}, {<<0, 0>>}) : c.t = 1 }
DeepOuts == {S(1)}

(* S-long: simulation over a wide product *)
LongCfgs == { c \in Mk(0..(MaxI + 1), 0..MaxI, {0, 1, 2, 3}, {"raise", "ignore"},
                       {"raise", "skip", "ignore", "replace", "bogus"}, BOOLEAN, {2, 4}, {-1, 0, 1},
                       {<<0, 1>>, <<2, NaN>>, <<0, 0>>}, {<<0, 1>>, <<1, 1>>, <<NInf, 0>>}) : TRUE }
LongOuts == {S(0), S(1), S(2), S(3), S(NaN), S(PInf), S(NInf), W(NaN), W(PInf), W(NInf), X}

CoreCfgsS  == Sharded(CoreCfgs)
GuardCfgsS == Sharded(GuardCfgs)
VecCfgsS   == Sharded(VecCfgs)
LongCfgsS  == Sharded(LongCfgs)

EmitRec == [cfg |-> cfg, hist |-> hist,
            fin |-> [st |-> st, it |-> it, res |-> res, cells |-> cells, nB |-> nB, nA |-> nA, nP |-> nP, hb |-> hb, ha |-> ha, wb |-> wb, wa |-> wa]]
EmitInv == Done => PrintT(ToJson(EmitRec))
=============================================================================
