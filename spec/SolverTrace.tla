---------------------------- MODULE SolverTrace ----------------------------
(***************************************************************************)
(* code -> spec: validates recorded executions of the real solve_t against *)
(* the actions of Solver.  One input file holds many episodes (one per     *)
(* call of solve_t); each event is consumed by the Solver action it was    *)
(* emitted from, the remaining Solver actions are silent steps.  Float     *)
(* vectors are abstracted by the harness (harness/trace_solver.py) into    *)
(* the small-integer domain of Solver such that "moved by less than tol"   *)
(* is preserved exactly (abstract tol = 1).                                *)
(***************************************************************************)
EXTENDS Solver, Json, IOUtils

TraceLog == JsonDeserialize(IOEnv.TRACE_FILE)
N == Len(TraceLog)

VARIABLE l      \* index of the next event to consume
tvars == <<vars, l>>

Ev == TraceLog[l]
Is(e) == l <= N /\ TraceLog[l].ev = e
Consume == l' = l + 1

IdleCfg == [min |-> 0, max |-> 0, tol |-> 1, failures |-> "ignore", errors |-> "ignore", cfe |-> FALSE,
            L |-> 1, t |-> 0, lags |-> 0, leads |-> 0, offset |-> 0, c0 |-> <<>>, src |-> <<>>, st0 |-> "-", it0 |-> -1]

TraceInit ==
  /\ l = 1
  /\ cfg = IdleCfg /\ pc = "idle" /\ k = 0 /\ cells = <<>> /\ cv = <<>> /\ pv = <<>> /\ pend = "-"
  /\ st = "-" /\ it = -1 /\ hist = <<>> /\ nB = 0 /\ nA = 0 /\ nP = 0 /\ hb = "none" /\ ha = "none" /\ wb = <<>> /\ wa = <<>> /\ hc = <<>> /\ hr = <<>>
  /\ res = Running /\ other = FALSE

(* the hook reports the class of __cause__ only: "none", "warning" or "other" *)
CauseOk(spec, logged) == CASE spec = "none"    -> logged = "none"
                           [] spec = "warning" -> logged = "warning"
                           [] spec = "exc"     -> logged = "other"
                           [] spec = "hook"    -> logged \in {"other", "warning"}

(* -- event-consuming steps ------------------------------------------------ *)
TEnter   == Is("enter") /\ pc = "idle" /\ SetVars(Start(Ev.cfg)) /\ Consume
TOffset  == Is("offset") /\ OffsetStep /\ pc' = "precheck" /\ cfg.offset # 0 /\ cells' = Ev.chk /\ Consume
TBefore  == Is("before_done") /\ Before("ok", Ev.w) /\ Consume
TPass    == Is("pass") /\ Pass(Ev.o) /\ FirstRaise(Ev.o) = 0 /\ k' = Ev.k /\ cells' = Ev.chk /\ Consume
TRaised  == Is("pass_raised") /\ Pass(Ev.o) /\ FirstRaise(Ev.o) # 0 /\ k' = Ev.k /\ cells' = Ev.chk /\ Consume
TAfter   == Is("after_done") /\ After("ok", Ev.w) /\ Consume
TStamp   == Is("stamp") /\ Stamp /\ st' = Ev.st /\ it' = Ev.it /\ Consume
TExit    == /\ Is("exit") /\ pc = "done"
            /\ res.kind = Ev.kind /\ CauseOk(res.cause, Ev.cause)
            /\ st = Ev.st /\ it = Ev.it /\ cells = Ev.chk
            /\ pc' = "idle" /\ Consume
            /\ UNCHANGED <<cfg, k, cells, cv, pv, pend, st, it, hist, nB, nA, nP, hb, ha, wb, wa, hc, hr, res, other>>

(* -- silent steps (no hook at these code points) -------------------------- *)
Silent == /\ \/ GuardMinMax
             \/ GuardFeasible
             \/ (OffsetStep /\ (cfg.offset = 0 \/ pc' = "done"))
             \/ PreCheck
             \/ Before("exc", <<>>)
             \/ LoopHead
             \/ Judge
             \/ After("exc", <<>>)
             \/ Return
          /\ UNCHANGED l

TraceNext == TEnter \/ TOffset \/ TBefore \/ TPass \/ TRaised \/ TAfter \/ TStamp \/ TExit \/ Silent
TraceSpec == TraceInit /\ [][TraceNext]_tvars

(* acceptance: some behaviour consumed every event *)
Track == TLCSet(1, IF TLCGet(1) > l THEN TLCGet(1) ELSE l)
ASSUME TLCSet(1, 0)
Accepted == /\ PrintT(<<"CONSUMED", TLCGet(1) - 1, "OF", N>>)
            /\ TLCGet(1) = N + 1

(* every Solver invariant is evaluated at every step of every real execution *)
AtDone(P) == pc = "idle" \/ P
=============================================================================
