-------------------------------- MODULE Span --------------------------------
(***************************************************************************)
(* Labelled spans of fsic.core.VectorContainer - operators only.           *)
(*                                                                         *)
(* A span is a sequence of label ids (small positive integers).  Positions *)
(* are 1-based here (the adapters subtract 1).                             *)
(*                                                                         *)
(* Part 1 is the DECLARATIVE reading of property C10: Pos / SliceSet say   *)
(* which periods a label or a label slice addresses.                       *)
(* Part 2 is a TRANSCRIPTION of fsic/core/containers.py:81-105, 305-381    *)
(* (`_locate_period_in_span*`, `_resolve_period_slice`) and of Python's    *)
(* basic slicing, branch by branch.  The machines (LabelAccess, Reindex)   *)
(* are built from part 2; their property layers are stated with part 1.    *)
(*                                                                         *)
(* `kind` appears only where the code branches on the span's type:         *)
(*   "get_loc"  - the span has a get_loc method (pandas indexes)           *)
(*   "index"    - it has an index method (list, tuple, range)              *)
(*   "fallback" - neither (NumPy arrays): `==` search over an object array *)
(* Only "get_loc" spans can answer a lookup with a slice: a COARSE label   *)
(* (a year against a quarterly PeriodIndex / a DatetimeIndex) resolves to  *)
(* the run of periods it contains, as a half-open slice - which is why the *)
(* inclusive-stop adjustment of _resolve_period_slice is conditional.      *)
(***************************************************************************)
EXTENDS Integers, Sequences, FiniteSets

None   == 0      \* "None": an open slice end / a missing step
Absent == 0      \* Pos: the label is not in the span
Multi  == -1     \* Pos: the label occurs more than once

Kinds == {"get_loc", "index", "fallback"}

(* Coarse labels: label ids 1..9 are periods; 10+g is the coarse label of  *)
(* group g.  Fixed grouping (two "years" of "quarters"): {1,2} and {3,4,5}.*)
IsCoarse(l)   == l > 10
GroupOf(id)   == IF id <= 2 THEN 1 ELSE 2
CoarseOf(id)  == 10 + GroupOf(id)
CoarseLabels  == {11, 12}

SetMin(S) == CHOOSE x \in S : \A y \in S : x <= y
SetMax(S) == CHOOSE x \in S : \A y \in S : x >= y

Distinct(span) == \A i, j \in 1..Len(span) : i # j => span[i] # span[j]
Sorted(span)   == \A i \in 1..(Len(span) - 1) : span[i] < span[i + 1]

----------------------------------------------------------------------------
(* Part 1 - declarative                                                    *)

Occ(span, l) == {i \in 1..Len(span) : span[i] = l}

Pos(span, l) ==
  IF Occ(span, l) = {} THEN Absent
  ELSE IF Cardinality(Occ(span, l)) = 1 THEN CHOOSE i \in Occ(span, l) : TRUE
  ELSE Multi

(* periods contained in a coarse label; only pandas-type spans know about them *)
CoarseOcc(span, kind, l) ==
  IF kind = "get_loc" /\ IsCoarse(l) THEN {i \in 1..Len(span) : CoarseOf(span[i]) = l} ELSE {}

(* The position a label denotes as the FIRST end of a slice (open = first period) ... *)
StartPos(span, kind, a) ==
  IF a = None THEN (IF Len(span) > 0 THEN 1 ELSE Absent)
  ELSE IF IsCoarse(a) THEN (IF CoarseOcc(span, kind, a) = {} THEN Absent ELSE SetMin(CoarseOcc(span, kind, a)))
  ELSE Pos(span, a)

(* ... and as the LAST end (open = last period); the stop is INCLUSIVE. *)
StopPos(span, kind, b) ==
  IF b = None THEN (IF Len(span) > 0 THEN Len(span) ELSE Absent)
  ELSE IF IsCoarse(b) THEN (IF CoarseOcc(span, kind, b) = {} THEN Absent ELSE SetMax(CoarseOcc(span, kind, b)))
  ELSE Pos(span, b)

Present(p) == p >= 1

StepOf(s) == IF s = None THEN 1 ELSE s

(* positions addressed by obj[name, a:b:s], s > 0: pos(a) through pos(b) inclusive in steps *)
(* of s; nothing if pos(a) > pos(b).  Defined when both ends are Present.                   *)
SliceSet(span, kind, a, b, s) ==
  LET pa == StartPos(span, kind, a)
      pb == StopPos(span, kind, b)
  IN  {i \in 1..Len(span) : pa <= i /\ i <= pb /\ (i - pa) % StepOf(s) = 0}

SliceDefined(span, kind, a, b) == Present(StartPos(span, kind, a)) /\ Present(StopPos(span, kind, b))

(* ascending enumeration of a set of positions *)
RECURSIVE SeqOfSet(_)
SeqOfSet(S) == IF S = {} THEN <<>> ELSE <<SetMin(S)>> \o SeqOfSet(S \ {SetMin(S)})

----------------------------------------------------------------------------
(* Part 2 - transcription                                                  *)

(* result of one lookup: an int position, a half-open slice [lo, hi), a    *)
(* KeyError, or something the code cannot use (boolean mask / int array)   *)
LocErr          == [t |-> "err",   lo |-> 0,  hi |-> 0]
LocOther        == [t |-> "other", lo |-> 0,  hi |-> 0]
LocInt(p)       == [t |-> "int",   lo |-> p,  hi |-> p]
LocSlice(lo, hi) == [t |-> "slice", lo |-> lo, hi |-> hi]

(* list.index / range.index: first match; ValueError -> KeyError (containers.py:315-321) *)
ListIndex(span, l) ==
  IF Occ(span, l) = {} THEN LocErr ELSE LocInt(SetMin(Occ(span, l)))

(* containers.py:81-99; NotImplementedError for several matches is turned into KeyError at :324-327 *)
FallbackLocate(span, l) ==
  LET positions == Occ(span, l)
  IN  IF Cardinality(positions) = 0 THEN LocErr
      ELSE IF Cardinality(positions) = 1 THEN LocInt(CHOOSE i \in positions : TRUE)
      ELSE LocErr

(* pandas Index.get_loc (containers.py:315-321).  Unique exact label -> int.  A coarse label *)
(* on a monotonic index -> the half-open slice of the periods inside it (KeyError if there    *)
(* are none).  Repeated labels / coarse labels on an unsorted index give masks or integer     *)
(* arrays: outside the property (C10 interpretation note), never generated.                   *)
GetLoc(span, l) ==
  IF IsCoarse(l)
    THEN IF ~Sorted(span) THEN LocOther
         ELSE LET m == {i \in 1..Len(span) : CoarseOf(span[i]) = l}
              IN  IF m = {} THEN LocErr ELSE LocSlice(SetMin(m), SetMax(m) + 1)
    ELSE IF Occ(span, l) = {} THEN LocErr
         ELSE IF Cardinality(Occ(span, l)) = 1 THEN LocInt(CHOOSE i \in Occ(span, l) : TRUE)
         ELSE LocOther

(* containers.py:305-349: the first applicable method of _VALID_INDEX_METHODS decides *)
Locate(span, kind, l) ==
  CASE kind = "get_loc"  -> GetLoc(span, l)
    [] kind = "index"    -> ListIndex(span, l)
    [] kind = "fallback" -> FallbackLocate(span, l)

(* containers.py:351-381.  Result: err, or the triple handed to values[start:stop:step]    *)
(* (1-based: start inclusive, stop exclusive).                                             *)
ResErr == [t |-> "err", start |-> 0, stop |-> 0, step |-> 0]
ResolveSlice(span, kind, a, b, s) ==
  LET start == IF a = None THEN span[1] ELSE a               \* :355-356  span[0]
      stop  == IF b = None THEN span[Len(span)] ELSE b       \* :357-358  span[-1]
      step  == IF s = None THEN 1 ELSE s                     \* :359-360
      sl    == Locate(span, kind, start)                     \* :362
      el    == Locate(span, kind, stop)                      \* :369
  IN  IF sl.t = "err" \/ el.t = "err" THEN ResErr
      ELSE IF sl.t = "other" \/ el.t = "other" THEN [ResErr EXCEPT !.t = "other"]
      ELSE [t     |-> "ok",
            start |-> sl.lo,                                 \* :366-367  slice.start / the int
            stop  |-> IF el.t = "slice" THEN el.hi           \* :372-373  slice.stop, already past the end
                                        ELSE el.lo + 1,      \* :374-379  stop_location += 1
            step  |-> step]

(* Python basic slicing values[start:stop:step] for 0 <= start, stop and step > 0, as the    *)
(* ascending sequence of 1-based positions of a vector of length n                          *)
RECURSIVE PySliceFrom(_, _, _, _)
PySliceFrom(n, i, stop, step) ==
  IF i >= stop \/ i > n THEN <<>> ELSE <<i>> \o PySliceFrom(n, i + step, stop, step)
PySlice(n, start, stop, step) == PySliceFrom(n, start, stop, step)

Range(f) == {f[i] : i \in DOMAIN f}
=============================================================================
