------------------------------ MODULE Splitter ------------------------------
(***************************************************************************)
(* Character-class-level transcription of fsic/parser.py:361-448           *)
(* (split_equations_iter) plus the statement-level acceptance rules that   *)
(* property C13 states (every non-blank, non-comment statement yields      *)
(* exactly one equation or verbatim block, or the parser raises one of its *)
(* own errors).                                                            *)
(*                                                                         *)
(* The machine consumes ONE character class at a time.  Classes (one-char  *)
(* codes; the adapter harness/replay_splitter.py expands every code over   *)
(* its members):                                                           *)
(*   "L" letter   "1" digit   "_"   " " space   "n" newline   "="          *)
(*   "(" ")" "[" "]" "{" "}" "<" ">"   "`" backtick   "#"   "'" quote      *)
(*   "+" operator   "."   ","   "x" non-ASCII letter                       *)
(*                                                                         *)
(* What the code does is modelled as it is written (file:line in the       *)
(* comments).  Where the property demands something else than the code     *)
(* does, the SPECIFIED outcome is an explicit named action:                *)
(*   EndInFence   - an unclosed ``` fence at end of input is an error      *)
(*                  (code: parser.py:442-448 only looks at the brackets    *)
(*                  and returns silently - the rest of the script is lost) *)
(*   RejectNoLhs  - a statement that passed equation_re but has nothing    *)
(*                  assignable left of its first '=' (and is no verbatim   *)
(*                  block) is an error (code: yields it, parse_equation    *)
(*                  then produces no endogenous symbol - zero equations)   *)
(* With Faithful = TRUE the machine follows the code in both places        *)
(* (EndInFenceSilent, and RejectNoLhs disabled); TLC then refutes          *)
(* C13_NoSilentDrop / C13_Outcome - the spec-level witness of D13.         *)
(***************************************************************************)
EXTENDS Naturals, Integers, Sequences, FiniteSets, TLC

CONSTANTS Prefixes,      \* set of class sequences read first (fixed heads of the enumeration)
          Alpha,         \* classes allowed in the free tail
          N,             \* maximal length of the free tail
          Faithful,      \* TRUE: follow the code where the property demands otherwise
          Admit(_, _),   \* (prefix, input-after-reading) -> BOOLEAN : sharding of the enumeration
          AdmitEnd(_, _) \* (prefix, input) -> BOOLEAN : which shard emits inputs shorter than the shard key

Classes == {"L", "1", "_", " ", "n", "=", "(", ")", "[", "]", "{", "}", "<", ">",
            "`", "#", "'", "+", ".", ",", "x"}
White   == {" ", "n"}            \* \s restricted to the alphabet
OwnErrors == {"ParserError", "SymbolError", "IndentationError"}

VARIABLES pre,   \* the chosen prefix (constant along a behaviour)
          inp,   \* classes consumed so far
          s,     \* splitter state (record, below)
          pc     \* "read" | "eof" (last line processed) | "done"
vars == <<pre, inp, s, pc>>

(***************************************************************************)
(* Splitter state.                                                         *)
(*  buf   the statement buffer '\n'.join(buffer) incl. the line being read *)
(*        (comment-stripped), as a class sequence            parser.py:384 *)
(*  ls    length of buf before the line being read started                 *)
(*  nlb   len(buffer) before the line being read is appended               *)
(*  cm    a '#' was seen in the line being read (strip_comments, :364-369) *)
(*  pend  the physical line being read has at least one character          *)
(*        (str.splitlines yields no empty last line)                       *)
(*  depth unmatched_parentheses (:377)   fence  not complete_verbatim_block*)
(*  b0    input position of the first character of the buffer              *)
(*  pos   characters consumed                                              *)
(*  stmts finished statements <<first, last, v>>: extent in input positions, *)
(*        v = 1 if parse_equation inserts it verbatim (:561), else 0         *)
(*  err / why   exception class raised, and the reason                     *)
(***************************************************************************)
Init0 == [buf |-> <<>>, ls |-> 0, nlb |-> 0, cm |-> FALSE, pend |-> FALSE, depth |-> 0,
          fence |-> FALSE, b0 |-> 1, pos |-> 0, stmts |-> <<>>, err |-> "none", why |-> "none"]

-----------------------------------------------------------------------------
(* helpers on class sequences *)

Blank(b) == \A i \in 1..Len(b) : b[i] \in White                 \* not equation.strip()   :417

Strip(b) ==                                                     \* equation.strip()       :426
  IF Blank(b) THEN <<>>
  ELSE LET lo == CHOOSE i \in 1..Len(b) : b[i] \notin White /\ \A j \in 1..(i - 1) : b[j] \in White
           hi == CHOOSE i \in 1..Len(b) : b[i] \notin White /\ \A j \in (i + 1)..Len(b) : b[j] \in White
       IN SubSeq(b, lo, hi)

RStripLine(b, lo) ==                                            \* line[:hash].rstrip()   :369
  LET k == CHOOSE k \in lo..Len(b) : (\A i \in (k + 1)..Len(b) : b[i] = " ") /\ (k = lo \/ b[k] # " ")
  IN SubSeq(b, 1, k)

StartsFence(l) == Len(l) >= 3 /\ l[1] = "`" /\ l[2] = "`" /\ l[3] = "`"   \* line.startswith('```') :389

RECURSIVE Walk(_, _, _)     \* bracket counter over one line (:398-410); -1 = went negative
Walk(l, i, d) == IF d < 0 THEN -1
                 ELSE IF i > Len(l) THEN d
                 ELSE Walk(l, i + 1, d + (IF l[i] = "(" THEN 1 ELSE IF l[i] = ")" THEN -1 ELSE 0))

(* equation_re.search (parser.py:141-151; MULTILINE|DOTALL): ^ = any line start, $ = any line end. *)
(* The third alternative (brackets beginning on the right-hand side) accepts a subset of the       *)
(* fourth, so existence of a match is decided by alternatives 1, 2 and 4.                          *)
NlAt(b)       == {j \in 1..Len(b) : b[j] = "n"}
LineStarts(b) == {1} \cup {j + 1 : j \in NlAt(b)}
LineEnds(b)   == {Len(b)} \cup {j - 1 : j \in NlAt(b)}
Alt1(b, p) == /\ p + 2 <= Len(b) /\ b[p] = "`" /\ b[p + 1] = "`" /\ b[p + 2] = "`"
              /\ \E m \in (p + 3)..Len(b) :
                    /\ b[m] = "n"
                    /\ \A i \in (p + 3)..(m - 1) : b[i] = "`"
                    /\ \E q \in LineEnds(b) : q - 2 >= m + 1 /\ b[q] = "`" /\ b[q - 1] = "`" /\ b[q - 2] = "`"
Alt2(b, p) == /\ p <= Len(b) /\ b[p] = "("
              /\ \E e \in (p + 1)..Len(b) : b[e] = "=" /\ \E q \in LineEnds(b) : q > e /\ b[q] = ")"
(* 4th alternative as of the fix "left-hand side may contain whitespace":  ^ \S [^=\n]*? \s* [=] ...   *)
(* (before that fix it was ^ \S+? \s* [=] ..., which accepts a subset - an own error stays legal)      *)
Alt4(b, p) == /\ p <= Len(b) /\ b[p] \notin White
              /\ \E e \in (p + 1)..Len(b) :
                    /\ b[e] = "="
                    /\ \E j \in p..(e - 1) : (\A i \in (p + 1)..j : b[i] \notin {"=", "n"}) /\ (\A i \in (j + 1)..(e - 1) : b[i] \in White)
Matches(b) == \E p \in LineStarts(b) : Alt1(b, p) \/ Alt2(b, p) \/ Alt4(b, p)

(* parse_equation :561 - whole statement inserted verbatim *)
Verbatim(b) == Len(b) >= 1 /\ b[1] = "`" /\ b[Len(b)] = "`"
(* Necessary condition for an endogenous term (parse_equation_terms :518-521, term_re :178-184):  *)
(* an identifier start (ASCII letter or underscore) left of the first '='.                        *)
AssignableLhs(b) == \E j \in 1..Len(b) : /\ b[j] \in {"L", "_"}
                                         /\ \A i \in 1..j : b[i] # "="
                                         /\ \E e \in (j + 1)..Len(b) : b[e] = "="

-----------------------------------------------------------------------------
(* the machine as pure step functions (also used to re-run sub-strings in C14_Independent) *)

CurLine(st) == SubSeq(st.buf, st.ls + 1, Len(st.buf))

Feed(st, c) ==                       \* one character other than newline
  IF st.cm THEN [st EXCEPT !.pos = @ + 1, !.pend = TRUE]
  ELSE IF c = "#" THEN [st EXCEPT !.pos = @ + 1, !.pend = TRUE, !.cm = TRUE, !.buf = RStripLine(st.buf, st.ls)]
  ELSE [st EXCEPT !.pos = @ + 1, !.pend = TRUE, !.buf = Append(@, c)]

LineDepth(st) == Walk(CurLine(st), 1, st.depth)
LineFence(st) == IF StartsFence(CurLine(st)) THEN FALSE ELSE st.fence      \* :394-395

LineCase(st) ==                      \* which path of the loop body (:386-440) the finished line takes
  IF StartsFence(CurLine(st)) /\ st.nlb = 0 THEN "open"                    \* :389-392
  ELSE IF LineDepth(st) < 0 THEN "neg"                                     \* :404-410
  ELSE IF LineDepth(st) # 0 \/ LineFence(st) THEN "more"                   \* :413 false
  ELSE IF Blank(st.buf) THEN "blank"                                       \* :417 false
  ELSE IF ~Matches(st.buf) THEN (IF Matches(Strip(st.buf)) THEN "indent" ELSE "nomatch")   \* :420-435
  ELSE IF ~Faithful /\ ~Verbatim(st.buf) /\ ~AssignableLhs(st.buf) THEN "nolhs"            \* specified
  ELSE "yield"                                                             \* :437

Fail(st, cls, why) == [st EXCEPT !.err = cls, !.why = why]
KeepLine(st) == [st EXCEPT !.buf = Append(st.buf, "n"), !.ls = Len(st.buf) + 1, !.nlb = @ + 1]
Reset(st, e) == [st EXCEPT !.buf = <<>>, !.ls = 0, !.nlb = 0, !.depth = 0, !.fence = FALSE, !.b0 = e + 2]   \* :440

LineEnd(st, e) ==                    \* e = input position of the last character of the line
  LET k    == LineCase(st)
      base == [st EXCEPT !.cm = FALSE, !.pend = FALSE]
  IN CASE k = "open"    -> KeepLine([base EXCEPT !.fence = TRUE])
       [] k = "neg"     -> Fail(base, "ParserError", "close-before-open")
       [] k = "more"    -> KeepLine([base EXCEPT !.depth = LineDepth(st), !.fence = LineFence(st)])
       [] k = "blank"   -> Reset(base, e)
       [] k = "indent"  -> Fail(base, "IndentationError", "leading-whitespace")
       [] k = "nomatch" -> Fail(base, "ParserError", "not-an-equation")
       [] k = "nolhs"   -> Fail(base, "ParserError", "no-assignable-lhs")
       [] k = "yield"   -> Reset([base EXCEPT !.stmts = Append(@, <<st.b0, e, IF Verbatim(st.buf) THEN 1 ELSE 0>>)], e)

FeedNl(st) == LineEnd([st EXCEPT !.pos = @ + 1], st.pos)

Step(st, c) == IF st.err # "none" THEN [st EXCEPT !.pos = @ + 1]    \* the generator has raised: rest unread
               ELSE IF c = "n" THEN FeedNl(st) ELSE Feed(st, c)

Flush(st) == IF st.pend THEN LineEnd(st, st.pos) ELSE st            \* last line without '\n' (splitlines)

EndCase(st) ==                       \* after the loop (:442-448); st is flushed and has no error
  IF st.depth # 0 THEN "unmatched"
  ELSE IF st.fence THEN (IF Faithful THEN "fence-silent" ELSE "fence")
  ELSE "ok"

Conclude0(f, k) == IF k = "unmatched" THEN Fail(f, "ParserError", "unmatched-open")     \* :444-448
                   ELSE IF k = "fence" THEN Fail(f, "ParserError", "unclosed-fence")
                   ELSE f
Finish(st) ==
  IF st.err # "none" THEN st
  ELSE LET f == Flush(st) IN IF f.err # "none" THEN f ELSE Conclude0(f, EndCase(f))

RECURSIVE FoldFrom(_, _, _)
FoldFrom(st, q, i) == IF i > Len(q) THEN st ELSE FoldFrom(Step(st, q[i]), q, i + 1)
RunSeq(q) == Finish(FoldFrom(Init0, q, 1))       \* the splitter as a function of a whole input

-----------------------------------------------------------------------------
(* actions: one per code step / case, so that coverage shows every path *)

Init == /\ pre \in Prefixes
        /\ inp = <<>>
        /\ s = Init0
        /\ pc = "read"

CanRead(c) == /\ pc = "read"
              /\ Len(inp) < Len(pre) + N
              /\ IF Len(inp) < Len(pre) THEN c = pre[Len(inp) + 1] ELSE c \in Alpha
              /\ Admit(pre, Append(inp, c))

Take(c, st) == /\ inp' = Append(inp, c)
               /\ s' = st
               /\ UNCHANGED <<pre, pc>>

ReadChar     == \E c \in Classes \ {"n", "#"} : CanRead(c) /\ s.err = "none" /\ ~s.cm /\ Take(c, Feed(s, c))
StartComment == CanRead("#") /\ s.err = "none" /\ ~s.cm /\ Take("#", Feed(s, "#"))
SkipComment  == \E c \in Classes \ {"n"} : CanRead(c) /\ s.err = "none" /\ s.cm /\ Take(c, Feed(s, c))
SkipAfterError == \E c \in Classes : CanRead(c) /\ s.err # "none" /\ Take(c, Step(s, c))

NlReady == CanRead("n") /\ s.err = "none"
NlTake  == Take("n", FeedNl(s))
OpenFence       == NlReady /\ LineCase(s) = "open"    /\ NlTake
CloseBeforeOpen == NlReady /\ LineCase(s) = "neg"     /\ NlTake
Continue        == NlReady /\ LineCase(s) = "more"    /\ NlTake
SkipBlank       == NlReady /\ LineCase(s) = "blank"   /\ NlTake
RejectIndent    == NlReady /\ LineCase(s) = "indent"  /\ NlTake
RejectNoMatch   == NlReady /\ LineCase(s) = "nomatch" /\ NlTake
RejectNoLhs     == NlReady /\ LineCase(s) = "nolhs"   /\ NlTake      \* specified (the code yields the statement)
Yield           == NlReady /\ LineCase(s) = "yield"   /\ NlTake

(* end of input: the last line (if any) goes through the loop body once more (splitlines gives a last line *)
(* without '\n'), then the check after the loop (:442-448)                                               *)
AtEof == pc = "read" /\ Len(inp) >= Len(pre) /\ AdmitEnd(pre, inp)
ToEof(st) == /\ s' = st
             /\ pc' = "eof"
             /\ UNCHANGED <<pre, inp>>
LastLine   == AtEof /\ s.err = "none" /\ s.pend /\ ToEof(LineEnd(s, s.pos))
NoLastLine == AtEof /\ ~(s.err = "none" /\ s.pend) /\ ToEof(s)

End(st) == /\ s' = st
           /\ pc' = "done"
           /\ UNCHANGED <<pre, inp>>
EndError      == pc = "eof" /\ s.err # "none" /\ End(s)                                  \* raised in the loop
EndUnmatched  == pc = "eof" /\ s.err = "none" /\ EndCase(s) = "unmatched" /\ End(Conclude0(s, "unmatched"))
(* specified: the code returns silently *)
EndInFence    == pc = "eof" /\ s.err = "none" /\ EndCase(s) = "fence" /\ End(Conclude0(s, "fence"))
(* what the code does; only with Faithful *)
EndInFenceSilent == pc = "eof" /\ s.err = "none" /\ EndCase(s) = "fence-silent" /\ End(s)
EndOk         == pc = "eof" /\ s.err = "none" /\ EndCase(s) = "ok" /\ End(s)

Next == \/ ReadChar \/ StartComment \/ SkipComment \/ SkipAfterError
        \/ OpenFence \/ CloseBeforeOpen \/ Continue \/ SkipBlank
        \/ RejectIndent \/ RejectNoMatch \/ RejectNoLhs \/ Yield
        \/ LastLine \/ NoLastLine
        \/ EndError \/ EndUnmatched \/ EndInFence \/ EndInFenceSilent \/ EndOk

Spec == Init /\ [][Next]_vars
Done == pc = "done"

-----------------------------------------------------------------------------
(* property layer: stated on the input and the outcome only (inp, s.stmts, s.err) *)

TypeOK == /\ pc \in {"read", "eof", "done"}
          /\ s.pos = Len(inp)
          /\ s.depth >= 0
          /\ s.err \in OwnErrors \cup {"none"}
          /\ (s.fence => s.nlb >= 1)

InComment(i) == \E j \in 1..i : inp[j] = "#" /\ \A m \in j..i : inp[m] # "n"
Lines == {ln \in (1..(Len(inp) + 1)) \X (0..Len(inp)) :
             /\ ln[1] <= ln[2] + 1
             /\ (ln[1] = 1 \/ inp[ln[1] - 1] = "n")
             /\ (ln[2] = Len(inp) \/ inp[ln[2] + 1] = "n")
             /\ \A i \in ln[1]..ln[2] : inp[i] # "n"}
Live(ln) == \E i \in ln[1]..ln[2] : inp[i] # " " /\ ~InComment(i)       \* non-blank, non-comment line
Holders(ln) == {k \in 1..Len(s.stmts) : s.stmts[k][1] <= ln[1] /\ ln[2] <= s.stmts[k][2]}

(* at end of input every non-blank, non-comment line lies in exactly one statement, or an error is raised *)
C13_NoSilentDrop == Done => (s.err # "none" \/ \A ln \in Lines : Live(ln) => Cardinality(Holders(ln)) = 1)

(* statement extents are whole lines, in order, disjoint *)
C13_Extents == Done => \A k \in 1..Len(s.stmts) :
                  LET a == s.stmts[k][1]
                      b == s.stmts[k][2]
                  IN /\ 1 <= a /\ a <= b /\ b <= Len(inp)
                     /\ (a = 1 \/ inp[a - 1] = "n")
                     /\ (b = Len(inp) \/ inp[b + 1] = "n")
                     /\ (k > 1 => s.stmts[k - 1][2] < a)

(* what a statement must look like to be able to contribute exactly one equation or verbatim block *)
VisAt(a, b) == {i \in a..b : ~InComment(i)}
StmtCanContribute(a, b) ==
  LET V == VisAt(a, b) IN
  \/ (a + 2 <= b /\ inp[a] = "`" /\ inp[a + 1] = "`" /\ inp[a + 2] = "`")                 \* fenced block
  \/ (V # {} /\ inp[a] = "`" /\ \E z \in V : inp[z] = "`" /\ \A i \in V : i <= z \/ inp[i] \in White)   \* `...`
  \/ \E e \in V : /\ inp[e] = "="
                  /\ \E j \in V : j < e /\ inp[j] \in {"L", "_"} /\ \A i \in V : i < j => inp[i] # "="

(* the only legal outcomes: an own error, or n statements each able to contribute one block *)
C13_Outcome == Done => \/ s.err \in OwnErrors
                       \/ /\ s.err = "none"
                          /\ \A k \in 1..Len(s.stmts) : StmtCanContribute(s.stmts[k][1], s.stmts[k][2])

(* statement extents do not depend on the other statements: each statement on its own is one statement *)
C14_Independent == (Done /\ s.err = "none") =>
                     \A k \in 1..Len(s.stmts) :
                        LET a == s.stmts[k][1]
                            b == s.stmts[k][2]
                            r == RunSeq(SubSeq(inp, a, b))
                        IN r.err = "none" /\ r.stmts = <<<<1, b - a + 1, s.stmts[k][3]>>>>

(* the step-function form and the run agree (sanity of the re-run used above) *)
C14_Function == Done => LET r == RunSeq(inp) IN r.err = s.err /\ r.stmts = s.stmts /\ r.why = s.why
=============================================================================
