----------------------------- MODULE SplitterMC -----------------------------
(* Model-checking instances of Splitter: exhaustive enumeration of class    *)
(* strings (a fixed head from HeadSet followed by every tail over TailAlpha *)
(* up to length N), sharded on the first two tail characters, and emission  *)
(* of one JSON record per complete input.                                   *)
EXTENDS Splitter, Json

CONSTANTS Shard, NShards

AllClasses == Classes

(* fixed order of the classes (shard key; also the order of the adapter's expansion table) *)
ClassSeq == <<"L", "1", "_", " ", "n", "=", "(", ")", "[", "]", "{", "}", "<", ">",
              "`", "#", "'", "+", ".", ",", "x">>
Idx(c) == CHOOSE i \in 1..Len(ClassSeq) : ClassSeq[i] = c

(* heads: the empty head is the plain "all strings up to N" enumeration; the others put the    *)
(* enumeration behind a context that the bound could not reach otherwise (second statement,    *)
(* open bracket, open / closable fence, fence inside brackets, indented statement)             *)
HeadEmpty  == {<<>>}
HeadStmt   == {<<"L", "=", "1", "n">>}                               \* A=1\n
HeadParen  == {<<"L", "=", "(", "n">>, <<"(", "L", "=", "n">>}       \* A=(\n   (A=\n
HeadFence  == {<<"`", "`", "`", "n">>,                               \* ```\n
               <<"`", "`", "`", "n", "L", "=", "1", "n">>,           \* ```\nA=1\n
               <<"L", "=", "1", "n", "`", "`", "`", "n", "L", "n">>} \* A=1\n```\nA\n
HeadNested == {<<"(", "n", "`", "`", "`", "n", "`", "`", "`">>}     \* (\n```\n```
HeadIndent == {<<" ", "L", "=">>}                                    \* (space)A=
HeadAll    == HeadStmt \cup HeadParen \cup HeadFence \cup HeadNested \cup HeadIndent

(* tails of the context slices: the classes the splitter distinguishes *)
SplitAlpha == {"L", "1", " ", "n", "=", "(", ")", "`", "#", "{", "+", "x"}

(* sharding: an input whose tail has at least two characters belongs to the shard given by its *)
(* first two tail characters (and its head length); shorter inputs are emitted by shard 0 only *)
KeyOf(p, q) == (Idx(q[Len(p) + 1]) * 21 + Idx(q[Len(p) + 2]) + Len(p)) % NShards
MCAdmit(p, q)    == Len(q) = Len(p) + 2 => KeyOf(p, q) = Shard
MCAdmitEnd(p, q) == Len(q) < Len(p) + 2 => Shard = 0

RECURSIVE Join(_, _)
Join(q, i) == IF i > Len(q) THEN "" ELSE q[i] \o Join(q, i + 1)

Extents   == [k \in 1..Len(s.stmts) |-> <<s.stmts[k][1], s.stmts[k][2]>>]
(* per statement: 1 = inserted verbatim (fenced block or `...`), 0 = must yield one equation *)
VerbFlags == [k \in 1..Len(s.stmts) |-> s.stmts[k][3]]

(* what must happen: the set of legal outcome kinds *)
Legal == IF s.err # "none" THEN <<"error">>
         ELSE IF Len(s.stmts) = 0 THEN <<"statements">>      \* nothing but blanks and comments: must return no equations
         ELSE <<"error", "statements">>                       \* own error, or exactly k blocks

EmitRec == [s |-> Join(inp, 1), h |-> Len(pre), legal |-> Legal, k |-> Len(s.stmts), ext |-> Extents,
            vb |-> VerbFlags, err |-> s.err, why |-> s.why]
EmitInv == Done => PrintT(ToJson(EmitRec))
=============================================================================
