------------------------------ MODULE Tabular ------------------------------
(***************************************************************************)
(* Tabular export and import of fsic models, linkers and symbol lists      *)
(* (fsic/tools.py:15-52 and 115-171, fsic/core/models.py:86-117,           *)
(* fsic/core/linkers.py:195-223).                                          *)
(*                                                                         *)
(* A model is  [span, kind, cls, names, ser, st, it]:                      *)
(*   span  - sequence of label ids; kind - the span type (only matters     *)
(*           where the code branches on it: from_dataframe keeps pandas    *)
(*           time indexes and turns everything else into a list)           *)
(*   cls   - the class-level NAMES (what the constructor creates)          *)
(*   names - cls followed by the variables added at run time               *)
(*   ser   - name -> [dt \in {"f","i","b","s"}, v : Seq(cell)]             *)
(*   st/it - the status and iterations series                              *)
(* Cells are integers: finite values small, NaN = 100, booleans 0/1,       *)
(* string cells are codes >= 200 (status "-" = 200, "." = 201).            *)
(* A table is [index, columns, dtk, cells] with cells column-major.        *)
(*                                                                         *)
(* ToTable / FromTable / SymbolsToTable / TableToSymbols are written like  *)
(* the implementation; C19_Shape, C19_RoundTrip, C19_Linker, C19_Symbols   *)
(* restate the property text without reference to them.                    *)
(***************************************************************************)
EXTENDS Integers, Sequences, FiniteSets, TLC

CONSTANTS Models,        \* the model states explored
          InternalNames, \* the names that start with an underscore
          Linkers,       \* the linker states explored: [name, own, subs : Seq([id, m])]
          SymLists       \* the symbol lists explored

NaN    == 100
Unsol  == 200     \* '-'
Solved == 201     \* '.'
None   == 999     \* an optional field of a symbol that is None; a missing cell of a table
FlagSets == [status : BOOLEAN, iterations : BOOLEAN, internal : BOOLEAN]
TimeKinds == {"pdPeriodA", "pdPeriodQ", "pdDatetime"}

Range(s) == {s[i] : i \in DOMAIN s}
Pos(s, x) == CHOOSE i \in DOMAIN s : s[i] = x

----------------------------------------------------------------------------
(* tools.py:115-144 *)
Shown(n)        == n \notin InternalNames
Visible(m, fl)  == IF fl.internal THEN m.names ELSE SelectSeq(m.names, Shown)            \* :130-132
ToTable(m, fl) ==
  LET ns == Visible(m, fl)
      t0 == [index |-> m.span, columns |-> ns,                                            \* :136
             dtk |-> [i \in DOMAIN ns |-> m.ser[ns[i]].dt], cells |-> [i \in DOMAIN ns |-> m.ser[ns[i]].v]]
      t1 == IF fl.status                                                                  \* :138-139
              THEN [t0 EXCEPT !.columns = Append(@, "status"), !.dtk = Append(@, "s"), !.cells = Append(@, m.st)]
              ELSE t0
      t2 == IF fl.iterations                                                              \* :141-142
              THEN [t1 EXCEPT !.columns = Append(@, "iterations"), !.dtk = Append(@, "i"), !.cells = Append(@, m.it)]
              ELSE t1
  IN t2

(* the data columns of a table: everything but the solution bookkeeping *)
IsData(c) == c \notin {"status", "iterations"}
DataCols(t) ==
  LET keep == SelectSeq([i \in DOMAIN t.columns |-> i], LAMBDA i : IsData(t.columns[i]))
  IN [index |-> t.index, columns |-> [j \in DOMAIN keep |-> t.columns[keep[j]]],
      dtk |-> [j \in DOMAIN keep |-> t.dtk[keep[j]]], cells |-> [j \in DOMAIN keep |-> t.cells[keep[j]]]]

(* models.py:86-117, then interfaces.py:39-134: a fresh model of class `cls` *)
FromTable(t, cls, kind, cdt) ==
  LET n == Len(t.index)
      col(x) == t.cells[Pos(t.columns, x)]
  IN [span  |-> t.index,                                                                  \* :110-115
      kind  |-> IF kind \in TimeKinds THEN kind ELSE "list",
      cls   |-> cls, names |-> cls, cdt |-> cdt,                                         \* the caller's dtype= keyword
      ser   |-> [x \in Range(cls) |-> [dt |-> cdt,                                        \* interfaces.py:129-134
                                       v  |-> IF x \in Range(t.columns) THEN col(x) ELSE [i \in 1..n |-> 0]]],
      st    |-> [i \in 1..n |-> Unsol], it |-> [i \in 1..n |-> -1]]

(* solve() of the one-equation model  Y = X + 1  (LAGS = LEADS = 0): every period *)
SolveAll(m) ==
  LET n == Len(m.span)
      new == [i \in 1..n |-> m.ser["X"].v[i] + 1]
  IN [m EXCEPT !.ser["Y"].v = new, !.st = [i \in 1..n |-> Solved],
               !.it = [i \in 1..n |-> IF m.ser["Y"].v[i] = new[i] THEN 1 ELSE 2]]

(* linkers.py:210-223, tools.py:147-171: linker first, then the submodels in dict order *)
LinkerTables(lk, fl) ==
  <<[id |-> lk.name, t |-> ToTable(lk.own, fl)]>> \o [i \in DOMAIN lk.subs |-> [id |-> lk.subs[i].id, t |-> ToTable(lk.subs[i].m, fl)]]

(* tools.py:15-52: a symbol is [name, type, lags, leads, equation, code]; a None field is a missing cell *)
SymCols == <<"name", "type", "lags", "leads", "equation", "code">>
SymbolsToTable(ss) == [columns |-> SymCols,
                       rows |-> [i \in DOMAIN ss |-> <<ss[i].name, ss[i].type, ss[i].lags, ss[i].leads, ss[i].equation, ss[i].code>>]]
TableToSymbols(t) == [i \in DOMAIN t.rows |->
                        [name |-> t.rows[i][1], type |-> t.rows[i][2],                   \* :46 Type(entry['type'])
                         lags |-> t.rows[i][3], leads |-> t.rows[i][4],                  \* :47-48 missing -> None, else int
                         equation |-> t.rows[i][5], code |-> t.rows[i][6]]]

----------------------------------------------------------------------------
VARIABLES pc,    \* "new" | "ready" | "exported" | "done"
          mode,  \* "model" | "linker" | "symbols"
          m,     \* the model
          m0,    \* the model as constructed (before solve)
          solved,\* whether solve() has been run
          fl,    \* the flag set of the export
          tb,    \* the exported table
          bk,    \* the model re-imported from the data columns
          lk, ltabs,   \* linker and its tables
          syms, symtab, symback
vars == <<pc, mode, m, m0, solved, fl, tb, bk, lk, ltabs, syms, symtab, symback>>

NoTable == [index |-> <<>>, columns |-> <<>>, dtk |-> <<>>, cells |-> <<>>]
NoModel == [span |-> <<>>, kind |-> "list", cls |-> <<>>, names |-> <<>>, cdt |-> "f", ser |-> <<>>, st |-> <<>>, it |-> <<>>]
NoFlags == [status |-> FALSE, iterations |-> FALSE, internal |-> FALSE]
NoLinker == [name |-> "", own |-> NoModel, subs |-> <<>>]

Init ==
  /\ pc = "new" /\ solved = FALSE /\ fl = NoFlags /\ tb = NoTable /\ bk = NoModel /\ ltabs = <<>>
  /\ symtab = [columns |-> <<>>, rows |-> <<>>] /\ symback = <<>>
  /\ \/ mode = "model"   /\ m \in Models /\ lk = NoLinker /\ syms = <<>>
     \/ mode = "linker"  /\ lk \in Linkers /\ m = NoModel /\ syms = <<>>
     \/ mode = "symbols" /\ syms \in SymLists /\ m = NoModel /\ lk = NoLinker
  /\ m0 = m

Skip ==
  /\ pc = "new" /\ pc' = "ready"
  /\ UNCHANGED <<mode, m, m0, solved, fl, tb, bk, lk, ltabs, syms, symtab, symback>>

Solve ==
  /\ pc = "new" /\ mode = "model" /\ m.cdt = "f" /\ \A i \in DOMAIN m.span : m.ser["X"].v[i] # NaN /\ m.ser["Y"].v[i] # NaN
  /\ m' = SolveAll(m) /\ solved' = TRUE /\ pc' = "ready"
  /\ UNCHANGED <<mode, m0, fl, tb, bk, lk, ltabs, syms, symtab, symback>>

Export(f) ==
  /\ pc = "ready" /\ mode = "model"
  /\ fl' = f /\ tb' = ToTable(m, f) /\ pc' = "exported"
  /\ UNCHANGED <<mode, m, m0, solved, bk, lk, ltabs, syms, symtab, symback>>

Import ==
  /\ pc = "exported" /\ mode = "model"
  /\ bk' = FromTable(DataCols(tb), m.cls, m.kind, m.cdt) /\ pc' = "done"
  /\ UNCHANGED <<mode, m, m0, solved, fl, tb, lk, ltabs, syms, symtab, symback>>

ExportLinker(f) ==
  /\ pc = "ready" /\ mode = "linker"
  /\ fl' = f /\ ltabs' = LinkerTables(lk, f) /\ pc' = "done"
  /\ UNCHANGED <<mode, m, m0, solved, tb, bk, lk, syms, symtab, symback>>

SymbolTrip ==
  /\ pc = "ready" /\ mode = "symbols"
  /\ symtab' = SymbolsToTable(syms) /\ symback' = TableToSymbols(SymbolsToTable(syms)) /\ pc' = "done"
  /\ UNCHANGED <<mode, m, m0, solved, fl, tb, bk, lk, ltabs, syms>>

DoExport       == \E f \in FlagSets : Export(f)
DoExportLinker == \E f \in FlagSets : ExportLinker(f)

Next == Skip \/ Solve \/ DoExport \/ Import \/ DoExportLinker \/ SymbolTrip
Spec == Init /\ [][Next]_vars
Done == pc = "done"

----------------------------------------------------------------------------
(* ---- property layer ---- *)
(* "one row per period indexed by the span and one column per variable in model order holding exactly that *)
(*  series' values (numeric and boolean dtypes preserved), plus status and iterations when requested and    *)
(*  underscore-prefixed variables only when requested"                                                       *)
ShapeOf(t, mm, f) ==
  LET vars_ == {i \in DOMAIN t.columns : IsData(t.columns[i])} IN
  /\ t.index = mm.span
  /\ Len(t.dtk) = Len(t.columns) /\ Len(t.cells) = Len(t.columns)
  /\ \A i \in DOMAIN t.columns : Len(t.cells[i]) = Len(mm.span)
  /\ \A i, j \in DOMAIN t.columns : i # j => t.columns[i] # t.columns[j]
  /\ \A i \in vars_ : t.columns[i] \in Range(mm.names)
  /\ \A x \in Range(mm.names) : (x \in Range(t.columns)) <=> (f.internal \/ x \notin InternalNames)
  /\ \A i, j \in vars_ : i < j => Pos(mm.names, t.columns[i]) < Pos(mm.names, t.columns[j])
  /\ ("status" \in Range(t.columns)) <=> f.status
  /\ ("iterations" \in Range(t.columns)) <=> f.iterations
  /\ \A i \in DOMAIN t.columns : ~IsData(t.columns[i]) => \A j \in vars_ : j < i
  /\ (f.status /\ f.iterations) => Pos(t.columns, "status") < Pos(t.columns, "iterations")
  /\ \A i \in vars_ : /\ t.cells[i] = mm.ser[t.columns[i]].v
                      /\ mm.ser[t.columns[i]].dt \in {"f", "i", "b"} => t.dtk[i] = mm.ser[t.columns[i]].dt
  /\ f.status => t.cells[Pos(t.columns, "status")] = mm.st
  /\ f.iterations => (t.cells[Pos(t.columns, "iterations")] = mm.it /\ t.dtk[Pos(t.columns, "iterations")] = "i")

C19_Shape == (mode = "model" /\ pc \in {"exported", "done"}) => ShapeOf(tb, m, fl)

(* "constructing a model with from_dataframe from the data columns reproduces the span and every value" *)
C19_RoundTrip ==
  (mode = "model" /\ Done) =>
    /\ bk.span = m.span
    /\ (m.kind \in TimeKinds => bk.kind = m.kind)
    /\ bk.names = m.cls
    /\ \A x \in Range(m.cls) : bk.ser[x].dt = m.ser[x].dt                 \* "numeric and boolean dtypes preserved"
    /\ \A x \in Range(m.cls) :
         IF fl.internal \/ x \notin InternalNames
           THEN bk.ser[x].v = m.ser[x].v
           ELSE bk.ser[x].v = [i \in DOMAIN m.span |-> 0]      \* not exported, hence the constructor's default
    /\ \A i \in DOMAIN m.span : bk.st[i] = Unsol /\ bk.it[i] = -1

(* "linker export returns one such table per submodel and one for the linker" *)
C19_Linker ==
  (mode = "linker" /\ Done) =>
    /\ Len(ltabs) = Len(lk.subs) + 1
    /\ \A i, j \in DOMAIN ltabs : i # j => ltabs[i].id # ltabs[j].id
    /\ \E i \in DOMAIN ltabs : ltabs[i].id = lk.name /\ ShapeOf(ltabs[i].t, lk.own, fl)
    /\ \A s \in DOMAIN lk.subs : \E i \in DOMAIN ltabs : ltabs[i].id = lk.subs[s].id /\ ShapeOf(ltabs[i].t, lk.subs[s].m, fl)

(* "symbols_to_dataframe followed by dataframe_to_symbols returns the original symbol list" *)
C19_Symbols ==
  (mode = "symbols" /\ Done) =>
    /\ symback = syms
    /\ Len(symtab.rows) = Len(syms) /\ symtab.columns = SymCols
    /\ \A i \in DOMAIN syms : (symtab.rows[i][1] = None) <=> (syms[i].name = None)

TypeOK == pc \in {"new", "ready", "exported", "done"} /\ mode \in {"model", "linker", "symbols"}
=============================================================================
