----------------------------- MODULE TabularMC -----------------------------
(* Model-checking instances of Tabular and the emission of terminal         *)
(* behaviours (model / linker / symbol list, flags, the expected table,     *)
(* the expected re-imported model) for replay into the real code.           *)
EXTENDS Tabular, Json

CONSTANTS Shard, NShards, MaxVars

KindSeq == <<"range", "list", "ndarray", "pdIndex", "pdPeriodA", "pdPeriodQ", "pdDatetime">>
Kinds   == {KindSeq[i] : i \in 1..7}
KindIdx(k) == CHOOSE i \in 1..7 : KindSeq[i] = k

Internal == {"_P", "_U", "_H"}

(* the variable catalogue: class-level floats Y (endogenous), X (exogenous), _P; run-time extras *)
ExtraSeq == <<"I", "B", "S", "_U", "F">>
Extras   == {ExtraSeq[i] : i \in 1..5}
ExIdx(x) == CHOOSE i \in 1..5 : ExtraSeq[i] = x
SerOf(x, yv, xv) ==
  CASE x = "Y"  -> [dt |-> "f", v |-> yv]
    [] x = "X"  -> [dt |-> "f", v |-> xv]
    [] x = "_P" -> [dt |-> "f", v |-> <<5, NaN, 7>>]
    [] x = "I"  -> [dt |-> "i", v |-> <<1, 2, 3>>]
    [] x = "B"  -> [dt |-> "b", v |-> <<1, 0, 1>>]
    [] x = "S"  -> [dt |-> "s", v |-> <<210, 211, 212>>]
    [] x = "_U" -> [dt |-> "i", v |-> <<7, 7, 7>>]
    [] x = "F"  -> [dt |-> "f", v |-> <<NaN, 4, 6>>]
    [] x = "G"  -> [dt |-> "f", v |-> <<1, 2, 3>>]
    [] x = "_H" -> [dt |-> "f", v |-> <<0, NaN, 0>>]

ClsSeq == << <<"Y", "X">>, <<"Y", "X", "_P">>, <<"_P", "Y", "X">> >>
YVals  == {<<0, 0, 0>>, <<2, 3, 4>>}            \* the second already satisfies Y = X + 1 for X = 1,2,3
XVals  == {<<1, 2, 3>>, <<1, NaN, 3>>}

RECURSIVE ExSeqs(_)
ExSeqs(n) == IF n = 0 THEN {<<>>}
             ELSE LET S == ExSeqs(n - 1) IN
                  S \cup {Append(s, x) : s \in {q \in S : Len(q) = n - 1}, x \in Extras}
Distinct(s) == \A i, j \in DOMAIN s : i # j => s[i] # s[j]

Mk(cls, ex, kind, yv, xv) ==
  [span |-> <<1, 2, 3>>, kind |-> kind, cls |-> cls, names |-> cls \o ex,
   cdt |-> "f", ser |-> [x \in Range(cls \o ex) |-> SerOf(x, yv, xv)],
   st |-> <<Unsol, Unsol, Unsol>>, it |-> <<-1, -1, -1>>]

RECURSIVE ExSum(_, _)
ExSum(s, i) == IF i = 0 THEN 0 ELSE ExSum(s, i - 1) + i * ExIdx(s[i])
ShardOfModel(c, ex, kind, yv, xv) == (KindIdx(kind) + 7 * c + 3 * ExSum(ex, Len(ex)) + yv[1] + 5 * (IF xv[2] = NaN THEN 1 ELSE 0)) % NShards

(* models constructed with dtype=int / dtype=bool: the class-level variables take that dtype *)
TypedVals(x, cdt) ==
  CASE cdt = "b" -> (CASE x = "Y" -> <<1, 0, 1>> [] x = "X" -> <<0, 0, 1>> [] OTHER -> <<1, 1, 0>>)
    [] OTHER     -> (CASE x = "Y" -> <<1, 2, 3>> [] x = "X" -> <<4, 0, -1>> [] OTHER -> <<0, 9, 0>>)
MkTyped(cls, ex, kind, cdt) ==
  [Mk(cls, ex, kind, <<0, 0, 0>>, <<1, 2, 3>>) EXCEPT
     !.cdt = cdt, !.ser = [x \in Range(cls \o ex) |-> IF x \in Range(cls) THEN [dt |-> cdt, v |-> TypedVals(x, cdt)] ELSE SerOf(x, <<>>, <<>>)]]
TypedS == UNION { { MkTyped(ClsSeq[c], ex, kind, cdt) : ex \in {e \in {<<>>, <<"F">>, <<"S", "B">>} : (7 * c + KindIdx(kind) + Len(e)) % NShards = Shard}, cdt \in {"i", "b"} }
                  : c \in 1..3, kind \in Kinds }
ModelsS == TypedS \cup UNION { { Mk(ClsSeq[c], ex, kind, yv, xv) :
                       ex \in {e \in ExSeqs(MaxVars - Len(ClsSeq[c])) : Distinct(e) /\ ShardOfModel(c, e, kind, yv, xv) = Shard} }
                   : c \in 1..3, kind \in Kinds, yv \in YVals, xv \in XVals }
NoModels == {}

(* BaseLinker.__init__ compares the submodels' spans with `!=` (linkers.py:99), which only yields a truth value for *)
(* ranges and lists: two submodels on NumPy / pandas spans cannot be linked at all (not a matter of C19)          *)
ComparableKinds == {"range", "list"}

(* linkers: own variables G, _H (+ optionally one extra); one or two submodels, possibly solved beforehand *)
OwnModel(kind, ex) == [Mk(<<"G", "_H">>, ex, kind, <<0, 0, 0>>, <<1, 2, 3>>) EXCEPT !.cls = <<"G", "_H">>]
SubBase(kind) == { Mk(ClsSeq[1], <<>>, kind, <<0, 0, 0>>, <<1, 2, 3>>),
                   Mk(ClsSeq[2], <<"I">>, kind, <<0, 0, 0>>, <<1, 2, 3>>),
                   Mk(ClsSeq[3], <<"S">>, kind, <<2, 3, 4>>, <<1, 2, 3>>) }
SubModels(kind) == SubBase(kind) \cup {SolveAll(s) : s \in SubBase(kind)}
LinkersS == { l \in
               UNION { { [name |-> "_", own |-> OwnModel(kind, ex), subs |-> <<[id |-> "a", m |-> s1]>>] :
                           ex \in {<<>>, <<"B">>}, s1 \in SubModels(kind) }
                       \cup { [name |-> "L", own |-> OwnModel(kind, ex), subs |-> <<[id |-> "a", m |-> s1], [id |-> "b", m |-> s2]>>] :
                           ex \in {<<>>, <<"_U">>}, s1 \in SubModels(kind), s2 \in SubModels(kind), k2 \in {kind} \cap ComparableKinds }
                       : kind \in Kinds }
             : (KindIdx(l.own.kind) + 3 * Len(l.subs) + Len(l.own.names) + Len(l.subs[1].m.names) + l.subs[1].m.it[1]) % NShards = Shard }
NoLinkers == {}

(* symbols: every None-pattern of every type once, and short lists over the shapes the parser produces *)
Sym(n, t, lg, ld, e, c) == [name |-> n, type |-> t, lags |-> lg, leads |-> ld, equation |-> e, code |-> c]
SymAlpha == { Sym(n, t, lg, ld, e, c) : n \in {None, 210}, t \in 1..9, lg \in {None, 0, -1}, ld \in {None, 0, 1}, e \in {None, 300}, c \in {None, 400} }
ParserShapes == { Sym(210, 3, 0, 0, 300, 400), Sym(211, 3, -1, 0, 301, 401), Sym(212, 2, 0, 0, None, None), Sym(213, 2, -2, 1, None, None),
                  Sym(214, 4, 0, 0, None, None), Sym(215, 5, 0, 0, None, None), Sym(216, 6, None, None, None, None),
                  Sym(217, 7, None, None, None, None), Sym(None, 8, None, None, 302, 402) }
SymHash(ss) == (Len(ss) + ss[1].type + (IF ss[1].name = None THEN 1 ELSE 0) + 2 * (IF ss[1].lags = None THEN 1 ELSE 0)
                + 3 * (IF ss[1].equation = None THEN 1 ELSE 0) + 5 * (IF ss[1].code = None THEN 1 ELSE 0)
                + (IF Len(ss) > 1 THEN ss[2].type ELSE 0) + (IF Len(ss) > 2 THEN 7 * ss[3].type ELSE 0)) % NShards
SymListsS == { ss \in ({<<a>> : a \in SymAlpha} \cup {<<a, b>> : a \in ParserShapes, b \in ParserShapes}
                      \cup {<<a, b, c>> : a \in ParserShapes, b \in ParserShapes, c \in ParserShapes}) : SymHash(ss) = Shard }
                \cup (IF Shard = 0 THEN {<<>>} ELSE {})
NoSymLists == {}

EmitRec ==
  CASE mode = "model"   -> [mode |-> mode, m0 |-> m0, solved |-> solved, m |-> m, fl |-> fl, table |-> tb, data |-> DataCols(tb), back |-> bk]
    [] mode = "linker"  -> [mode |-> mode, lk |-> lk, fl |-> fl, tables |-> ltabs]
    [] OTHER            -> [mode |-> mode, syms |-> syms, table |-> symtab, back |-> symback,
                            producible |-> \A i \in DOMAIN syms : syms[i] \in ParserShapes]
EmitInv == Done => PrintT(ToJson(EmitRec))
=============================================================================
