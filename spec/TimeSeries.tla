----------------------------- MODULE TimeSeries -----------------------------
(***************************************************************************)
(* C16 - the time-series helpers of fsic/functions.py (shift/lag/lead/diff) *)
(* and VectorContainer.eval (fsic/core/containers.py:564-650, 755-929).     *)
(*                                                                         *)
(* Two machines, written step by step like the implementation, share one   *)
(* module; a case record `cfg` (constant along a behaviour) says which one *)
(* runs:                                                                   *)
(*   kind = "ts" : one call op(x, p, fill_value=fill), op in lag/lead/diff *)
(*   kind = "ev" : one call container.eval(expr, locals=locs) on a         *)
(*                 container with span `span` and series `vars`            *)
(* plus a declarative property layer (C16_...) that is computed from the   *)
(* case record alone: the helpers by their index definitions (Shift, Lag,  *)
(* Lead, Diff), the value of an expression by a direct denotation in which *)
(* a backticked label selects span positions (LabelSel) - never by the     *)
(* machines' roll-and-overwrite / rewrite-to-positions route.              *)
(*                                                                         *)
(* Values: finite values are small integers (|v| < 100, asserted), the     *)
(* only non-finite value is NaN = 100 (there is no division).  NONE = 99   *)
(* stands for an omitted slice component.  Arrays are sequences; position  *)
(* i of NumPy is element i+1.  Labels are distinct integer ids; the        *)
(* adapter maps them to concrete labels per span type.                     *)
(*                                                                         *)
(* Expressions (tuples, first element = node type):                        *)
(*   <<"var", name>>                                                       *)
(*   <<"call", fn, e, p>>          fn(e, p)          fn: lag | lead | diff *)
(*   <<"pidx", e, i>>              e[i]              positional index      *)
(*   <<"psl", e, a, b, s>>         e[a:b:s]          positional slice      *)
(*   <<"lidx", e, l>>              e[`l`]            label index           *)
(*   <<"lsl", e, la, lb, s>>       e[`la`:`lb`:s]    label slice, stop     *)
(*                                                   inclusive             *)
(*   <<"bin", op, l, r>>           l op r            op: + | - | *         *)
(* A label slice names at least one label (X[::2] is a positional slice).  *)
(***************************************************************************)
EXTENDS Integers, Sequences, FiniteSets, TLC

CONSTANTS Cases   \* set of case records explored

NaN  == 100
NONE == 99

(***************************************************************************)
(* Arithmetic on value codes (NumPy float64 on exactly representable       *)
(* values: NaN is absorbing)                                               *)
(***************************************************************************)
InRange(r) == r > -100 /\ r < 100
Chk(r) == IF InRange(r) THEN r ELSE Assert(FALSE, <<"finite value outside the code range", r>>)
Add(a, b) == IF a = NaN \/ b = NaN THEN NaN ELSE Chk(a + b)
Sub(a, b) == IF a = NaN \/ b = NaN THEN NaN ELSE Chk(a - b)
Mul(a, b) == IF a = NaN \/ b = NaN THEN NaN ELSE Chk(a * b)
ArOp(o, a, b) == CASE o = "+" -> Add(a, b) [] o = "-" -> Sub(a, b) [] o = "*" -> Mul(a, b)

SortedSeq(S) == [k \in 1..Cardinality(S) |-> CHOOSE i \in S : Cardinality({j \in S : j < i}) = k - 1]

(***************************************************************************)
(* (a) The helpers as the property statement defines them                  *)
(*     lag(x,p)[i] = x[i-p] where i-p lies inside the array, fill elsewhere *)
(*     lead(x,p)   = lag(x,-p)                                             *)
(*     diff(x,d)[i] = x[i] - x[i-d] for i >= d >= 0, fill before           *)
(* (i is the 0-based NumPy position; element i+1 here, so the conditions   *)
(* are the same after shifting both sides by one)                          *)
(***************************************************************************)
Shift(x, p, fill) == [i \in 1..Len(x) |-> IF (i - p) \in 1..Len(x) THEN x[i - p] ELSE fill]
Lag(x, p, fill)   == Shift(x, p, fill)
Lead(x, p, fill)  == Lag(x, -p, fill)
Diff(x, d, fill)  == [i \in 1..Len(x) |-> IF i - 1 >= d THEN Sub(x[i], x[i - d]) ELSE fill]
\* 0-based positions at which the definition puts the fill value
FillPosShift(n, p) == {i \in 0..(n - 1) : ~((i - p) \in 0..(n - 1))}
FillPosDiff(n, d)  == {i \in 0..(n - 1) : i < d}

(***************************************************************************)
(* The implementation's route: np.roll, then overwrite one edge            *)
(* (functions.py:25-31)                                                    *)
(***************************************************************************)
Roll(x, p) == LET n == Len(x) IN IF n = 0 THEN x ELSE [i \in 1..n |-> x[((i - 1 - p) % n) + 1]]
\* shifted[:p] = fill (p > 0) / shifted[p:] = fill (p < 0) with Python's clamping of slice ends
EdgeFill(y, p, fill) ==
  LET n == Len(y) IN
  IF p > 0 THEN [i \in 1..n |-> IF i - 1 < p THEN fill ELSE y[i]]
  ELSE IF p < 0 THEN [i \in 1..n |-> IF i - 1 >= (IF n + p < 0 THEN 0 ELSE n + p) THEN fill ELSE y[i]]
  ELSE y

(***************************************************************************)
(* Python positional indexing                                              *)
(***************************************************************************)
Norm(n, a, dflt) == IF a = NONE THEN dflt
                    ELSE IF a < 0 THEN (IF n + a < 0 THEN 0 ELSE n + a)
                    ELSE (IF a > n THEN n ELSE a)
StepOf(s) == IF s = NONE THEN 1 ELSE s
PySlice(x, a, b, s) ==
  LET n == Len(x)  lo == Norm(n, a, 0)  hi == Norm(n, b, n)  st == StepOf(s)
      cnt == IF hi > lo THEN (hi - lo + st - 1) \div st ELSE 0
  IN [k \in 1..cnt |-> x[lo + (k - 1) * st + 1]]
PyIndexOK(n, i) == i >= -n /\ i < n
PyIndex(x, i)   == x[(IF i < 0 THEN Len(x) + i ELSE i) + 1]

(***************************************************************************)
(* Labels: what label indexing on the container selects                    *)
(* (containers.py:305-381: position of the label; slices include the stop) *)
(***************************************************************************)
InSpan(span, l) == \E i \in 1..Len(span) : span[i] = l
PosOf(span, l)  == (CHOOSE i \in 1..Len(span) : span[i] = l) - 1
LabelSel(span, la, lb, s) ==
  LET n  == Len(span)
      lo == IF la = NONE THEN 0 ELSE PosOf(span, la)
      hi == IF lb = NONE THEN n - 1 ELSE PosOf(span, lb)
  IN {i \in 0..(n - 1) : i >= lo /\ i <= hi /\ (i - lo) % StepOf(s) = 0}
Pick(x, S) == LET sq == SortedSeq({i \in S : i < Len(x)}) IN [k \in 1..Len(sq) |-> x[sq[k] + 1]]

(***************************************************************************)
(* Results and name bindings: one record shape for everything              *)
(***************************************************************************)
V(v)      == [k |-> "vec", v |-> v,     e |-> "", nm |-> ""]
Sc(a)     == [k |-> "sc",  v |-> <<a>>, e |-> "", nm |-> ""]
Fn(n)     == [k |-> "fn",  v |-> <<>>,  e |-> "", nm |-> n]
Err(c, n) == [k |-> "err", v |-> <<>>,  e |-> c,  nm |-> n]
None      == [k |-> "none", v |-> <<>>, e |-> "", nm |-> ""]

\* fsic.functions.builtins (functions.py:78-85)
HelperNames == {"diff", "dlog", "exp", "lag", "lead", "log"}

\* Namespace(locals, vars, builtins): caller locals override variables override helpers
\* (a case lists its variable names `vn` (the container's index) and local names `ln` explicitly)
BoundNames(c) == c.ln \cup c.vn \cup HelperNames
Namespace(c, n) == IF n \in c.ln THEN c.locs[n]
                   ELSE IF n \in c.vn THEN V(c.vars[n])
                   ELSE IF n \in HelperNames THEN Fn(n)
                   ELSE Err("NameError", n)

Lookup(ns, n) == IF n \in DOMAIN ns THEN ns[n] ELSE Err("NameError", n)

ApplyHelper(fn, x, p) ==
  CASE fn = "lag"  -> V(Lag(x, p, NaN))
    [] fn = "lead" -> V(Lead(x, p, NaN))
    [] fn = "diff" -> IF p < 0 THEN Err("NotImplementedError", "") ELSE V(Diff(x, p, NaN))
    [] OTHER       -> Err("Unmodelled", fn)

\* NumPy broadcasting of 0-d and 1-d operands
BinOp(o, l, r) ==
  IF l.k = "sc" /\ r.k = "sc" THEN Sc(ArOp(o, l.v[1], r.v[1]))
  ELSE IF l.k = "sc" /\ r.k = "vec" THEN V([i \in 1..Len(r.v) |-> ArOp(o, l.v[1], r.v[i])])
  ELSE IF l.k = "vec" /\ r.k = "sc" THEN V([i \in 1..Len(l.v) |-> ArOp(o, l.v[i], r.v[1])])
  ELSE IF l.k = "vec" /\ r.k = "vec" THEN
         IF Len(l.v) = Len(r.v) THEN V([i \in 1..Len(l.v) |-> ArOp(o, l.v[i], r.v[i])])
         ELSE IF Len(l.v) = 1 THEN V([i \in 1..Len(r.v) |-> ArOp(o, l.v[1], r.v[i])])
         ELSE IF Len(r.v) = 1 THEN V([i \in 1..Len(l.v) |-> ArOp(o, l.v[i], r.v[1])])
         ELSE Err("ValueError", "")
  ELSE Err("Unmodelled", "bin")

(***************************************************************************)
(* Value of an expression in a namespace, in Python's evaluation order     *)
(* (callee, then arguments, then the call; left operand first; the first   *)
(* failure wins).  Label nodes are given their meaning directly: the span  *)
(* positions the label(s) select.                                          *)
(***************************************************************************)
RECURSIVE Ev(_, _, _)
Ev(e, ns, span) ==
  LET t == e[1] IN
  CASE t = "var"  -> Lookup(ns, e[2])
    [] t = "call" -> LET f == Lookup(ns, e[2]) IN
                     IF f.k = "err" THEN f
                     ELSE LET a == Ev(e[3], ns, span) IN
                          IF a.k = "err" THEN a
                          ELSE IF f.k # "fn" THEN Err("TypeError", "")
                          ELSE IF a.k # "vec" THEN Err("Unmodelled", "call")
                          ELSE ApplyHelper(f.nm, a.v, e[4])
    [] t = "pidx" -> LET a == Ev(e[2], ns, span) IN
                     IF a.k = "err" THEN a
                     ELSE IF a.k # "vec" THEN Err("Unmodelled", "pidx")
                     ELSE IF PyIndexOK(Len(a.v), e[3]) THEN Sc(PyIndex(a.v, e[3])) ELSE Err("IndexError", "")
    [] t = "psl"  -> LET a == Ev(e[2], ns, span) IN
                     IF a.k = "err" THEN a
                     ELSE IF a.k # "vec" THEN Err("Unmodelled", "psl")
                     ELSE V(PySlice(a.v, e[3], e[4], e[5]))
    [] t = "lidx" -> LET a == Ev(e[2], ns, span) IN
                     IF a.k = "err" THEN a
                     ELSE IF a.k # "vec" THEN Err("Unmodelled", "lidx")
                     ELSE IF ~InSpan(span, e[3]) THEN Err("KeyError", "")
                     ELSE IF PosOf(span, e[3]) < Len(a.v) THEN Sc(a.v[PosOf(span, e[3]) + 1]) ELSE Err("IndexError", "")
    [] t = "lsl"  -> LET a == Ev(e[2], ns, span) IN
                     IF a.k = "err" THEN a
                     ELSE IF a.k # "vec" THEN Err("Unmodelled", "lsl")
                     ELSE IF (e[3] # NONE /\ ~InSpan(span, e[3])) \/ (e[4] # NONE /\ ~InSpan(span, e[4])) THEN Err("KeyError", "")
                     ELSE V(Pick(a.v, LabelSel(span, e[3], e[4], e[5])))
    [] t = "bin"  -> LET l == Ev(e[3], ns, span) IN
                     IF l.k = "err" THEN l
                     ELSE LET r == Ev(e[4], ns, span) IN
                          IF r.k = "err" THEN r ELSE BinOp(e[2], l, r)

(***************************************************************************)
(* Syntactic helpers                                                       *)
(***************************************************************************)
RECURSIVE Labels(_)
Labels(e) ==
  LET t == e[1] IN
  CASE t = "var"  -> {}
    [] t = "call" -> Labels(e[3])
    [] t = "pidx" -> Labels(e[2])
    [] t = "psl"  -> Labels(e[2])
    [] t = "lidx" -> Labels(e[2]) \cup {e[3]}
    [] t = "lsl"  -> Labels(e[2]) \cup ({e[3], e[4]} \ {NONE})
    [] t = "bin"  -> Labels(e[3]) \cup Labels(e[4])

RECURSIVE HasBacktick(_)
HasBacktick(e) ==
  LET t == e[1] IN
  CASE t = "var"  -> FALSE
    [] t = "call" -> HasBacktick(e[3])
    [] t = "pidx" -> HasBacktick(e[2])
    [] t = "psl"  -> HasBacktick(e[2])
    [] t = "lidx" -> TRUE
    [] t = "lsl"  -> e[3] # NONE \/ e[4] # NONE \/ HasBacktick(e[2])
    [] t = "bin"  -> HasBacktick(e[3]) \/ HasBacktick(e[4])

\* names in the order Python looks them up
RECURSIVE NameSeq(_)
NameSeq(e) ==
  LET t == e[1] IN
  CASE t = "var"  -> <<e[2]>>
    [] t = "call" -> <<e[2]>> \o NameSeq(e[3])
    [] t = "bin"  -> NameSeq(e[3]) \o NameSeq(e[4])
    [] OTHER      -> NameSeq(e[2])

(***************************************************************************)
(* Rewriting of backticked bracket groups to positions                     *)
(* (_resolve_expression_indexes, containers.py:564-650): a label becomes   *)
(* its position, the stop of a label slice is moved one place to the right *)
(* (containers.py:632-633); everything else is left as written.            *)
(***************************************************************************)
RECURSIVE Rewrite(_, _)
Rewrite(e, span) ==
  LET t == e[1] IN
  CASE t = "var"  -> e
    [] t = "call" -> <<"call", e[2], Rewrite(e[3], span), e[4]>>
    [] t = "pidx" -> <<"pidx", Rewrite(e[2], span), e[3]>>
    [] t = "psl"  -> <<"psl", Rewrite(e[2], span), e[3], e[4], e[5]>>
    [] t = "lidx" -> <<"pidx", Rewrite(e[2], span), PosOf(span, e[3])>>
    [] t = "lsl"  -> <<"psl", Rewrite(e[2], span),
                       IF e[3] = NONE THEN NONE ELSE PosOf(span, e[3]),
                       IF e[4] = NONE THEN NONE ELSE PosOf(span, e[4]) + 1,
                       e[5]>>
    [] t = "bin"  -> <<"bin", e[2], Rewrite(e[3], span), Rewrite(e[4], span)>>

(***************************************************************************)
(* State                                                                   *)
(***************************************************************************)
VARIABLES cfg,   \* the case (constant)
          pc,
          inp,   \* ts: the caller's array as it is now
          buf,   \* ts: the callee's working array (np.roll result, then edited in place)
          alias, \* ts: TRUE iff the returned object is the input object itself
          rw,    \* ev: the expression after step 1 (label resolution)
          ns,    \* ev: the assembled namespace (step 2)
          cont,  \* ev: the container's series as they are now
          tbl,   \* ev: the package-level helper table as it is now (names)
          out    \* result record

vars == <<cfg, pc, inp, buf, alias, rw, ns, cont, tbl, out>>

InitWith(c) ==
  /\ cfg = c
  /\ pc = IF c.kind = "ts" THEN "ts_enter" ELSE "ev_resolve"
  /\ inp = c.x /\ buf = <<>> /\ alias = FALSE
  /\ rw = c.expr /\ ns = <<>> /\ cont = c.vars /\ tbl = HelperNames
  /\ out = None
Init == \E c \in Cases : InitWith(c)

IsTs == cfg.kind = "ts"
IsEv == cfg.kind = "ev"
\* the shift handed to shift(): lag passes p, lead passes -p (functions.py:38, 43), diff lags by d (functions.py:59)
Sh == IF cfg.op = "lead" THEN -cfg.p ELSE cfg.p

(***************************************************************************)
(* ts machine: shift (functions.py:14-33), diff (functions.py:46-70)       *)
(***************************************************************************)
\* functions.py:22-25 / 54-59.  diff with d = 0 takes the general route here (x - lag(x, 0)),
\* which is what the definition x[i] - x[i-d] demands; diff with d < 0 is outside the property.
TsEnter ==
  /\ pc = "ts_enter"
  /\ IF cfg.op = "diff" /\ cfg.p < 0
       THEN /\ out' = Err("NotImplementedError", "") /\ pc' = "done" /\ UNCHANGED <<buf, alias>>
     ELSE IF cfg.op # "diff" /\ Sh = 0
       THEN /\ out' = V(inp) /\ alias' = TRUE /\ pc' = "done" /\ UNCHANGED buf      \* `return x`
     ELSE /\ buf' = Roll(inp, Sh) /\ pc' = "ts_fill" /\ UNCHANGED <<out, alias>>      \* np.roll copies
  /\ UNCHANGED <<cfg, inp, rw, ns, cont, tbl>>

\* functions.py:27-31
TsFill ==
  /\ pc = "ts_fill"
  /\ buf' = EdgeFill(buf, Sh, cfg.fill)
  /\ pc' = IF cfg.op = "diff" THEN "ts_sub" ELSE "ts_ret"
  /\ UNCHANGED <<cfg, inp, alias, rw, ns, cont, tbl, out>>

\* functions.py:59  differenced = x - lag(x, d)
TsSub ==
  /\ pc = "ts_sub"
  /\ buf' = [i \in 1..Len(inp) |-> Sub(inp[i], buf[i])]
  /\ pc' = "ts_head"
  /\ UNCHANGED <<cfg, inp, alias, rw, ns, cont, tbl, out>>

\* functions.py:60  differenced[:d] = fill_value
TsHead ==
  /\ pc = "ts_head"
  /\ buf' = [i \in 1..Len(buf) |-> IF i - 1 < cfg.p THEN cfg.fill ELSE buf[i]]
  /\ pc' = "ts_ret"
  /\ UNCHANGED <<cfg, inp, alias, rw, ns, cont, tbl, out>>

TsRet ==
  /\ pc = "ts_ret"
  /\ out' = V(buf) /\ pc' = "done"
  /\ UNCHANGED <<cfg, inp, buf, alias, rw, ns, cont, tbl>>

(***************************************************************************)
(* ev machine: VectorContainer.eval (containers.py:888-929)                *)
(***************************************************************************)
\* step 1, containers.py:888-890: only if a backtick occurs; an unknown label ends the call with KeyError
EvResolve ==
  /\ pc = "ev_resolve"
  /\ IF ~HasBacktick(cfg.expr) THEN /\ rw' = cfg.expr /\ pc' = "ev_ns" /\ UNCHANGED out
     ELSE IF \E l \in Labels(cfg.expr) : ~InSpan(cfg.span, l)
       THEN /\ out' = Err("KeyError", "") /\ pc' = "done" /\ UNCHANGED rw
     ELSE /\ rw' = Rewrite(cfg.expr, cfg.span) /\ pc' = "ev_ns" /\ UNCHANGED out
  /\ UNCHANGED <<cfg, inp, buf, alias, ns, cont, tbl>>

\* step 2, containers.py:894-905: a *copy* of the helper table, updated with the variables, then with the locals
EvNamespace ==
  /\ pc = "ev_ns"
  /\ LET n0 == [n \in tbl |-> Fn(n)]
         n1 == [n \in tbl \cup cfg.vn |-> IF n \in cfg.vn THEN V(cont[n]) ELSE n0[n]]
         n2 == [n \in tbl \cup cfg.vn \cup cfg.ln |-> IF n \in cfg.ln THEN cfg.locs[n] ELSE n1[n]]
     IN ns' = n2
  /\ pc' = "ev_eval"
  /\ UNCHANGED <<cfg, inp, buf, alias, rw, cont, tbl, out>>

\* containers.py:908-929: Python's eval; NameError is reported as AttributeError naming the name
EvEval ==
  /\ pc = "ev_eval"
  /\ LET r == Ev(rw, ns, cfg.span) IN
       out' = IF r.k = "err" /\ r.e = "NameError" THEN Err("AttributeError", r.nm) ELSE r
  /\ pc' = "done"
  /\ UNCHANGED <<cfg, inp, buf, alias, rw, ns, cont, tbl>>

Next == TsEnter \/ TsFill \/ TsSub \/ TsHead \/ TsRet \/ EvResolve \/ EvNamespace \/ EvEval
Spec == Init /\ [][Next]_vars
FairSpec == Spec /\ WF_vars(Next)

Done == pc = "done"
Termination == <>Done

(***************************************************************************)
(* Property layer                                                          *)
(***************************************************************************)
TypeOK ==
  /\ pc \in {"ts_enter", "ts_fill", "ts_sub", "ts_head", "ts_ret", "ev_resolve", "ev_ns", "ev_eval", "done"}
  /\ out.k \in {"none", "vec", "sc", "err"}
  /\ (Done => out.k # "none" /\ out.e # "Unmodelled" /\ out.e # "NameError")
  /\ \A i \in 1..Len(out.v) : out.v[i] = NaN \/ InRange(out.v[i])

\* the property constrains this case (diff with d < 0 is outside it)
Constrained == ~(IsTs /\ cfg.op = "diff" /\ cfg.p < 0)

\* results have the input's length
C16_Len == Done /\ IsTs /\ Constrained => out.k = "vec" /\ Len(out.v) = Len(cfg.x)

\* the input array is never modified (at every step, not only at the end)
C16_InputUntouched == inp = cfg.x

\* lag(x,p)[i] = x[i-p] inside, fill elsewhere; lead(x,p) = lag(x,-p)
C16_LagLead ==
  Done /\ IsTs /\ cfg.op \in {"lag", "lead"} =>
    /\ out.v = (IF cfg.op = "lag" THEN Lag(cfg.x, cfg.p, cfg.fill) ELSE Lag(cfg.x, -cfg.p, cfg.fill))
    /\ Lead(cfg.x, cfg.p, cfg.fill) = Lag(cfg.x, -cfg.p, cfg.fill)
    /\ \A i \in 0..(Len(cfg.x) - 1) :
         LET j == IF cfg.op = "lag" THEN i - cfg.p ELSE i + cfg.p IN
         out.v[i + 1] = IF j \in 0..(Len(cfg.x) - 1) THEN cfg.x[j + 1] ELSE cfg.fill
    /\ (alias => out.v = cfg.x)

\* diff(x,d)[i] = x[i] - x[i-d] for i >= d >= 0, fill before
C16_DiffDef ==
  Done /\ IsTs /\ cfg.op = "diff" /\ cfg.p >= 0 =>
    /\ ~alias
    /\ \A i \in 0..(Len(cfg.x) - 1) :
         out.v[i + 1] = IF i >= cfg.p THEN cfg.x[i + 1] - cfg.x[i - cfg.p + 1] ELSE cfg.fill

NoAbsent == \A l \in Labels(cfg.expr) : InSpan(cfg.span, l)
Declared(r) == IF r.k = "err" /\ r.e = "NameError" THEN Err("AttributeError", r.nm) ELSE r
\* the value by direct denotation: namespace by precedence, labels by the positions they select
Denote == Declared(Ev(cfg.expr, [n \in BoundNames(cfg) |-> Namespace(cfg, n)], cfg.span))

\* positional parts are not rewritten: step 1 changes label nodes only ...
RECURSIVE SameButLabels(_, _)
SameButLabels(e, r) ==
  LET t == e[1] IN
  CASE t = "var"  -> r = e
    [] t = "call" -> r[1] = "call" /\ r[2] = e[2] /\ r[4] = e[4] /\ SameButLabels(e[3], r[3])
    [] t = "pidx" -> r[1] = "pidx" /\ r[3] = e[3] /\ SameButLabels(e[2], r[2])
    [] t = "psl"  -> r[1] = "psl" /\ <<r[3], r[4], r[5]>> = <<e[3], e[4], e[5]>> /\ SameButLabels(e[2], r[2])
    [] t = "lidx" -> r[1] = "pidx" /\ SameButLabels(e[2], r[2])
    [] t = "lsl"  -> r[1] = "psl" /\ r[5] = e[5] /\ (e[3] = NONE => r[3] = NONE) /\ (e[4] = NONE => r[4] = NONE)
                     /\ SameButLabels(e[2], r[2])
    [] t = "bin"  -> r[1] = "bin" /\ r[2] = e[2] /\ SameButLabels(e[3], r[3]) /\ SameButLabels(e[4], r[4])

\* ... and an expression without backticks has its plain Python value whatever the span is
C16_Positional ==
  IsEv /\ NoAbsent /\ pc # "ev_resolve" =>
    /\ SameButLabels(cfg.expr, rw)
    /\ (~HasBacktick(cfg.expr) => rw = cfg.expr)
    /\ (Done /\ ~HasBacktick(cfg.expr) => out = Declared(Ev(cfg.expr, ns, <<>>)))

\* backticked labels select exactly the positions label indexing selects (stop included)
C16_LabelSlice ==
  Done /\ IsEv => IF NoAbsent THEN out = Denote ELSE out = Err("KeyError", "")

\* an undefined name is reported as AttributeError naming it
UndefNames == {NameSeq(cfg.expr)[i] : i \in 1..Len(NameSeq(cfg.expr))} \ BoundNames(cfg)
C16_Undefined ==
  Done /\ IsEv /\ NoAbsent =>
    /\ (out.e = "AttributeError" => out.nm \in UndefNames)
    /\ (UndefNames = {} => out.e # "AttributeError")
    /\ (UndefNames # {} => out.k = "err")
    /\ (NameSeq(cfg.expr)[1] \in UndefNames => out = Err("AttributeError", NameSeq(cfg.expr)[1]))

\* evaluation never alters the container or the package-level helper table
C16_Pure == cont = cfg.vars /\ tbl = HelperNames /\ inp = cfg.x
=============================================================================
