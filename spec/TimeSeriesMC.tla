---------------------------- MODULE TimeSeriesMC ----------------------------
(* Model-checking instances ("slices") of TimeSeries and the emission of   *)
(* one JSON record per case (inputs and the result the spec expects) for   *)
(* replay into fsic.functions.lag/lead/diff/dlog and VectorContainer.eval. *)
EXTENDS TimeSeries, Json

CONSTANTS Shard, NShards,
          MaxN,     \* ts slice: arrays of length 0..MaxN
          Alpha,    \* ev slices: alphabet record (Calls, PIdx, PSl, LIdx, LSl, Ops)
          Scens,    \* ev slices: set of namespace scenarios
          SpanSet,  \* ev slices: set of spans (sequences of distinct label ids)
          MaxOps    \* ev slices: bound on the number of operator nodes (1..3)

Sharded(S, h(_)) == {c \in S : h(c) % NShards = Shard}

(***************************************************************************)
(* ts slice: every array over {0,1,2} up to the length bound, every shift  *)
(* in -n-1..n+1, three fill values                                         *)
(***************************************************************************)
Arrays(m) == UNION {[1..n -> 0..2] : n \in 0..m}
Fills == {NaN, 0, 7}
NoExpr == <<"var", "X">>
TsCase(o, x, p, f) == [kind |-> "ts", scen |-> "", op |-> o, x |-> x, p |-> p, fill |-> f,
                       span |-> <<>>, vn |-> {}, vars |-> <<>>, ln |-> {}, locs |-> <<>>, expr |-> NoExpr]
RECURSIVE SumSeq(_)
SumSeq(x) == IF x = <<>> THEN 0 ELSE Head(x) + 3 * SumSeq(Tail(x))
TsHash(c) == SumSeq(c.x) + 5 * (c.p + 10) + Len(c.x)
TsCases == {TsCase(o, x, p, f) : o \in {"lag", "lead", "diff"}, x \in Arrays(MaxN), p \in (-MaxN - 1)..(MaxN + 1), f \in Fills}
TsCasesS == Sharded({c \in TsCases : c.p >= -Len(c.x) - 1 /\ c.p <= Len(c.x) + 1}, TsHash)

(***************************************************************************)
(* ev slices                                                               *)
(***************************************************************************)
N_ == NONE
AlphaQuick ==
  [Calls |-> {<<"lag", 1>>, <<"lag", -1>>, <<"lag", 0>>, <<"lead", 1>>, <<"diff", 1>>, <<"diff", 0>>},
   PIdx  |-> {1, -1},
   PSl   |-> {<<0, 2, N_>>, <<N_, -1, N_>>, <<N_, N_, 2>>},
   LIdx  |-> {12},
   LSl   |-> {<<11, 12, N_>>, <<N_, 12, N_>>, <<12, 14, 2>>},
   Ops   |-> {"+", "-", "*"}]
AlphaMid ==
  [Calls |-> {<<"lag", 1>>, <<"lag", -1>>, <<"lag", 0>>, <<"lag", 5>>, <<"lead", 1>>, <<"lead", 2>>, <<"lead", -1>>,
              <<"diff", 1>>, <<"diff", 0>>, <<"diff", 2>>},
   PIdx  |-> {0, 1, -1, 3, -5},
   PSl   |-> {<<0, 2, N_>>, <<N_, -1, N_>>, <<1, N_, N_>>, <<N_, N_, 2>>, <<N_, N_, N_>>, <<1, 3, N_>>, <<-2, N_, N_>>, <<1, 4, 2>>},
   LIdx  |-> {11, 12, 14, 19},
   LSl   |-> {<<11, 12, N_>>, <<N_, 12, N_>>, <<12, N_, N_>>, <<11, 14, 2>>, <<12, 13, N_>>, <<13, 12, N_>>, <<11, 19, N_>>},
   Ops   |-> {"+", "-", "*"}]
AlphaFull ==
  [Calls |-> ({<<f, p>> : f \in {"lag", "lead"}, p \in {-5, -1, 0, 1, 2, 5}} \cup {<<"diff", d>> : d \in {0, 1, 2, 5}}),
   PIdx  |-> {0, 1, -1, -2, 3, 4, -5},
   PSl   |-> {<<0, 2, N_>>, <<N_, -1, N_>>, <<1, N_, N_>>, <<N_, N_, 2>>, <<N_, N_, N_>>, <<1, 3, N_>>, <<-2, N_, N_>>,
              <<0, 1, N_>>, <<1, 4, 2>>, <<2, 1, N_>>, <<N_, 9, N_>>, <<-9, 2, N_>>},
   LIdx  |-> {11, 12, 13, 14, 19},
   LSl   |-> {<<11, 12, N_>>, <<N_, 12, N_>>, <<12, N_, N_>>, <<11, 14, 2>>, <<12, 13, N_>>, <<13, 12, N_>>, <<12, 12, N_>>,
              <<N_, 13, 2>>, <<11, 19, N_>>, <<12, 14, 3>>},
   Ops   |-> {"+", "-", "*"}]

\* namespace scenarios: variable names, local names, which names the generator uses as
\* vector leaves (vl; may be undefined), scalar leaves (sl), and callee names (fns)
ScStd    == [id |-> "std",    vn |-> {"X", "Y"},   ln |-> {},         vl |-> {"X", "Y"},          sl |-> {},    fns |-> {"lag", "lead", "diff"}]
ScUndef  == [id |-> "undef",  vn |-> {"X", "Y"},   ln |-> {},         vl |-> {"X", "Q"},          sl |-> {},    fns |-> {"lag", "diff", "nofn"}]
ScLocals == [id |-> "locals", vn |-> {"X", "Y"},   ln |-> {"X", "k"}, vl |-> {"X", "Y"},          sl |-> {"k"}, fns |-> {"lag", "lead", "diff"}]
ScShadow == [id |-> "shadow", vn |-> {"X", "lag"}, ln |-> {"diff"},   vl |-> {"X", "lag", "diff"}, sl |-> {},   fns |-> {"lag", "lead", "diff"}]
ScEmpty  == [id |-> "empty",  vn |-> {},           ln |-> {"k"},      vl |-> {"Q"},               sl |-> {"k"}, fns |-> {"lag"}]
ScensStd == {ScStd}
ScensNs  == {ScUndef, ScLocals, ScShadow, ScEmpty}

SpanAsc  == {<<11, 12, 13, 14>>}
SpanTwo  == {<<11, 12, 13, 14>>, <<11, 12, 13>>}
SpanAll  == {<<11, 12, 13, 14>>, <<11, 12, 13>>, <<13, 11, 14, 12>>}
SpanPerm == {<<13, 11, 14, 12>>, <<12, 11>>}

BaseX == <<0, 1, 2, 3>>
BaseY == <<3, 1, 2, 0>>
BaseL == <<2, 3, 0, 1>>
Take(s, n) == SubSeq(s, 1, n)
SeriesOf(name, n) == IF name = "X" THEN Take(BaseX, n) ELSE Take(BaseY, n)
LocalOf(name, n)  == IF name = "k" THEN Sc(2) ELSE V(Take(BaseL, n))

\* expression sets by number of operator nodes, statically typed (vector / scalar)
RECURSIVE IsVecT(_, _)
IsVecT(e, sl) ==
  LET t == e[1] IN
  CASE t = "var"  -> e[2] \notin sl
    [] t = "call" -> TRUE
    [] t = "pidx" -> FALSE
    [] t = "psl"  -> TRUE
    [] t = "lidx" -> FALSE
    [] t = "lsl"  -> TRUE
    [] t = "bin"  -> IsVecT(e[3], sl) \/ IsVecT(e[4], sl)
Vec(S, sc) == {e \in S : IsVecT(e, sc.sl)}

Un(E, sc) ==
       {<<"call", c[1], e, c[2]>> : c \in {c \in Alpha.Calls : c[1] \in sc.fns} \cup {<<f, 1>> : f \in sc.fns \ {"lag", "lead", "diff"}}, e \in E}
  \cup {<<"pidx", e, i>> : i \in Alpha.PIdx, e \in E}
  \cup {<<"psl", e, s[1], s[2], s[3]>> : s \in Alpha.PSl, e \in E}
  \cup {<<"lidx", e, l>> : l \in Alpha.LIdx, e \in E}
  \cup {<<"lsl", e, s[1], s[2], s[3]>> : s \in Alpha.LSl, e \in E}
Bins(L, R) == {<<"bin", o, l, r>> : o \in Alpha.Ops, l \in L, r \in R}

NameOrder == <<"X", "Y", "Q", "k", "lag", "lead", "diff", "nofn">>
NameIdx(n) == CHOOSE i \in 1..Len(NameOrder) : NameOrder[i] = n
OpIdx(o) == CASE o = "+" -> 1 [] o = "-" -> 2 [] o = "*" -> 3
RECURSIVE H(_)
H(e) ==
  LET t == e[1] IN
  CASE t = "var"  -> NameIdx(e[2])
    [] t = "call" -> (H(e[3]) * 31 + NameIdx(e[2]) * 7 + e[4] + 20) % 1009
    [] t = "pidx" -> (H(e[2]) * 37 + e[3] + 50) % 1009
    [] t = "psl"  -> (H(e[2]) * 41 + e[3] * 3 + e[4] * 5 + e[5] + 700) % 1009
    [] t = "lidx" -> (H(e[2]) * 43 + e[3]) % 1009
    [] t = "lsl"  -> (H(e[2]) * 47 + e[3] * 3 + e[4] * 5 + e[5]) % 1009
    [] t = "bin"  -> (H(e[3]) * 53 + H(e[4]) * 59 + OpIdx(e[2])) % 1009
Sh_(S) == Sharded(S, H)

\* this shard's expressions, by number of operator nodes: the sub-term that carries the hash
\* is filtered before the enclosing forms are built, so no shard ever materialises the whole
\* 3-operator level
ExprsS(sc) ==
  LET e0 == {<<"var", n>> : n \in sc.vl \cup sc.sl}
      e1 == Un(Vec(e0, sc), sc) \cup Bins(e0, e0)
      e2 == Un(Vec(e1, sc), sc) \cup Bins(e0, e1) \cup Bins(e1, e0)
      s1 == Sh_(e1)
      s2 == Sh_(e2)
  IN   Sh_(e0)
  \cup (IF MaxOps >= 1 THEN s1 ELSE {})
  \cup (IF MaxOps >= 2 THEN s2 ELSE {})
  \cup (IF MaxOps >= 3 THEN Un(Vec(s2, sc), sc) \cup Bins(e0, s2) \cup Bins(s2, e0) \cup Bins(s1, e1) ELSE {})

EvCase(sc, sp, e) ==
  [kind |-> "ev", scen |-> sc.id, op |-> "", x |-> <<>>, p |-> 0, fill |-> NaN,
   span |-> sp, vn |-> sc.vn, vars |-> [n \in sc.vn |-> SeriesOf(n, Len(sp))],
   ln |-> sc.ln, locs |-> [n \in sc.ln |-> LocalOf(n, Len(sp))], expr |-> e]
\* (no set of all cases is built: TLC's UNION is quadratic in the number of records)
EvInit == \E sc \in Scens : \E sp \in SpanSet : \E e \in ExprsS(sc) : InitWith(EvCase(sc, sp, e))
NoCases == {}
EvFairSpec == EvInit /\ [][Next]_vars /\ WF_vars(Next)

(***************************************************************************)
(* emission                                                                *)
(***************************************************************************)
EmitRec ==
  IF IsTs
    THEN [kind |-> "ts", op |-> cfg.op, x |-> cfg.x, p |-> cfg.p, fill |-> cfg.fill, open |-> ~Constrained,
          alias |-> alias, out |-> out,
          fp |-> SortedSeq(IF cfg.op = "diff" THEN FillPosDiff(Len(cfg.x), cfg.p)
                           ELSE FillPosShift(Len(cfg.x), IF cfg.op = "lead" THEN -cfg.p ELSE cfg.p))]
    ELSE [kind |-> "ev", scen |-> cfg.scen, span |-> cfg.span, vars |-> cfg.vars, locs |-> cfg.locs,
          expr |-> cfg.expr, out |-> out]
EmitInv == Done => PrintT(ToJson(EmitRec))
=============================================================================
