------------------------------- MODULE Tracer -------------------------------
(***************************************************************************)
(* TracerMixin (fsic/extensions/model.py:522-612) wrapped around the       *)
(* per-period solver of Solver.tla: every Solver action is taken           *)
(* unchanged and additionally appends what the mixin appends to the        *)
(* period's Trace.  C17: tracing never changes a solution (the projection  *)
(* to Solver's variables is a behaviour of Solver - checked as the         *)
(* refinement PROPERTY Spec), nothing is written with tracing off, and the *)
(* trace of a call has the documented shape.                               *)
(***************************************************************************)
EXTENDS Solver

VARIABLES tracing,   \* is trace=... truthy for this call
          started,   \* has TracerMixin.solve_t recorded 'start' (it does so before the guards)
          tr         \* the segment this call appends to the period's Trace: sequence of [l, n, snap]

tvars == <<vars, tracing, started, tr>>

Entry(l, n, snap) == [l |-> l, n |-> n, snap |-> snap]

TInit == Init /\ tracing \in BOOLEAN /\ started = FALSE /\ tr = <<>>

(* model.py:537-540: 'start' is stored before the parent solve_t runs (hence before any guard) *)
TStart ==
  /\ ~started /\ started' = TRUE
  /\ tr' = IF tracing THEN <<Entry("start", 0, cells)>> ELSE tr
  /\ UNCHANGED <<vars, tracing>>

Plain(A) == started /\ A /\ UNCHANGED <<tracing, started, tr>>

(* model.py:556-568: 'before', parent hook, then 0 *)
TBefore(b, w) ==
  /\ started /\ Before(b, w)
  /\ tr' = IF ~tracing THEN tr
           ELSE IF b = "exc" THEN Append(tr, Entry("before", 0, cells))
           ELSE tr \o <<Entry("before", 0, cells), Entry("pass", 0, cells')>>
  /\ UNCHANGED <<tracing, started>>

(* model.py:606-612: parent _evaluate, then the iteration number *)
TPass(o) ==
  /\ started /\ Pass(o)
  /\ tr' = IF tracing /\ FirstRaise(o) = 0 THEN Append(tr, Entry("pass", k + 1, cells')) ELSE tr
  /\ UNCHANGED <<tracing, started>>

(* model.py:584-590: parent hook, then 'end' *)
TAfter(a, w) ==
  /\ started /\ After(a, w)
  /\ tr' = IF tracing /\ a = "ok" THEN Append(tr, Entry("end", 0, cells')) ELSE tr
  /\ UNCHANGED <<tracing, started>>

TDoBefore == \E b \in HookOuts, w \in HookWrites : (w = <<>> \/ Len(w) = NV) /\ TBefore(b, w)
TDoPass   == \E o \in PassOuts : TPass(o)
TDoAfter  == \E a \in HookOuts, w \in HookWrites : (w = <<>> \/ Len(w) = NV) /\ TAfter(a, w)

TNext == TStart \/ Plain(GuardMinMax) \/ Plain(GuardFeasible) \/ Plain(OffsetStep) \/ Plain(PreCheck) \/ TDoBefore \/ Plain(LoopHead)
         \/ TDoPass \/ Plain(Judge) \/ TDoAfter \/ Plain(Stamp) \/ Plain(Return)

TSpec == TInit /\ [][TNext]_tvars

----------------------------------------------------------------------------
(* Declarative layer (C17) *)
Labels == [i \in 1..Len(tr) |-> <<tr[i].l, tr[i].n>>]
GoodPasses == IF nP > 0 /\ PassRaises(nP) THEN nP - 1 ELSE nP
Expected ==
  <<<<"start", 0>>>>
  \o (IF nB = 0 THEN <<>> ELSE <<<<"before", 0>>>>
      \o (IF hb # "ok" THEN <<>> ELSE [j \in 1..(GoodPasses + 1) |-> <<"pass", j - 1>>]
          \o (IF ha = "ok" THEN <<<<"end", 0>>>> ELSE <<>>)))

C17_Off   == ~tracing => tr = <<>>
C17_Shape == (Done /\ tracing) =>
   /\ Labels = Expected
   /\ \A i \in 1..Len(tr) : tr[i].l = "pass" /\ tr[i].n >= 1 => tr[i].snap = CellsAfter(tr[i].n)
   /\ \A i \in 1..Len(tr) : tr[i].l = "pass" /\ tr[i].n = 0 => tr[i].snap = CellsAfter(0)
   /\ \A i \in 1..Len(tr) : tr[i].l = "start" => tr[i].snap = cfg.c0
   /\ (res.kind = "True" => tr[Len(tr)].l = "end" /\ tr[Len(tr)].snap = cells /\ tr[Len(tr) - 1] = Entry("pass", it, CellsAfter(it)))
(* an unsolved period's trace stops after its last pass *)
C17_Unsolved == (Done /\ tracing /\ res.kind # "True" /\ nP > 0 /\ ha # "ok") => tr[Len(tr)].l = "pass" /\ tr[Len(tr)].n = GoodPasses
=============================================================================
