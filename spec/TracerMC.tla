------------------------------ MODULE TracerMC ------------------------------
EXTENDS SolverMC, Tracer
TEmitRec == [cfg |-> cfg, hist |-> hist, tracing |-> tracing, tr |-> tr,
             fin |-> [st |-> st, it |-> it, res |-> res, cells |-> cells, nB |-> nB, nA |-> nA, nP |-> nP,
                      hb |-> hb, ha |-> ha, wb |-> wb, wa |-> wa]]
TEmitInv == Done => PrintT(ToJson(TEmitRec))
=============================================================================
