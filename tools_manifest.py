#!/venv/bin/python
"""Regenerate MANIFEST.json from the table below (single source of truth for the interface)."""
import json

BASELINE_OFF = ("cd /repo && env -u FSIC_VERIF -u FSIC_VERIF_TRACE /venv/bin/python -m pytest -ra -q -p no:cacheprovider "
                "--timeout=900 --continue-on-collection-errors")

CHECKS = {
    'C02': dict(category='model_checking', engine='Solver', technique='TLA+ Solver.tla: TLC exhaustive slices + simulation; behaviours replayed into solve_t/solve_period/solve; hook traces validated by SolverTrace.tla',
                text='Solver.tla models one solve_t call step by step; TLC checks the declarative C02 invariants (first converging pass, failure, rejection, hook counts, termination) over every option set x outcome sequence in the stated slices, every terminal behaviour is replayed on the real solver (three entry points, two value scalings, boundary tolerances) and real executions (repo tests, random parser-built systems) are validated event by event against the same actions.',
                note='Trusted: TLC; scripted-model realisation of abstract outcomes; float->int abstraction of recorded vectors; slices are finite (MaxI<=3 exhaustively, <=12 by simulation).', ref='6.1, 7 (C02)'),
    'C06': dict(category='model_checking', engine='Solver', technique='TLA+ Solver.tla fault alphabet: TLC exhaustive + simulation; fault behaviours replayed; naturally faulting models trace-validated by SolverTrace.tla',
                text='Same machine as C02 with the fault alphabet fully open (silent NaN/inf, warning-raising operations, exceptions in statements and hooks, pre-existing non-finite cells, invalid errors=); TLC checks the C06 policy invariants; every faulting behaviour is replayed on the real solver; executions of models that fault naturally are validated against SolverTrace.tla.',
                note='Trusted: as C02; warning-raising operations realised by NumPy float64 arithmetic.', ref='6.1, 7 (C06)'),
    'C05': dict(category='model_checking', engine='MultiSolve', technique='TLA+ MultiSolve.tla: TLC exhaustive over span length x (start,end) labels x options x fault position; behaviours replayed through solve() on nine span types and against an explicit solve_t loop twin',
                text='MultiSolve.tla models solve()/iter_periods()/solve_period() step by step with per-period outcomes taken from Solver.tla terminal summaries; TLC checks visits, returned triple, containment of failures and early rejection for every behaviour within the bound; each behaviour is replayed on the real code over nine span types and compared with the spec and with a twin driven by the explicit per-period loop.',
                note='Trusted: TLC; scripted per-period faults; spans carry distinct labels and are at least LAGS+LEADS+1 long.', ref='6.2, 7 (C05)'),
    'C08': dict(category='model_checking', engine='Linker', technique='TLA+ Linker.tla: TLC exhaustive over submodel counts x ordered selections x options x per-iteration outcome sequences; behaviours replayed on a real BaseLinker with scripted submodels, single-submodel linkers compared with the bare model',
                text='Linker.tla models construction and one BaseLinker.solve_t call step by step (validation, offset seeding, pre-hook, submodel passes in selection order, post-hook, judge, stamping); TLC checks order, convergence (first iteration at which every check variable moved < tol), stamping, unselected-untouched, unknown ids, span mismatch, offset and lag/lead maxima on every behaviour in the bound; each behaviour is replayed on the real linker through solve_t and solve under two value scalings, and single-submodel linkers are compared with solving the model directly.',
                note='Trusted: TLC; scripted submodels; finite data only; MaxN<=3 submodels, MaxI<=3 iterations exhaustively.', ref='6.3, 7 (C08)'),
    'C17': dict(category='model_checking', engine='Tracer', technique='TLA+ Tracer.tla (Solver.tla + TracerMixin appends): TLC exhaustive incl. refinement of Solver; behaviours replayed on traced and untraced twins, Trace compared with the spec segment',
                text='Tracer.tla conjoins every Solver.tla action with the append the mixin performs; TLC checks that every traced behaviour projects to a Solver behaviour (non-interference at design level), that nothing is written with tracing off and that the segment has the documented shape with snapshot j = cells after pass j; each behaviour is run on a TracerMixin model and an untraced twin through all three entry points and three trace argument forms, comparing twins, spec and the recorded Trace, including repeated solves.',
                note='Trusted: as C02; snapshot comparison is on check variables, other traced names by presence/shape.', ref='6.6, 7 (C17)'),
    'C16': dict(category='model_checking', engine='TimeSeries', technique='TLA+ TimeSeries.tla: shift/lag/lead/diff operators and an eval() expression machine enumerated exhaustively by TLC; every case replayed on fsic.functions and VectorContainer.eval over five span types',
                text='TimeSeries.tla defines lag/lead/diff as the property states them and models eval() (label resolution, namespace assembly, evaluation, NameError->AttributeError) with a direct denotation layer (C16_* invariants); TLC enumerates all small arrays x shifts x fills and all expressions up to 3 operator nodes over namespace scenarios and spans; each emitted case carries the expected result and is replayed on the real helpers and on container.eval, also checking input arrays, the container and the package-level helper table are untouched.',
                note='Trusted: TLC; ast round-trip of rendered expressions; arrays <=4, expressions <=3 operator nodes; dlog compared numerically against np.log differences.', ref='6.9, 7 (C16)'),
}

NOT_YET = {}


def main():
    props = [json.loads(l) for l in open('/verif/properties.jsonl')]
    checks = []
    na = []
    for p in props:
        i = p['id']
        if i in CHECKS:
            c = CHECKS[i]
            checks.append({
                'property_id': i,
                'quick_cmd': f'./check {i} --tier quick',
                'thorough_cmd': f'./check {i} --tier thorough',
                'evidence_file': f'/verif/evidence/{i}.json',
                'replay_cmd_template': f'./check {i} --replay {{path}}',
                'engine': c['engine'],
                'level_claimed': {'category': c['category'], 'text': c['text'], 'design_ref': c['ref']},
                'level_note': c['note'],
                'technique': c['technique'],
            })
        else:
            na.append({'property_id': i, 'reason': NOT_YET.get(i, 'check under construction in this round: specification module and binding not committed yet (see DESIGN.md section 7 for the plan)')})
    engines = {}
    for i, c in CHECKS.items():
        engines.setdefault(c['engine'], []).append(i)
    m = {
        'version': 1,
        'setup_cmd': './setup.sh',
        'hooks': {
            'guard': 'FSIC_VERIF',
            'enable': 'environment FSIC_VERIF=1 (read once at import of fsic._verif); events go to the file named by FSIC_VERIF_TRACE',
            'baseline_off_cmd': BASELINE_OFF,
            'source_commits': HOOK_COMMITS,
            'add_only': True,
        },
        'engines': [{'name': e, 'path': f'/verif/spec/{e}.tla', 'serves_properties': ps,
                     'kind_free_text': 'TLA+ specification checked with TLC, bound to the code by behaviour replay and trace validation'} for e, ps in engines.items()],
        'checks': checks,
        'not_applicable': na,
        'notes': 'All checks: ./check <id> --tier quick|thorough; exit 0 held / 1 violation / 2 machinery failure. See DESIGN.md.',
    }
    json.dump(m, open('/verif/MANIFEST.json', 'w'), indent=1)
    print('checks', len(checks), 'not_applicable', len(na))


HOOK_COMMITS = ['c01a04f', 'a6c66f8', '0b44310']

if __name__ == '__main__':
    main()
