#!/venv/bin/python
"""Regenerate MANIFEST.json from the table below (single source of truth for the interface)."""
import json

BASELINE_OFF = ("cd /repo && env -u FSIC_VERIF -u FSIC_VERIF_TRACE /venv/bin/python -m pytest -ra -q -p no:cacheprovider "
                "--timeout=900 --continue-on-collection-errors")

CHECKS = {
    'C02': dict(category='model_checking', engine='Solver', technique='TLA+ Solver.tla: TLC exhaustive slices + simulation; behaviours replayed into solve_t/solve_period/solve; hook traces validated by SolverTrace.tla; SolverInd.tla inductive invariant (Apalache) for unbounded min_iter/max_iter',
                text='Solver.tla models one solve_t call step by step; TLC checks the declarative C02 invariants (first converging pass, failure, rejection, hook counts, termination) over every option set x outcome sequence in the stated slices, every terminal behaviour is replayed on the real solver (three entry points, two value scalings, boundary tolerances) and real executions (repo tests, random parser-built systems) are validated event by event against the same actions.',
                note='Trusted: TLC; scripted-model realisation of abstract outcomes; float->int abstraction of recorded vectors; slices are finite (MaxI<=3 exhaustively, <=12 by simulation).', ref='6.1, 7 (C02)'),
    'C06': dict(category='model_checking', engine='Solver', technique='TLA+ Solver.tla fault alphabet: TLC exhaustive + simulation; fault behaviours replayed; naturally faulting models trace-validated by SolverTrace.tla',
                text='Same machine as C02 with the fault alphabet fully open (silent NaN/inf, warning-raising operations, exceptions in statements and hooks, pre-existing non-finite cells, invalid errors=); TLC checks the C06 policy invariants; every faulting behaviour is replayed on the real solver; executions of models that fault naturally are validated against SolverTrace.tla.',
                note='Trusted: as C02; warning-raising operations realised by NumPy float64 arithmetic.', ref='6.1, 7 (C06)'),
    'C05': dict(category='model_checking', engine='MultiSolve', technique='TLA+ MultiSolve.tla: TLC exhaustive over span length x (start,end) labels x options x fault position; behaviours replayed through solve() on fourteen span types (incl. falsy first labels, descending / permuted NumPy spans), on fresh, previously solved and reindexed objects, against an explicit solve_t loop twin, and through BaseLinker.solve on a wrapping linker',
                text='MultiSolve.tla models solve()/iter_periods()/solve_period() step by step with per-period outcomes taken from Solver.tla terminal summaries; TLC checks visits, returned triple, containment of failures and early rejection for every behaviour within the bound; each behaviour is replayed on the real code over fourteen span types and compared with the spec and with a twin driven by the explicit per-period loop.',
                note='Trusted: TLC; scripted per-period faults; spans carry distinct labels and are at least LAGS+LEADS+1 long.', ref='6.2, 7 (C05)'),
    'C08': dict(category='model_checking', engine='Linker', technique='TLA+ Linker.tla: TLC exhaustive over submodel counts x ordered selections x options x per-iteration outcome sequences; behaviours replayed on a real BaseLinker with scripted submodels, single-submodel linkers compared with the bare model',
                text='Linker.tla models construction and one BaseLinker.solve_t call step by step (validation, offset seeding, pre-hook, submodel passes in selection order, post-hook, judge, stamping); TLC checks order, convergence (first iteration at which every check variable moved < tol), stamping, unselected-untouched, unknown ids, span mismatch, offset and lag/lead maxima on every behaviour in the bound; each behaviour is replayed on the real linker through solve_t and solve under two value scalings, and single-submodel linkers are compared with solving the model directly.',
                note='Trusted: TLC; scripted submodels; finite data only; MaxN<=3 submodels, MaxI<=3 iterations exhaustively.', ref='6.3, 7 (C08)'),
    'C17': dict(category='model_checking', engine='Tracer', technique='TLA+ Tracer.tla (Solver.tla + TracerMixin appends): TLC exhaustive incl. refinement of Solver; behaviours replayed on traced and untraced twins, Trace compared with the spec segment',
                text='Tracer.tla conjoins every Solver.tla action with the append the mixin performs; TLC checks that every traced behaviour projects to a Solver behaviour (non-interference at design level), that nothing is written with tracing off and that the segment has the documented shape with snapshot j = cells after pass j; each behaviour is run on a TracerMixin model and an untraced twin through all three entry points and three trace argument forms, comparing twins, spec and the recorded Trace, including repeated solves.',
                note='Trusted: as C02; snapshot comparison is on check variables, other traced names by presence/shape.', ref='6.6, 7 (C17)'),
    'C16': dict(category='model_checking', engine='TimeSeries', technique='TLA+ TimeSeries.tla: shift/lag/lead/diff operators and an eval() expression machine enumerated exhaustively by TLC; every case replayed on fsic.functions and VectorContainer.eval over five span types',
                text='TimeSeries.tla defines lag/lead/diff as the property states them and models eval() (label resolution, namespace assembly, evaluation, NameError->AttributeError) with a direct denotation layer (C16_* invariants); TLC enumerates all small arrays x shifts x fills and all expressions up to 3 operator nodes over namespace scenarios and spans; each emitted case carries the expected result and is replayed on the real helpers and on container.eval, also checking input arrays, the container and the package-level helper table are untouched.',
                note='Trusted: TLC; ast round-trip of rendered expressions; arrays <=4, expressions <=3 operator nodes; dlog compared numerically against np.log differences.', ref='6.9, 7 (C16)'),
    'C01': dict(category='translation_validation', engine='Script', technique="TLA+ Script.tla program space (stack machine incl. verbatim fragments and verbatim statements, exhaustive layers + simulation + long composed programs judged by ScriptJudge.tla) with reference semantics; generated _evaluate executed concolically on recording arrays and compared with the reference interpretation of the spec tree and with the spec's Gauss-Seidel event list",
                text="Script.tla enumerates every program of each layer and defines what it means (terms, evaluation order, which cell version every read sees); TLC checks the semantic theorems on every program; the harness renders each program under several name maps, runs fsic's parser and class builder, executes the generated code on recording arrays (term tree + value per write, raw index per access, branch decisions) for every feasible period and three data tables and requires equality with the reference; equality of term trees over uninterpreted leaves holds for all data.",
                note="Trusted: TLC; renderer (cross-checked by Python's ast on every program); Sym/RecArray concolic layer; Python operators as float semantics. Bounds: layers term/pair/shape/merge exhaustively, sim beyond.", ref='6.7, 7 (C01)'),
    'C03': dict(category='model_checking', engine='Script', technique='TLA+ Script.tla: classification/order/lag-lead/default-range operators and theorems checked by TLC on every generated program; parse_model and build_model outputs compared with the emitted reference',
                text="TLC proves on every program of the layers that the four classes partition the names in first-appearance order, LAGS/LEADS are the extreme offsets and the default range equals the set of feasible periods; the parser's symbol list, the built class's lists and LAGS/LEADS under eight option sets, and the periods solve() visits are compared with the emitted reference; rejected programs must raise SymbolError/ParserError.",
                note='Trusted: TLC; renderer; name maps. A name used both as variable and as called function in one script is treated as rejected (SymbolError).', ref='6.7, 7 (C03)'),
    'C04': dict(category='model_checking', engine='Script', technique='TLA+ Script.tla feasibility / reads-inside theorems (TLC) + Solver.tla C04_OnlyT; every program x span length x period (both spellings) solved on the real class with full-matrix diff and recording arrays',
                text='TLC proves DefaultRange = feasible set and that all reads of a feasible period are inside the span; the binding solves every period of every program through solve_t and solve(start=end) and checks that feasible periods change only the assigned cells and status/iterations at t, that every array access hits the intended position (no wrap), and that infeasible periods are rejected with nothing changed.',
                note='Trusted: as C01; python engine only in this check (Fortran engine covered under C07).', ref='7 (C04)'),
    'C14': dict(category='translation_validation', engine='Script', technique="TLA+ Script.tla programs rendered under a layout catalogue; symbols and code AST must equal the canonical rendering's (metamorphic), statement independence, permutation, normal-form fixed point",
                text='Each spec program (equations and verbatim statements) is rendered under twelve layouts (incl. CRLF line endings, comments with unmatched brackets and backticks), and with its first statement repeated in another layout; since the program (tree) is the meaning, every layout must give the same symbols and code AST; parsing a script must equal merging single-statement parses, permuting statements only permutes symbols and re-feeding a normalised equation reproduces equation and code.',
                note='Trusted: renderer and layout joiner (cross-checked by ast for the canonical layout).', ref='7 (C14)'),
    'C15': dict(category='translation_validation', engine='Script', technique='TLA+ Script.tla programs x option sets (WithOpt computed by TLC) x build routes; class attributes compared with the reference and evaluation events compared pairwise by concolic execution',
                text="For every program and four option sets the classes from build_model, from executing the definition text and from executing CODE, with and without type hints, must have the spec's lists and LAGS/LEADS and produce identical evaluation event sequences (verbatim statements report their execution); the CODE attribute equals the definition text for every converter, whatever was built before; converters are called once per equation-bearing symbol in order and their output is inserted verbatim.",
                note='Trusted: as C01.', ref='7 (C15)'),
    'C20': dict(category='model_checking', engine='Script', technique='TLA+ Script.tla Deps operator (TLC: Deps = right-hand-side reads) vs symbols_to_graph edges; observed reads and perturbation on recording arrays',
                text="TLC proves Deps(i) equals the variable-like right-hand-side terms; the graph's edges among variable-like nodes must equal Deps, nodes carry their normalised equation, the reads observed when evaluating each equation alone equal its in-edges and perturbing any series/offset without an edge leaves the result unchanged.",
                note='Trusted: as C01.', ref='7 (C20)'),
    'C07': dict(category='translation_validation', engine='Script', technique='TLA+ Script.tla programs of the common expression subset; build_fortran_definition output compiled with gfortran (ctypes stand-in for F2PY) and compared with the Python class and with the reference interpretation of the spec tree on evaluate / solve_t / solve',
                text='Script.tla enumerates the programs; each is translated to Fortran, compiled and loaded as ENGINE of a FortranEngine subclass; evaluate must equal the Python class and the reference interpretation of the spec tree for every feasible period in both spellings; solve_t over all periods (incl. infeasible) and random option sets (offsets in/out of span, max_iter=0, min>max) and solve over default/explicit ranges must give the same return values, exception classes, statuses, iteration counts and values as the Python class, whose control behaviour is bound to Solver.tla by C02/C06.',
                note='Trusted: gfortran; ctypes shim instead of F2PY (F2PY marshalling not exercised); finite data only; 1e-12 relative tolerance.', ref='7 (C07), 15.2'),
    'C13': dict(category='exploration', engine='Splitter', technique='TLA+ Splitter.tla (character-class transcription of the statement splitter with the property as invariants): TLC enumerates every class string up to the bound; every concrete string over the 27-character alphabet is fed to the real parse_model with side-effect canaries and judged by the emitted legal-outcome set; spec-judged mutation fuzzing of valid scripts',
                text='Splitter.tla consumes one character class at a time exactly like split_equations_iter (comments, fences, bracket depth, statement regex) and states C13_NoSilentDrop / C13_Outcome / C14_Independent; TLC enumerates all class strings (length <= 4 quick, <= 5 thorough, plus eight context heads) and emits for each the legal outcomes and statement extents; the harness expands each to all concrete strings, runs parse_model under a CPU-time alarm with canaries (print/open/sentinel call/np.geterr/warnings/cwd/module globals), requires a parser-own error or a model that builds, instantiates and has exactly the spec\'s statements, and also judges ~40 seed scripts and their mutants through the spec.',
                note='Trusted: TLC; the documented expansion of classes to characters; exhaustive only to the stated length; longer inputs by context heads and fuzzing.', ref='6.8, 7 (C13)'),
    'C18': dict(category='model_checking', engine='Alias', technique='TLA+ Alias.tla: alias-map operators (Shorten, Resolve, ExportNames) and an aliased/canonical twin machine checked exhaustively by TLC; behaviours replayed on an AliasMixin model and a canonical twin under three name maps (plain, adversarial, aliases spelt like class attributes)',
                text='Alias.tla transcribes chain shortening, resolution, preferred-name checks and export naming, and runs an aliased model and its canonical twin in lock-step under the container operation alphabet; TLC checks C18_Shorten/Twin/NoStorage/Ambiguous/Export over all alias maps (many-to-one, chains, self-maps, aliases of aliases) x PREFERRED_NAMES subsets x histories; each behaviour is replayed on real classes (constructor keywords, attribute/key/label/slice/bulk access, solution code through aliases, to_dataframe(use_aliases=True)) with storage-identity checks and a CPU-time alarm on construction.',
                note='Trusted: TLC; <=3 variables, <=4 aliases, chains <=3, histories <=3 exhaustively; pandas rename observed.', ref='6.5, 7 (C18)'),
    'C19': dict(category='exploration', engine='Tabular', technique='TLA+ Tabular.tla: ToTable/FromTable/linker tables/symbol-table operators with round-trip invariants checked by TLC; emitted expected tables compared with real DataFrames over seven span types (ascending, descending and rotated labels) and eight flag sets, models constructed with dtype float/int/bool; symbol round trip on parser output',
                text='Tabular.tla defines the expected table (index, columns in model order, dtype kinds, cells, status/iterations/internal flags), the from_dataframe inverse, per-submodel linker tables and the symbol round trip; TLC checks C19_Shape/RoundTrip/Linker/Symbols on every model shape in the bound and emits the expected tables; the harness builds the real models (extra int/bool/str/float and underscore variables, solved and unsolved) over seven span types, compares the DataFrames cell by cell, re-imports them and round-trips every symbol list.',
                note='Trusted: TLC; pandas dtype coercions are observed, not modelled; from_dataframe covers class-level variables only.', ref='6.10, 7 (C19)'),
    'C09': dict(category='model_checking', engine='Container', technique='TLA+ Container.tla: the public container operation alphabet x operand classes as a machine with C09_Shape/Atomic/Strict invariants; TLC exhaustive histories + simulation; every history replayed on VectorContainer, BaseModel and BaseLinker with a full projection after every operation; recorded container operations of the repo tests and a random driver judged by ContainerTrace.tla',
                text='Container.tla states for every (operation, operand class, value kind) whether it must be accepted with a given result, rejected leaving everything unchanged, or is unconstrained by the property; TLC checks shape/dtype preservation, atomic rejection and strict-mode rules on all histories in the slices (every operation x operand once from every state reachable in one prior step; depth-3/4 histories over a reduced alphabet; depth-25 simulation) and emits the expected projection after each step, which the harness compares with names, index order, per-series shape/dtype/values, attributes, strict flag, values matrix, size and nbytes of the real objects.',
                note='Trusted: TLC; operand-class realisations; NumPy casting semantics; a history is abandoned at its first disagreement.', ref='6.4, 7 (C09)'),
    'C11': dict(category='model_checking', engine='Container', technique='TLA+ Container.tla action property C11_Indep / C11_Frame (every action changes only its target object): TLC over copy/sibling histories; replay with full projection of all objects and class-level lists plus an identity scan for shared mutable objects',
                text='The same machine with copies (copy(), copy.copy, deepcopy), fresh siblings and class-level lists as objects; TLC checks that every action leaves all other objects and the class lists unchanged, with the copy taken at every point of a history and mutations (values, added variables/attributes, lags/leads, list mutations, solves) applied to either side; the harness replays on containers, plain/Alias/Tracer/both-mixin models and linkers with nested submodels, projects all objects after every step and walks __dict__ recursively to assert that no two objects share a list, dict, Trace or array memory.',
                note='Trusted: as C09; the span object passed by the caller is stored by reference and is out of scope (in-place mutation of a span is not an operation).', ref='6.4, 7 (C11), 8'),
    'C10': dict(category='model_checking', engine='LabelAccess', technique='TLA+ Span.tla (Pos, SliceSet and the transcribed lookup routes) + LabelAccess.tla write/read machine: TLC exhaustive over spans, labels, label slices and two-write histories; replayed on ten concrete span types with read-back through every access path',
                text='Span.tla gives the declarative reading of label and label-slice addressing and transcribes the three lookup routes (get_loc / index / fallback, slice-valued lookups, conditional inclusive stop); LabelAccess.tla writes through label, label slice, position, attribute and name key and reads everything back; TLC checks C10_Exact/Absent/ReadBack/ReadsExact/LocateIsPos on all spans up to the bound with every label (incl. absent and coarse ones) and every (start, stop, step); each behaviour is replayed on VectorContainer and BaseModel over range, list of str, mixed hashables, NumPy int/str arrays, pandas Index, annual/quarterly PeriodIndex and DatetimeIndex in object and string spelling.',
                note='Trusted: TLC; label-id to concrete-label maps; positive steps only; labels equal under == are not generated.', ref='6.4, 7 (C10), 8'),
    'C12': dict(category='model_checking', engine='Reindex', technique='TLA+ Reindex.tla: reindex machine and C12 invariants over all (old, new) span pairs x dtype kinds x fill lattice x strict, exhaustive in TLC; expected result tables replayed on containers, partly solved models and the pandas mixin over ten span types',
                text='Reindex.tla follows BaseModel.reindex / VectorContainer.reindex step by step and states C12_Reindex/Strict/KindFree/OrigUnchanged; TLC enumerates every pair of spans up to the bound (overlapping, disjoint, permuted, shrunk, extended, repeated labels in the new span) with float/int/bool/str variables and every combination of fill_value, per-variable fills and strict; each emitted expected table is compared by label with the real result on VectorContainer, a partly solved BaseModel and a PandasIndexFeaturesMixin model with default arguments, checking dtype, order, attributes, lags/leads, the unchanged original and the absence of shared memory.',
                note='Trusted: TLC; pandas/NumPy coercion of fill values is observed, not modelled; old spans have distinct labels.', ref='6.4, 7 (C12), 8'),
}

NOT_YET = {}


def main():
    props = [json.loads(l) for l in open('/verif/properties.jsonl')]
    checks = []
    na = []
    for p in props:
        i = p['id']
        if i in CHECKS:
            c = CHECKS[i]
            checks.append({
                'property_id': i,
                'quick_cmd': f'./check {i} --tier quick',
                'thorough_cmd': f'./check {i} --tier thorough',
                'evidence_file': f'/verif/evidence/{i}.json',
                'replay_cmd_template': f'./check {i} --replay {{path}}',
                'engine': c['engine'],
                'level_claimed': {'category': c['category'], 'text': c['text'], 'design_ref': c['ref']},
                'level_note': c['note'],
                'technique': c['technique'],
            })
        else:
            na.append({'property_id': i, 'reason': NOT_YET.get(i, 'check under construction in this round: specification module and binding not committed yet (see DESIGN.md section 7 for the plan)')})
    engines = {}
    for i, c in CHECKS.items():
        engines.setdefault(c['engine'], []).append(i)
    m = {
        'version': 1,
        'setup_cmd': './setup.sh',
        'hooks': {
            'guard': 'FSIC_VERIF',
            'enable': 'environment FSIC_VERIF=1 (read once at import of fsic._verif); events go to the file named by FSIC_VERIF_TRACE; FSIC_VERIF_OPS=1 additionally traces container operations (c_op events) and has no effect without FSIC_VERIF=1',
            'baseline_off_cmd': BASELINE_OFF,
            'source_commits': HOOK_COMMITS,
            'add_only': True,
        },
        'engines': [{'name': e, 'path': f'/verif/spec/{e}.tla', 'serves_properties': ps,
                     'kind_free_text': 'TLA+ specification checked with TLC, bound to the code by behaviour replay and trace validation'} for e, ps in engines.items()],
        'checks': checks,
        'not_applicable': na,
        'notes': 'All checks: ./check <id> --tier quick|thorough; exit 0 held / 1 violation / 2 machinery failure. See DESIGN.md.',
    }
    json.dump(m, open('/verif/MANIFEST.json', 'w'), indent=1)
    print('checks', len(checks), 'not_applicable', len(na))


HOOK_COMMITS = ['c01a04f', 'a6c66f8', '0b44310', '30cf8c9', '6b2b0dc', '2737716', 'e723be2', '520cc98']

if __name__ == '__main__':
    main()
